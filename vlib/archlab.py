"""Machine-code sample generator shared by the instruction-level checks (C14..C17).

For every architecture/mode miasm ships (x86 16/32/64, arml/armb, armtl/armtb, aarch64l/aarch64b,
mips32l/mips32b, ppc32b, msp430, mepl/mepb and sh4 for decode-only properties) three strata of byte
strings are produced:

* ``curated``      the hexadecimal vectors of miasm's own arch scripts (test/arch/*/arch.py, test/arch/mep/asm),
                   extracted with ``ast`` at run time (the scripts are never executed);
* ``enum``         opcode-space enumeration.  x86: every one-byte, 0F, 0F38 and 0F3A opcode x ModRM classes x
                   prefix sets; 16-bit ISAs (Thumb-1, MSP430, MeP, SH4): every first halfword; 32-bit ISAs: the
                   major opcode fields enumerated, the remaining bits from fixed patterns (all-zero, all-one,
                   single bits, hash-derived words);
* ``random``       Hypothesis byte strings (the only stratum that depends on VERIF_SEED).

The first two strata are a pure function of (tree, tier): identical at every seed.

Byte order: samples are built as *logical* code units (most significant byte first) and converted to the memory
image of the mode with ``to_mem`` (unit 4 for ARM/AArch64/MIPS/PPC, 2 for Thumb/MeP/MSP430/SH4, 1 for x86).
"""
import ast
import hashlib
import os
import re

from vlib.runner import REPO


class Arch(object):
    def __init__(self, name, family, mode, unit, little, slot, primary=True, lifter=True, llvm=None):
        self.name = name          # Machine() name
        self.family = family      # bucket "arch"
        self.mode = mode          # attrib passed to mn.dis / fromstring
        self.unit = unit          # code unit in bytes
        self.little = little      # memory order of a unit
        self.slot = slot          # bytes handed to the decoder for enumerated / random samples
        self.primary = primary    # False: second endianness of the same tables (lighter quick tier)
        self.lifter = lifter
        self.llvm = llvm          # (triple, mattr, objdump extra args) for the reference disassembler

    @property
    def modestr(self):
        return "-" if self.mode is None else str(self.mode)

    def __repr__(self):
        return "<Arch %s>" % self.name


_X86_ATTR = None
_ARM_ATTR = "+v8.2a,+vfp4,+neon,+crc,+crypto,+dsp,+mp,+virtualization,+trustzone,+hwdiv,+hwdiv-arm,+fp16"
_A64_ATTR = "+v8.5a,+fp-armv8,+neon,+crc,+crypto,+lse,+fullfp16,+sve"
_MIPS_ATTR = "+mips32r6"
_ARCH_LIST = [
    Arch("x86_32", "x86", 32, 1, True, 16, llvm=("i386", None)),
    Arch("x86_64", "x86", 64, 1, True, 16, llvm=("x86_64", None)),
    Arch("x86_16", "x86", 16, 1, True, 16, llvm=("i386-unknown-unknown-code16", None)),
    Arch("arml", "arm", "l", 4, True, 4, llvm=("armv8a", _ARM_ATTR)),
    Arch("armb", "arm", "b", 4, False, 4, primary=False, llvm=("armebv8a", _ARM_ATTR)),
    Arch("armtl", "armt", "l", 2, True, 4, llvm=("thumbv8a", _ARM_ATTR)),
    Arch("armtb", "armt", "b", 2, False, 4, primary=False, llvm=("thumbebv8a", _ARM_ATTR)),
    Arch("aarch64l", "aarch64", "l", 4, True, 4, llvm=("aarch64", _A64_ATTR)),
    Arch("aarch64b", "aarch64", "b", 4, False, 4, primary=False, llvm=("aarch64_be", _A64_ATTR)),
    Arch("mips32l", "mips32", "l", 4, True, 4, primary=False, llvm=("mipsel", None)),
    Arch("mips32b", "mips32", "b", 4, False, 4, llvm=("mips", None)),
    Arch("ppc32b", "ppc32", "b", 4, False, 4, llvm=("powerpc", None)),
    Arch("msp430", "msp430", None, 2, True, 6),
    Arch("mepb", "mep", "b", 2, False, 4),
    Arch("mepl", "mep", "l", 2, True, 4, primary=False),
    Arch("sh4", "sh4", None, 2, True, 2, lifter=False),
]
ARCHS = dict((a.name, a) for a in _ARCH_LIST)
ARCH_NAMES = [a.name for a in _ARCH_LIST]

_mn_cache = {}


def mn_of(arch):
    """The miasm mnemonic class of an Arch (lazy import)."""
    if isinstance(arch, str):
        arch = ARCHS[arch]
    if arch.name not in _mn_cache:
        import logging
        import warnings
        warnings.filterwarnings("ignore")
        if arch.name == "sh4":
            # Machine("sh4") cannot be constructed (no lifter is bound); the arch scripts import the class directly
            from miasm.arch.sh4.arch import mn_sh4 as mn
        else:
            from miasm.analysis.machine import Machine
            mn = Machine(arch.name).mn
        for lname in ("cpuhelper", "x86_arch", "armt", "arm", "aarch64dis", "mips32dis", "ppc", "msp430dis",
                      "sh4dis", "mepdis"):
            logging.getLogger(lname).setLevel(logging.CRITICAL)
        _mn_cache[arch.name] = mn
    return _mn_cache[arch.name]


def quiet_miasm_logs():
    import logging
    for lname, lg in list(logging.Logger.manager.loggerDict.items()):
        if isinstance(lg, logging.Logger) and lg.handlers and lname not in ("root",):
            lg.setLevel(logging.CRITICAL)


def to_mem(arch, logical):
    """logical (big-endian units) -> memory image for the mode."""
    if arch.unit == 1 or not arch.little:
        return bytes(logical)
    u = arch.unit
    n = len(logical) - len(logical) % u
    out = bytearray()
    for i in range(0, n, u):
        out += logical[i:i + u][::-1]
    out += logical[n:]
    return bytes(out)


to_logical = to_mem     # the swap is an involution


def _h(*parts):
    return int.from_bytes(hashlib.blake2b(repr(parts).encode(), digest_size=8).digest(), "big")


# ----------------------------------------------------------------------------------------------
# curated vectors

_HEX = re.compile(r"^[0-9a-fA-F ]+$")


def _ishex(node):
    if isinstance(node, ast.Constant) and isinstance(node.value, str):
        s = node.value.replace(" ", "")
        return bool(s) and len(s) % 2 == 0 and bool(_HEX.match(s))
    return False


def _lists_of_pairs(path):
    """-> {list name: [(first element source or None, text, hex)]} for top-level `name = [ (.., "text", "hex"), .. ]`"""
    with open(path, "rb") as f:
        tree = ast.parse(f.read(), path)
    out = {}
    for node in tree.body:
        if not (isinstance(node, ast.Assign) and len(node.targets) == 1 and isinstance(node.targets[0], ast.Name)
                and isinstance(node.value, ast.List)):
            continue
        rows = []
        for elt in node.value.elts:
            if not (isinstance(elt, ast.Tuple) and len(elt.elts) >= 2):
                continue
            hx, txt = elt.elts[-1], elt.elts[-2]
            if not (_ishex(hx) and isinstance(txt, ast.Constant) and isinstance(txt.value, str)):
                continue
            first = None
            if len(elt.elts) >= 3:
                f0 = elt.elts[0]
                first = f0.id if isinstance(f0, ast.Name) else (f0.value if isinstance(f0, ast.Constant) else None)
            rows.append((first, txt.value, bytes.fromhex(hx.value.replace(" ", ""))))
        if rows:
            out[node.targets[0].id] = rows
    return out


def _mep_calls(dirpath):
    rows = []
    for name in sorted(os.listdir(dirpath)):
        if not (name.startswith("test_major_opcode_") and name.endswith(".py")):
            continue
        with open(os.path.join(dirpath, name), "rb") as f:
            tree = ast.parse(f.read(), name)
        for node in ast.walk(tree):
            if (isinstance(node, ast.Call) and isinstance(node.func, ast.Name) and node.func.id == "check_instruction"
                    and len(node.args) >= 2 and _ishex(node.args[1])
                    and isinstance(node.args[0], ast.Constant)):
                rows.append((None, node.args[0].value, bytes.fromhex(node.args[1].value.replace(" ", ""))))
    return rows


_curated_cache = {}

# family -> (script, list name, unit, byte order the script stores the vectors in: True = little)
_CURATED_SRC = {
    "x86": ("test/arch/x86/arch.py", "reg_tests", 1, True),
    "arm": ("test/arch/arm/arch.py", "reg_tests_arm", 4, True),
    "armt": ("test/arch/arm/arch.py", "reg_tests_armt", 2, True),
    "aarch64": ("test/arch/aarch64/arch.py", "reg_tests_aarch64", 4, True),
    "mips32": ("test/arch/mips32/arch.py", "reg_tests_mips32", 4, False),
    "ppc32": ("test/arch/ppc32/arch.py", "reg_tests", 4, False),
    "msp430": ("test/arch/msp430/arch.py", "reg_tests_msp", 2, True),
    "sh4": ("test/arch/sh4/arch.py", "reg_tests_sh4", 2, True),
}


def curated_rows(arch):
    """[(text of the script, memory bytes for this mode)] in script order, duplicates removed."""
    if isinstance(arch, str):
        arch = ARCHS[arch]
    if arch.name in _curated_cache:
        return _curated_cache[arch.name]
    if arch.family == "mep":
        rows = _mep_calls(os.path.join(REPO, "test/arch/mep/asm"))
        unit, src_little = 2, False
    else:
        script, lname, unit, src_little = _CURATED_SRC[arch.family]
        rows = _lists_of_pairs(os.path.join(REPO, script)).get(lname, [])
    out = []
    seen = set()
    for _first, text, raw in rows:
        if unit > 1 and src_little:
            tmp = Arch("", "", None, unit, True, 0)
            logical = to_mem(tmp, raw)
        else:
            logical = raw
        mem = to_mem(arch, logical)
        if mem in seen:
            continue
        seen.add(mem)
        out.append((text, mem))
    _curated_cache[arch.name] = out
    return out


def _extra_vectors(arch):
    """Immediate-boundary vectors for the variable-length 16-bit ISA whose enumeration stratum takes its
    extension words from the fixed fillers only: msp430 format-I / push instructions with an immediate source
    (As=3, src=PC) for the immediates around the byte / constant-generator boundaries."""
    if isinstance(arch, str):
        arch = ARCHS[arch]
    if arch.family != "msp430":
        return []
    out = []
    imms = [0x00FF, 0x00FE, 0x0100, 0xFF00, 0xFFFE, 0x7FFF, 0x8000, 0x0003, 0x0010, 0x0080]
    for op in (0x4, 0x5, 0x6, 0x7, 0x8, 0x9, 0xB, 0xD, 0xE, 0xF):           # mov add addc subc sub cmp bit bis xor and
        for bw in (0, 1):
            for imm in imms:
                word = (op << 12) | (0 << 8) | (bw << 6) | (3 << 4) | 5     # #imm, R5
                out.append(word.to_bytes(2, "little") + imm.to_bytes(2, "little") + b"\x00" * 4)
    for imm in imms:
        out.append((0x1230).to_bytes(2, "little") + imm.to_bytes(2, "little") + b"\x00" * 4)   # push #imm
    return out


def curated(arch):
    return [b for _t, b in curated_rows(arch)] + _extra_vectors(arch)


# ----------------------------------------------------------------------------------------------
# enumeration strata

_FILL = [bytes.fromhex("1122334455667788990a0b0c0d0e"),
         bytes.fromhex("ffffffffffffffffffffffffffff"),
         bytes.fromhex("80000000800000008000000080ff"),
         bytes.fromhex("7fffffff7fffffff7fffffff7f00"),
         bytes.fromhex("0000000000000000000000000000"),
         bytes.fromhex("f0debc9a78563412f1e2d3c4b5a6")]

# ModRM tails (ModRM [+ SIB]); displacement / immediate bytes come from the filler
_MODRM_REG = [bytes([0xC1 | (r << 3)]) for r in range(8)]                # mod=3, rm=1, every /r
_MODRM_MEM = [bytes([0x03 | (r << 3)]) for r in range(8)]                # [rBX], every /r
_MODRM_MISC = [b"\x4d", b"\x9e", b"\x14\x24", b"\x14\x88", b"\x14\x0d", b"\x54\x6b", b"\x94\xf1",
               b"\x2d", b"\x36", b"\xe0"]
_MODRM_FULL = _MODRM_REG + _MODRM_MEM + _MODRM_MISC
_MODRM_MED = [b"\xc1", b"\xd3", b"\xfa", b"\x03", b"\x3b", b"\x4d", b"\x14\x88", b"\x2d"]
_MODRM_LIGHT = [b"\xca", b"\x0b", b"\x54\x6b"]
_MODRM_ALL256 = [bytes([m]) for m in range(256)]
# opcodes whose mod=3 space is an opcode extension table of its own (x87, system groups)
_X86_GROUP_ALL = [bytes([op]) for op in range(0xD8, 0xE0)] + [b"\x0f\x01", b"\x0f\xae", b"\x0f\xc7", b"\x0f\x00",
                                                               b"\x0f\x18", b"\x0f\x1e", b"\x0f\x0d"]


def _x86_opcodes():
    ops = [bytes([o]) for o in range(256) if o != 0x0F]
    ops += [bytes([0x0F, o]) for o in range(256) if o not in (0x38, 0x3A)]
    ops += [bytes([0x0F, 0x38, o]) for o in range(256)]
    ops += [bytes([0x0F, 0x3A, o]) for o in range(256)]
    return ops


def _x86_prefix_sets(mode, tier):
    """[(prefix bytes, modrm class list)]"""
    if tier != "thorough":
        two = [b"\xca", b"\x0b"]
        mem2 = [b"\x0b", b"\x54\x6b"]
        one = [b"\x0b"]
        sets = [(b"", _MODRM_FULL), (b"\x66", [b"\xc1", b"\xfa", b"\x03", b"\x4d"]), (b"\xf3", two), (b"\xf2", two),
                (b"\x67", mem2), (b"\xf0", one), (b"\x2e", one), (b"\x64", one), (b"\x66\xf3", one)]
        if mode == 64:
            sets += [(b"\x48", [b"\xc1", b"\xfa", b"\x03", b"\x4d"]), (b"\x44", two), (b"\x41", two),
                     (b"\x4f", [b"\xca", b"\x14\x88"]), (b"\x42", [b"\x14\x88"]), (b"\x40", [b"\xca"]),
                     (b"\x66\x48", one), (b"\xf3\x48", [b"\xca"])]
        return sets
    full = _MODRM_ALL256 + _MODRM_MISC
    med = _MODRM_FULL
    light = _MODRM_MED
    one = _MODRM_LIGHT
    sets = [(b"", full), (b"\x66", med), (b"\xf3", light), (b"\xf2", light), (b"\x67", med),
            (b"\xf0", one), (b"\x2e", one), (b"\x64", one), (b"\x66\xf2", one), (b"\x66\xf3", one),
            (b"\x66\x67", one), (b"\x36\x66", one),
            (b"\x26", one), (b"\x36", one), (b"\x3e", one), (b"\x65", one), (b"\xf2\xf3", one),
            (b"\xf0\x66", one), (b"\x67\xf3", one), (b"\x2e\x2e", one)]
    if mode == 64:
        sets += [(b"\x48", med), (b"\x44", light), (b"\x41", light), (b"\x42", one), (b"\x4f", light),
                 (b"\x40", one), (b"\x66\x48", one), (b"\xf3\x48", one), (b"\xf2\x48", one), (b"\x66\x41", one),
                 (b"\x67\x48", one), (b"\x65\x48", one), (b"\xf0\x48", one),
                 (b"\x48\x48", one), (b"\x4c", light), (b"\x49", light), (b"\x4a", light), (b"\x45", one),
                 (b"\x66\x4f", one)]
    return sets


def _enum_x86(arch, tier):
    thorough = tier == "thorough"
    ops = _x86_opcodes()
    nfill = len(_FILL)
    for pfx, classes in _x86_prefix_sets(arch.mode, tier):
        for op in ops:
            cl = classes
            if not pfx and not thorough and op in _X86_GROUP_ALL:
                cl = _MODRM_ALL256 + _MODRM_MISC
            for tail in cl:
                head = pfx + op + tail
                if thorough and not pfx:
                    fills = (_h("f", head) % nfill, (_h("f", head) + 1 + _h("g", head) % (nfill - 1)) % nfill)
                else:
                    fills = (_h("f", head) % nfill,)
                for fi in fills:
                    yield (head + _FILL[fi])[:arch.slot]


def _patterns(width, key, nrand, singles):
    mask = (1 << width) - 1
    out = [0, mask]
    if singles:
        out += [1 << i for i in range(width)]
    out += [_h("pat", key, j) & mask for j in range(nrand)]
    return out


def _words32(arch, tier):
    """logical 32-bit words for the 32-bit fixed-width ISAs"""
    thorough = tier == "thorough"
    fam = arch.family
    if fam == "arm":
        mmask = 0x0FF000F0
        plan = [(0xE, (4, False) if not thorough else (16, True)),
                (0xF, (1, False) if not thorough else (8, True)),
                (0x0, (1, False) if not thorough else (4, False))]
        if thorough:
            plan.append((0x1, (2, False)))
        for cond, (nrand, singles) in plan:
            for m in range(4096):
                major = ((m >> 4) << 20) | ((m & 0xF) << 4)
                pats = _patterns(32, ("arm", cond, m), nrand, singles)
                if cond != 0xE and not thorough:
                    pats = pats[2:] + pats[:1]
                for p in pats:
                    yield (cond << 28) | major | (p & ~mmask & 0x0FFFFFFF)
    elif fam == "aarch64":
        mmask = 0xFFE00000
        nrand = 40 if thorough else 8
        for m in range(2048):
            for p in _patterns(21, ("a64", m), nrand, True):
                yield (m << 21) | p
        # bits 15..10 select the sub-opcode of many data-processing / SIMD groups
        for m in range(2048):
            for sub in range(64):
                if not thorough and (sub - m) % 4:
                    continue
                for p in _patterns(32, ("a64s", m, sub), 2 if thorough else 0, False)[1:]:
                    yield (m << 21) | (sub << 10) | (p & 0x001F03FF & _h("a64m", m, sub))
    elif fam == "mips32":
        nrand = 12 if thorough else 4
        for op in range(64):
            for fn in range(64):
                for p in _patterns(32, ("mips", op, fn), nrand, thorough):
                    yield (op << 26) | fn | (p & 0x03FFFFC0)
        for op in (0x01, 0x10, 0x11, 0x12, 0x13, 0x1C, 0x1F):
            for rs in range(32):
                for fn in range(64):
                    rts = range(32) if thorough else (0, 1, 8, 17, _h("mrt", op, rs, fn) % 32)
                    for rt in rts:
                        p = _h("mipsr", op, rs, fn, rt)
                        yield (op << 26) | (rs << 21) | (rt << 16) | fn | (p & 0x0000FFC0)
    elif fam == "ppc32":
        nrand = 8 if thorough else 2
        for op in range(64):
            if op in (4, 19, 30, 31, 59, 63):
                for xo in range(2048):
                    for p in _patterns(32, ("ppcx", op, xo), nrand, False):
                        yield (op << 26) | xo | (p & 0x03FFF800)
            else:
                for p in _patterns(26, ("ppc", op), 64 if thorough else 16, True):
                    yield (op << 26) | p
        if thorough:
            for op in (19, 31):
                for xo in range(2048):
                    for p in _patterns(15, ("ppcs", op, xo), 0, True):
                        yield (op << 26) | xo | (p << 11)
    else:
        raise ValueError(fam)


def _enum_fixed(arch, tier):
    thorough = tier == "thorough"
    fam = arch.family
    if fam in ("arm", "aarch64", "mips32", "ppc32"):
        for w in _words32(arch, tier):
            yield to_mem(arch, (w & 0xFFFFFFFF).to_bytes(4, "big"))
        return
    if fam == "armt":
        tails1 = [0x0000] if not thorough else [0x0000, 0xFFFF]
        for h1 in range(0xE800):
            for t in tails1:
                yield to_mem(arch, h1.to_bytes(2, "big") + t.to_bytes(2, "big"))
        for h1 in range(0xE800, 0x10000):
            pats = _patterns(16, ("t2", h1), 12 if thorough else 3, thorough) + [0x8000, 0xF000, 0x0F00]
            for p in pats:
                yield to_mem(arch, h1.to_bytes(2, "big") + p.to_bytes(2, "big"))
        return
    if fam in ("msp430", "mep", "sh4"):
        ntail = (arch.slot - 2) // 2
        tails = [b"\x00\x00" * ntail, b"\xff\xff" * ntail, b"\x12\x34\x56\x78"[:2 * ntail],
                 b"\x80\x00\x7f\xfe"[:2 * ntail], b"\xfe\xdc\x80\x02"[:2 * ntail]]
        for h1 in range(0x10000):
            if ntail == 0:
                yield to_mem(arch, h1.to_bytes(2, "big"))
                continue
            if thorough:
                tl = tails
            else:
                tl = [tails[_h("tail", fam, h1) % len(tails)]]
            for t in tl:
                yield to_mem(arch, h1.to_bytes(2, "big") + t)
        return
    raise ValueError(fam)


def enumeration(arch, tier):
    if isinstance(arch, str):
        arch = ARCHS[arch]
    if arch.family == "x86":
        return _enum_x86(arch, tier)
    return _enum_fixed(arch, tier)


def deterministic(arch, tier, part=0, nparts=1, stride=1, block=1):
    """Yield (stratum, index, bytes) of the seed-independent strata that belong to slice `part` of `nparts`.
    `stride` > 1 keeps every stride-th enumerated sample only (curated vectors are always kept).
    Slices are dealt round-robin in runs of `block` consecutive samples (block ~ 32 keeps the samples of one
    opcode in one slice); block=0 gives each slice one contiguous range of the enumeration."""
    if isinstance(arch, str):
        arch = ARCHS[arch]
    if block == 0:
        total = sum(1 for _ in enumeration(arch, tier))
        kept = (total + stride - 1) // stride
        block = max(1, (kept + nparts - 1) // nparts)
        cblock = max(1, (len(curated(arch)) + nparts - 1) // nparts)
    else:
        cblock = block
    i = 0
    nscript = len(curated_rows(arch))
    for b in curated(arch):
        if (i // cblock) % nparts == part:
            # the extra immediate-boundary vectors come after the script's own ones
            yield ("curated" if i < nscript else "boundary"), i, b
        i += 1
    j = 0
    for b in enumeration(arch, tier):
        if j % stride == 0:
            if (j // stride // block) % nparts == part:
                yield "enum", j, b
        j += 1


def random_strategy(arch):
    """Hypothesis strategy: byte strings of the slot size (memory image)."""
    from hypothesis import strategies as st
    if isinstance(arch, str):
        arch = ARCHS[arch]
    if arch.family == "x86":
        pfx = st.lists(st.sampled_from([0x66, 0x67, 0xF2, 0xF3, 0xF0, 0x2E, 0x36, 0x3E, 0x26, 0x64, 0x65] +
                                       ([0x48, 0x41, 0x44, 0x4C, 0x4F] if arch.mode == 64 else [])),
                       max_size=3).map(bytes)
        body = st.binary(min_size=arch.slot, max_size=arch.slot)
        return st.one_of(body, st.tuples(pfx, body).map(lambda t: (t[0] + t[1])[:arch.slot]))
    return st.binary(min_size=arch.slot, max_size=arch.slot)


# ----------------------------------------------------------------------------------------------
# decoding helper (the usage of test/arch/*/arch.py: mn.dis(bytes, mode), offset 0, no symbol conversion)

def decode(arch, data):
    """-> ("ok", instr) | ("undecodable", None) | ("decoder-exception", exc)"""
    from miasm.core.cpu import Disasm_Exception
    mn = mn_of(arch)
    try:
        return "ok", mn.dis(data, arch.mode)
    except Disasm_Exception:
        return "undecodable", None
    except Exception as ex:     # the decoder gave no instruction: outside "decoded instruction" properties
        return "decoder-exception", ex


def mnemonic_key(name):
    """mnemonic as used in bucket keys (no spaces / colons)"""
    return re.sub(r"[\s:]+", "_", str(name))


def bucket(arch, mnemonic, kind):
    return "%s:%s:%s:%s" % (arch.family, arch.modestr, mnemonic_key(mnemonic), kind)


# ----------------------------------------------------------------------------------------------
# shard planning

def plan(weights, archs=None):
    """weights: {arch name: number of parts}. -> list of (arch name, part, nparts), heavy first."""
    jobs = []
    for name in (archs or ARCH_NAMES):
        n = max(1, int(weights.get(name, 1)))
        for p in range(n):
            jobs.append((name, p, n))
    return jobs
