"""Protective per-call time limit (SIGALRM).  A limit hit is never a verdict by itself:
callers count it as inconclusive, except where the property is termination (C02) and the
limit is >= 10^4 times the normal cost of the call."""
import signal


class TimeLimit(BaseException):
    pass


def _handler(signum, frame):
    raise TimeLimit()


def call_with_limit(seconds, fn, *args, **kwargs):
    old = signal.signal(signal.SIGALRM, _handler)
    # repeating: an exception raised inside a gc/weakref callback is swallowed by the interpreter
    signal.setitimer(signal.ITIMER_REAL, seconds, 0.25)
    try:
        return fn(*args, **kwargs)
    finally:
        signal.setitimer(signal.ITIMER_REAL, 0)
        signal.signal(signal.SIGALRM, old)
