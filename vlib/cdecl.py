"""cdecl — random C type declarations, their layout according to the host gcc, and an independent
evaluator of C member-access expressions over that layout.  Nothing here imports miasm.

Type AST (JSON lists):
  ["base", "unsigned int"]                       arithmetic type, spelled as written
  ["void"]
  ["ptr", T]
  ["arr", T, dimtext, n]                          dimtext: C constant expression whose value is n
  ["agg", "struct"|"union", tag|None, [[fname|None, T], ...]]    inline definition
  ["ref", "struct"|"union", tag]                  use of a tag defined elsewhere in the unit (below a pointer: possibly
                                                  by a later declaration)
  ["td", name]                                    use of a typedef name
  ["enum", tag, [enumerators]]                    inline definition; ["eref", tag] later use
  ["func", Tret, [Targs]]                         function type (only below a pointer)
Unit: {"items": [["def", T_agg] | ["typedef", name, T] | ["enumdef", T_enum]]}
Roots of a unit: every tagged aggregate defined at the top level and every typedef name.

Layout oracle: gcc -S on a translation unit holding `const unsigned long v[] = {sizeof(..)+1, _Alignof(..)+1,
offsetof(..)+1, ...}`; the values are read back from the `.quad` directives (no program is run).  Every aggregate
is re-rooted with __typeof__, so each field offset is relative to its own containing aggregate.
"""
import os
import re
import subprocess

# spelled type -> (size class name expected in the ObjC leaf, is_unsigned)
BASES = {
    "char": "char", "signed char": "char", "unsigned char": "uchar",
    "short": "short", "short int": "short", "signed short": "short", "signed short int": "short",
    "unsigned short": "ushort", "unsigned short int": "ushort",
    "int": "int", "signed int": "int", "unsigned": "uint", "unsigned int": "uint",
    "long": "long", "long int": "long", "signed long": "long", "signed long int": "long",
    "unsigned long": "ulong", "unsigned long int": "ulong",
    "long long": "long", "long long int": "long", "signed long long": "long", "signed long long int": "long",
    "unsigned long long": "ulong", "unsigned long long int": "ulong",
    "float": "float", "double": "double", "long double": "ldouble",
}
BASE_LIST = sorted(BASES)
# weights: the common spellings more often
COMMON = ["char", "short", "int", "long", "long long", "unsigned char", "unsigned short", "unsigned int",
          "unsigned long", "float", "double", "long double", "unsigned long long"]

FIELD_NAMES = ["a", "b", "c", "d", "x", "y", "z", "next", "len", "buf", "tab", "val", "key", "f0", "f1", "f2",
               "data", "hdr", "u", "s", "p", "q", "m", "n", "w"]


def canon_base(spelled):
    return " ".join(sorted(spelled.split()))


_CANON = {canon_base(k): v for k, v in BASES.items()}


def base_class(spelled):
    return _CANON[canon_base(spelled)]


# ----------------------------------------------------------------------------------------------
# generator


class Gen(object):
    def __init__(self, rnd, uid, max_depth=3, features=()):
        self.r = rnd
        self.uid = uid
        self.max_depth = max_depth
        self.ntag = 0
        self.tags = []        # [(kind, tag)] top-level tags complete so far
        self.nested_tags = []  # [(kind, tag)] tags defined inside another aggregate (complete)
        self.typedefs = []    # [(name, T)]
        self.enums = []
        self.features = set(features)

    def new_tag(self, pfx="S"):
        self.ntag += 1
        return "%s%s_%d" % (pfx, self.uid, self.ntag)

    def shuffle_spelling(self, spelled):
        w = spelled.split()
        if len(w) > 1 and self.r.random() < 0.3:
            self.r.shuffle(w)
        return " ".join(w)

    def base(self):
        r = self.r
        if r.random() < 0.7:
            return ["base", self.shuffle_spelling(r.choice(COMMON))]
        return ["base", self.shuffle_spelling(r.choice(BASE_LIST))]

    def dim(self, small=True):
        r = self.r
        k = r.random()
        if k < 0.6:
            n = r.randint(1, 5)
            return str(n), n
        if k < 0.7:
            n = r.choice([7, 8, 13, 16, 20, 32, 50])
            return str(n), n
        if k < 0.8:
            n = r.randint(1, 0x20)
            return "0x%x" % n, n
        if k < 0.86:
            a, b = r.randint(1, 4), r.randint(1, 4)
            return "%d*%d" % (a, b), a * b
        if k < 0.9:
            a, b = r.randint(1, 4), r.randint(1, 4)
            return "%d+%d*2" % (a, b), a + b * 2
        if k < 0.93:
            a = r.randint(0, 4)
            return "1<<%d" % a, 1 << a
        if k < 0.96:
            t = r.choice(["int", "short", "char", "long"])
            a = r.randint(1, 3)
            return "%d*sizeof(%s)" % (a, t), a * {"int": 4, "short": 2, "char": 1, "long": 8}[t]
        if k < 0.98:
            a, b = r.randint(1, 4), r.randint(1, 4)
            return "%d/%d" % (a * b, b), a
        if k < 0.986 and "octal" in self.features:
            n = r.randint(1, 20)
            return "0%o" % n, n
        n = r.randint(1, 9)
        return "(%d)" % n, n

    def ptr_target(self, depth, selftag):
        r = self.r
        k = r.random()
        if k < 0.25:
            return self.base()
        if k < 0.32:
            return ["void"]
        if k < 0.55:
            cands = list(self.tags)
            if selftag is not None:
                cands.append(selftag)
                cands.append(selftag)
            if cands:
                kind, tag = r.choice(cands)
                return ["ref", kind, tag]
            return self.base()
        if k < 0.65:
            return ["ptr", self.ptr_target(depth, selftag)]
        if k < 0.75 and self.typedefs:
            return ["td", r.choice(self.typedefs)[0]]
        if k < 0.87:
            # pointer to array
            el = self.base() if r.random() < 0.5 or not self.tags else ["ref"] + list(r.choice(self.tags))
            t, n = self.dim()
            return ["arr", el, t, n]
        if k < 0.95:
            nargs = r.randint(0, 3)
            args = [self.base() if r.random() < 0.7 else ["ptr", self.base()] for _ in range(nargs)]
            ret = self.base() if r.random() < 0.7 else (["void"] if r.random() < 0.5 else ["ptr", ["void"]])
            return ["func", ret, args]
        return self.base()

    def type(self, depth, selftag, allow_agg=True):
        r = self.r
        k = r.random()
        if k < 0.38:
            return self.base()
        if k < 0.52:
            return ["ptr", self.ptr_target(depth, selftag)]
        if k < 0.68:
            el = self.type(depth, selftag, allow_agg)
            t, n = self.dim()
            return ["arr", el, t, n]
        if k < 0.82 and allow_agg and depth < self.max_depth:
            return self.agg(depth + 1, top=False)
        if k < 0.90 and self.tags:
            kind, tag = r.choice(self.tags)
            return ["ref", kind, tag]
        if k < 0.91 and self.nested_tags and "nested-tag-ref" in self.features:
            kind, tag = r.choice(self.nested_tags)
            return ["ref", kind, tag]
        if k < 0.97 and self.typedefs:
            return ["td", r.choice(self.typedefs)[0]]
        if k < 0.99:
            if self.enums and r.random() < 0.5:
                return ["eref", r.choice(self.enums)]
            tag = self.new_tag("E")
            self.enums.append(tag)
            return ["enum", tag, ["%s_A" % tag, "%s_B" % tag, "%s_C" % tag][:r.randint(1, 3)]]
        return self.base()

    def agg(self, depth, top, kind=None):
        r = self.r
        if kind is None:
            kind = "struct" if r.random() < 0.65 else "union"
        if top or r.random() < 0.5:
            tag = self.new_tag("S" if kind == "struct" else "U")
        else:
            tag = None
        nf = r.randint(1, 5) if r.random() < 0.9 else r.randint(6, 9)
        names = r.sample(FIELD_NAMES, nf)
        fields = []
        selftag = (kind, tag) if tag is not None else None
        for nm in names:
            if depth < self.max_depth and r.random() < 0.04 and "anon-member" in self.features:
                # anonymous member holding scalar fields only
                k2 = "struct" if r.random() < 0.5 else "union"
                inner = [["%s_%s" % (nm, i), self.base()] for i in range(r.randint(1, 3))]
                fields.append([None, ["agg", k2, None, inner]])
                continue
            ft = self.type(depth, selftag)
            fields.append([nm, ft])
        if tag is not None and not top:
            self.nested_tags.append((kind, tag))
        return ["agg", kind, tag, fields]

    def unit(self):
        r = self.r
        items = []
        n = r.choice([1, 1, 2, 2, 3, 4])
        for i in range(n):
            k = r.random()
            last = (i == n - 1)
            if last or k < 0.65:
                a = self.agg(1, top=True)
                items.append(["def", a])
                self.tags.append((a[1], a[2]))
            elif k < 0.95:
                name = "T%s_%d_t" % (self.uid, len(self.typedefs))
                kk = r.random()
                if kk < 0.4:
                    t = self.agg(1, top=False)
                    if t[2] is not None:
                        self.nested_tags.pop()   # it is a top-level tag in fact
                        self.tags.append((t[1], t[2]))
                elif kk < 0.7:
                    el = self.type(1, None, allow_agg=False)
                    dt, dn = self.dim()
                    t = ["arr", el, dt, dn]
                else:
                    t = self.type(1, None, allow_agg=False)
                items.append(["typedef", name, t])
                self.typedefs.append((name, t))
            else:
                tag = self.new_tag("E")
                self.enums.append(tag)
                items.append(["enumdef", ["enum", tag, ["%s_A" % tag, "%s_B" % tag]]])
        if "forward-ref" in self.features and n > 1:
            self.forward_refs(items)
        return {"items": items}

    def forward_refs(self, items):
        """post-pass: some pointers of a declaration now point to a struct/union tag that is only defined by a
        later declaration of the unit (incomplete at that point: valid C as long as it is only pointed to), and some
        aggregates get one more member that is such a pointer."""
        r = self.r
        nested_ok = "nested-tag-ref" in self.features
        per_item = []
        for it in items:
            roots, tags = item_defs(it)
            top = [k for k in roots if k[0] != "td"]
            per_item.append([t for t in tags if nested_ok or t in top])
        for i in range(len(items) - 1):
            cands = [t for j in range(i + 1, len(items)) for t in per_item[j]]
            T = item_type(items[i])
            if not cands or T is None:
                continue
            ptrs = []
            walk_type(T, lambda X: ptrs.append(X) if X[0] == "ptr" else None)
            for p in ptrs:
                if r.random() < 0.35:
                    p[1] = ["ref"] + list(r.choice(cands))
            if T[0] == "agg" and r.random() < 0.3:
                tgt = ["ref"] + list(r.choice(cands))
                if r.random() < 0.2:
                    tgt = ["ptr", tgt]
                T[3].insert(r.randint(0, len(T[3])), ["fw", ["ptr", tgt]])


# ----------------------------------------------------------------------------------------------
# rendering


def render_decl(T, inner, packed, pfx):
    """C declarator text for an object/typedef `inner` of type T"""
    k = T[0]
    if k == "base":
        return ("%s %s" % (T[1], inner)).rstrip()
    if k == "void":
        return ("void %s" % inner).rstrip()
    if k == "td":
        return ("%s%s %s" % (pfx, T[1], inner)).rstrip()
    if k == "ref":
        return ("%s %s%s %s" % (T[1], pfx, T[2], inner)).rstrip()
    if k == "eref":
        return ("enum %s%s %s" % (pfx, T[1], inner)).rstrip()
    if k == "enum":
        return ("enum %s%s {%s} %s" % (pfx, T[1], ", ".join(pfx + e for e in T[2]), inner)).rstrip()
    if k == "ptr":
        if T[1][0] in ("arr", "func"):
            return render_decl(T[1], "(*%s)" % inner, packed, pfx)
        return render_decl(T[1], "*%s" % inner, packed, pfx)
    if k == "arr":
        return render_decl(T[1], "%s[%s]" % (inner, T[2]), packed, pfx)
    if k == "func":
        args = ", ".join(render_decl(a, "", packed, pfx) for a in T[2]) or "void"
        return render_decl(T[1], "%s(%s)" % (inner, args), packed, pfx)
    if k == "agg":
        attr = " __attribute__((packed))" if packed else ""
        body = " ".join(render_decl(ft, fn or "", packed, pfx) + ";" for fn, ft in T[3])
        tag = (" " + pfx + T[2]) if T[2] else ""
        return ("%s%s%s { %s } %s" % (T[1], attr, tag, body, inner)).rstrip()
    raise ValueError(T)


def render_unit(unit, packed=False, pfx=""):
    out = []
    for it in unit["items"]:
        if it[0] == "def":
            out.append(render_decl(it[1], "", packed, pfx) + ";")
        elif it[0] == "typedef":
            out.append("typedef " + render_decl(it[2], pfx + it[1], packed, pfx) + ";")
        elif it[0] == "enumdef":
            out.append(render_decl(it[1], "", packed, pfx) + ";")
    return "\n".join(out) + "\n"


# ----------------------------------------------------------------------------------------------
# environment / resolution


def item_type(it):
    """the type a top-level item declares (None: enum definition)"""
    return it[1] if it[0] == "def" else it[2] if it[0] == "typedef" else None


def walk_type(T, fn):
    """pre-order visit of the type nodes below T (function types are not entered)"""
    fn(T)
    if T[0] == "agg":
        for _, ft in T[3]:
            walk_type(ft, fn)
    elif T[0] in ("ptr", "arr"):
        walk_type(T[1], fn)


def item_defs(it):
    """-> (roots the item completes, in Env.roots order; every (kind, tag) it defines, nested ones included)"""
    roots, tags = [], []
    T = item_type(it)
    if T is None:
        return roots, tags
    walk_type(T, lambda X: tags.append((X[1], X[2])) if X[0] == "agg" and X[2] is not None else None)
    if it[0] == "def":
        roots.append((T[1], T[2]))
    else:
        if T[0] == "agg" and T[2] is not None:
            roots.append((T[1], T[2]))
        roots.append(("td", it[1]))
    return roots, tags


def item_uses(it):
    """-> (typedef names used, (kind, tag) referred to by name) in the item"""
    tds, refs = set(), set()
    T = item_type(it)
    if T is not None:
        def see(X):
            if X[0] == "td":
                tds.add(X[1])
            elif X[0] == "ref":
                refs.add((X[1], X[2]))
        walk_type(T, see)
    return tds, refs


def history_plan(unit, rnd=None):
    """A history over one declaration table: the unit is added in consecutive chunks of declarations and layouts are
    asked for in between.  -> list of ops  ["add", lo, hi] (items lo..hi-1 as one text), ["query", kind, name] (a root
    complete at that point), ["queryptr", kind, tag] (pointer to a tag that is used but not yet defined at that point).
    A chunk never ends between a typedef and a later use of its name (a typedef name is only a type name for the
    parser inside the text that declares it).  rnd None: the canonical history (every allowed cut, every query in
    declaration order); otherwise cuts, the queries asked and their order are drawn.  The queries after the last
    chunk (every root) are not part of the plan."""
    items = unit["items"]
    n = len(items)
    defs = [item_defs(it) for it in items]
    uses = [item_uses(it) for it in items]
    td_at = {it[1]: i for i, it in enumerate(items) if it[0] == "typedef"}
    all_tags = set(t for _, tags in defs for t in tags)
    cuts = []
    for b in range(1, n):
        if any(td_at.get(name, n) < b for j in range(b, n) for name in uses[j][0]):
            continue
        if rnd is None or rnd.random() < 0.85:
            cuts.append(b)
    ops = []
    lo = 0
    for hi in cuts + [n]:
        ops.append(["add", lo, hi])
        lo = hi
        if hi == n:
            break
        done = set(t for i in range(hi) for t in defs[i][1])
        qs = [["query", k, nm] for i in range(hi) for k, nm in defs[i][0]]
        pend = sorted(set(t for i in range(hi) for t in uses[i][1] if t not in done and t in all_tags))
        ps = [["queryptr", k, t] for k, t in pend]
        if rnd is not None:
            qs = [q for q in qs if rnd.random() < 0.7] + [q for q in ps if rnd.random() < 0.5]
            rnd.shuffle(qs)
        else:
            qs = qs + ps
        ops.extend(qs)
    return ops


def render_items(unit, lo, hi):
    return render_unit({"items": unit["items"][lo:hi]})


class Env(object):
    def __init__(self, unit):
        self.tags = {}
        self.typedefs = {}
        self.roots = []      # [("struct"/"union"/"td", name)]  compared with the type manager
        self.aux_roots = []  # tags defined inside another declaration: layout wanted by the access evaluator only
        for it in unit["items"]:
            if it[0] == "def":
                self.collect(it[1])
            elif it[0] == "typedef":
                self.typedefs[it[1]] = it[2]
                self.collect(it[2])
            self.roots.extend(item_defs(it)[0])
        self.finish()

    def collect(self, T):
        k = T[0]
        if k == "agg":
            if T[2] is not None:
                self.tags[(T[1], T[2])] = T
            for _, ft in T[3]:
                self.collect(ft)
        elif k in ("ptr", "arr"):
            self.collect(T[1])

    def finish(self):
        for key in self.tags:
            if key not in self.roots:
                self.aux_roots.append(key)

    def resolve(self, T):
        while True:
            if T[0] == "td":
                T = self.typedefs[T[1]]
            elif T[0] == "ref":
                T = self.tags[(T[1], T[2])]
            else:
                return T


def root_ctype(root, pfx=""):
    kind, name = root
    if kind == "td":
        return pfx + name
    return "%s %s%s" % (kind, pfx, name)


def root_type(root):
    kind, name = root
    if kind == "td":
        return ["td", name]
    return ["ref", kind, name]


# ----------------------------------------------------------------------------------------------
# layout queries


class Queries(object):
    def __init__(self):
        self.exprs = []

    def q(self, text):
        self.exprs.append(text)
        return len(self.exprs) - 1


def annotate(env, T, texpr, qs):
    """layout tree for type T named by the C type-name texpr; numbers are indices into qs.exprs"""
    R = env.resolve(T)
    node = {"T": R, "size": qs.q("sizeof(%s)" % texpr), "align": qs.q("_Alignof(%s)" % texpr)}
    if R[0] == "agg":
        fields = []
        for fn, ft in R[3]:
            if fn is None:
                inner = env.resolve(ft)
                first = inner[3][0][0]
                off = qs.q("__builtin_offsetof(%s, %s)" % (texpr, first))
                inn = []
                for iname, it in inner[3]:
                    inn.append([iname, qs.q("__builtin_offsetof(%s, %s)" % (texpr, iname)),
                                annotate(env, it, "__typeof__(((%s*)0)->%s)" % (texpr, iname), qs)])
                fields.append([None, off, {"T": inner, "anon": inn}])
                continue
            off = qs.q("__builtin_offsetof(%s, %s)" % (texpr, fn))
            sub = annotate(env, ft, "__typeof__(((%s*)0)->%s)" % (texpr, fn), qs)
            fields.append([fn, off, sub])
        node["fields"] = fields
    elif R[0] == "arr":
        node["n"] = R[3]
        node["elem"] = annotate(env, R[1], "__typeof__((*(%s*)0)[0])" % texpr, qs)
    return node


def subst(node, vals):
    node["size"] = vals[node["size"]]
    node["align"] = vals[node["align"]]
    if "fields" in node:
        for f in node["fields"]:
            f[1] = vals[f[1]]
            if f[0] is None:
                for g in f[2]["anon"]:
                    g[1] = vals[g[1]] - f[1]
                    subst(g[2], vals)
            else:
                subst(f[2], vals)
    if "elem" in node:
        subst(node["elem"], vals)


class GccError(Exception):
    pass


def gcc_values(source, scratch):
    """-> list of ints: the elements of `v` (each emitted +1)"""
    env = dict(os.environ)
    env["TMPDIR"] = scratch
    env["LC_ALL"] = "C"
    p = subprocess.run(["gcc", "-x", "c", "-std=gnu11", "-m64", "-w", "-O0", "-S", "-o", "-", "-"],
                       input=source.encode(), stdout=subprocess.PIPE, stderr=subprocess.PIPE, env=env, cwd=scratch)
    if p.returncode != 0:
        raise GccError(p.stderr.decode(errors="replace")[:3000])
    vals = []
    inside = False
    for line in p.stdout.decode().splitlines():
        s = line.strip()
        if s.startswith("verif_v:"):
            inside = True
            continue
        if inside:
            m = re.match(r"\.quad\s+(\d+)$", s)
            if m:
                vals.append(int(m.group(1)) - 1)
                continue
            if s.startswith(".") and not s.startswith(".quad"):
                break
            if s.endswith(":"):
                break
    return vals


def oracle(units, scratch):
    """units: list of unit dicts.  -> list (per unit) of {"np": {root: tree}, "p": {root: tree}, "bases": {...}}
    One gcc invocation for the whole list: every unit is emitted twice (plain, and with the packed attribute on
    every struct/union under the tag prefix P_)."""
    qs = Queries()
    text = ["#include <stddef.h>\n"]
    plans = []
    base_idx = {}
    for b in BASE_LIST + ["void *"]:
        base_idx[b] = (qs.q("sizeof(%s)" % b), qs.q("_Alignof(%s)" % b))
    for u in units:
        env = Env(u)
        plan = {}
        for mode, packed, pfx in (("np", False, ""), ("p", True, "P_")):
            text.append(render_unit(u, packed, pfx))
            trees = {}
            for root in env.roots + env.aux_roots:
                trees["%s %s" % root] = annotate(env, root_type(root), root_ctype(root, pfx), qs)
            plan[mode] = trees
        plans.append(plan)
    text.append("const unsigned long verif_v[] = {\n%s\n};\n" % ",\n".join("(%s)+1" % e for e in qs.exprs))
    src = "".join(text)
    vals = gcc_values(src, scratch)
    if len(vals) != len(qs.exprs):
        raise GccError("expected %d values, got %d" % (len(qs.exprs), len(vals)))
    bases = {b: (vals[i], vals[j]) for b, (i, j) in base_idx.items()}
    for plan in plans:
        for mode in ("np", "p"):
            for tree in plan[mode].values():
                subst(tree, vals)
        plan["bases"] = bases
    return plans


# ----------------------------------------------------------------------------------------------
# access evaluation (C semantics over the gcc layout)


class EvalError(Exception):
    pass


class Layout(object):
    """layout of one unit in one mode: root trees + sizes of leaf types"""

    def __init__(self, unit, trees, bases):
        self.env = Env(unit)
        self.trees = trees
        self.bases = bases

    def node_for(self, T):
        """layout node of a type reached through a pointer"""
        k = T[0]
        if k == "td":
            return self.trees["td %s" % T[1]]
        if k == "ref":
            key = "%s %s" % (T[1], T[2])
            if key in self.trees:
                return self.trees[key]
            raise EvalError("no layout for " + key)
        if k == "agg":
            if T[2] is not None and ("%s %s" % (T[1], T[2])) in self.trees:
                return self.trees["%s %s" % (T[1], T[2])]
            raise EvalError("anonymous pointee")
        if k == "base":
            s, a = self.bases[self.canon(T[1])]
            return {"T": T, "size": s, "align": a}
        if k in ("enum", "eref"):
            return {"T": T, "size": 4, "align": 4}
        if k == "ptr":
            s, a = self.bases["void *"]
            return {"T": T, "size": s, "align": a}
        if k == "arr":
            el = self.node_for(T[1])
            return {"T": T, "size": el["size"] * T[3], "align": el["align"], "n": T[3], "elem": el}
        if k == "void":
            return {"T": T, "size": 1, "align": 1}     # GNU C: arithmetic on void * counts bytes
        if k == "func":
            return {"T": T, "size": None, "align": None}
        raise EvalError("node_for %r" % (T,))

    _canon_cache = {}

    def canon(self, spelled):
        c = canon_base(spelled)
        for b in BASE_LIST:
            if canon_base(b) == c:
                return b
        raise EvalError("base " + spelled)


def kind_of(T):
    k = T[0]
    if k == "agg":
        return T[1]
    if k in ("base", "enum", "eref"):
        return "scalar"
    if k == "ptr":
        return "ptr"
    if k == "arr":
        return "array"
    return k


def is_nested_ref(lay, T):
    """T names (by tag) a struct/union that was defined inside another declaration"""
    return T[0] == "ref" and (T[1], T[2]) in lay.env.aux_roots


def operand_kind(lay, T):
    """descriptive kind of an operand type, one level deep"""
    R = lay.env.resolve(T)
    k = kind_of(R)
    if k in ("ptr", "array"):
        inner = R[1]
        ik = kind_of(lay.env.resolve(inner))
        if k == "ptr" and is_nested_ref(lay, inner):
            ik += ":nested-tag"
        return "%s(%s)" % (k, ik)
    return k


class Val(object):
    """lv: lvalue at loc with layout node; rv: pointer rvalue holding address loc, pointing to node"""

    def __init__(self, kind, loc, node, rel=0, arr=False):
        self.kind = kind
        self.loc = loc
        self.node = node
        self.rel = rel      # offset from the object reached by the last pointer hop
        self.arr = arr      # an array was indexed / decayed since the last pointer hop
        self.nested = False  # pointer rvalue loaded from a pointer declared with a tag defined inside another declaration
        self.arr_start = None   # rel of the innermost array member gone through since the last hop
        self.arr_lead = False   # ... and that array is the first thing (offset 0) in its struct/union
        self.anc = []           # [(rel, node)] aggregates/arrays gone through since the last hop (incl. the pointee)

    def carry(self, other, push=False):
        self.arr_start, self.arr_lead = other.arr_start, other.arr_lead
        self.anc = list(other.anc)
        if push and self.node["T"][0] in ("agg", "arr"):
            self.anc.append((self.rel, self.node))
        return self

    def enclosing_nodes(self):
        """objects on the access path that start at the very address designated"""
        return [n for r, n in self.anc if r == self.rel]

    def leading_array_element(self):
        """the access designates the first bytes of element 0 of an array member placed at offset 0 of its
        struct/union"""
        return self.arr and self.arr_lead and self.rel == self.arr_start


def add(loc, off):
    return (loc[0], loc[1] + off)


def to_rv(lay, v):
    if v.kind == "rv":
        return v
    R = v.node["T"]
    if R[0] == "ptr":
        out = Val("rv", (("load", v.loc), 0), lay.node_for(R[1]))
        out.nested = is_nested_ref(lay, R[1])
        out.anc = [(0, out.node)]
        return out
    if R[0] == "arr":
        return Val("rv", v.loc, v.node["elem"], v.rel, True).carry(v)
    raise EvalError("not a pointer/array: %r" % (R[0],))


def field_of(node, name):
    R = node["T"]
    if R[0] != "agg":
        raise EvalError("member access on %s" % R[0])
    for fn, off, sub in node["fields"]:
        if fn == name:
            return off, sub
    raise EvalError("no member %s" % name)


class SkipAccess(Exception):
    """access outside the judged domain (e.g. through the internal name of an anonymous member)"""


def _okind(lay, v):
    if v.kind == "rv":
        return "ptr(%s%s)" % (kind_of(v.node["T"]), ":nested-tag" if v.nested else "")
    return operand_kind(lay, v.node["T"])


def eval_ast(lay, ast, rootnode, varname="ptr", trace=None):
    """C semantics of an access expression.  trace (list) receives 'op@operand-kind' per operation, innermost
    first."""
    from pycparser import c_ast
    if trace is None:
        trace = []
    if isinstance(ast, c_ast.ID):
        if ast.name != varname:
            raise EvalError("unknown identifier %s" % ast.name)
        out = Val("rv", ("ptr", 0), rootnode)
        out.anc = [(0, rootnode)]
        return out
    if isinstance(ast, c_ast.Constant):
        raise EvalError("bare constant")
    if isinstance(ast, c_ast.UnaryOp) and ast.op == "*":
        v0 = eval_ast(lay, ast.expr, rootnode, varname, trace)
        trace.append("deref@" + _okind(lay, v0))
        v = to_rv(lay, v0)
        if v.node["T"][0] == "func":
            raise SkipAccess("function designator")
        if v.node["T"][0] == "void":
            raise SkipAccess("deref of void pointer")
        return Val("lv", v.loc, v.node, v.rel, v.arr).carry(v, True)
    if isinstance(ast, c_ast.UnaryOp) and ast.op == "&":
        v = eval_ast(lay, ast.expr, rootnode, varname, trace)
        if v.kind != "lv":
            raise EvalError("& of rvalue")
        trace.append("addr@" + _okind(lay, v))
        return Val("rv", v.loc, v.node, v.rel, v.arr).carry(v)
    if isinstance(ast, c_ast.ArrayRef):
        v0 = eval_ast(lay, ast.name, rootnode, varname, trace)
        trace.append("index@" + _okind(lay, v0))
        v = to_rv(lay, v0)
        if not isinstance(ast.subscript, c_ast.Constant):
            raise EvalError("non constant subscript")
        k = int(ast.subscript.value, 0)
        if v.node["size"] is None:
            raise EvalError("index of void/function pointer")
        if v.node["T"][0] == "void":
            raise SkipAccess("index of void pointer")      # as `*`: no object type to denote
        return Val("lv", add(v.loc, k * v.node["size"]), v.node, v.rel + k * v.node["size"], v.arr).carry(v, True)
    if isinstance(ast, c_ast.StructRef):
        v0 = eval_ast(lay, ast.name, rootnode, varname, trace)
        if ast.type == ".":
            how = ""
            if isinstance(ast.name, c_ast.UnaryOp) and ast.name.op == "*":
                how = "(deref)"
            elif isinstance(ast.name, c_ast.ArrayRef):
                how = "(elem)" if trace and trace[-1].startswith("index@array") else "(index)"
            trace.append("field@" + _okind(lay, v0) + how)
            v = v0
            if v.kind != "lv":
                raise EvalError(". on rvalue")
        else:
            trace.append("arrow@" + _okind(lay, v0))
            v = to_rv(lay, v0)
        if ast.field.name.startswith("__ANONYMOUS__") or ast.field.name.startswith("__PAD__"):
            raise SkipAccess("internal member name")
        off, sub = field_of(v.node, ast.field.name)
        out = Val("lv", add(v.loc, off), sub, v.rel + off, v.arr).carry(v, True)
        if sub["T"][0] == "arr":
            out.arr_start = v.rel + off
            out.arr_lead = (off == 0)
        return out
    raise EvalError("unsupported syntax %s" % type(ast).__name__)


_parser = []


def parse_access(text):
    from pycparser import c_parser
    if not _parser:
        _parser.append(c_parser.CParser())
    node = _parser[0].parse("int main() { %s; }" % text, filename="<access>")
    return node.ext[-1].body.block_items[0]


def eval_text(lay, text, rootnode, trace=None):
    try:
        ast = parse_access(text)
    except Exception as e:
        raise EvalError("unparsable: %r" % (e,))
    return eval_ast(lay, ast, rootnode, trace=trace)


def denote(v):
    """('val', L, size): the bytes stored at L; ('addr', loc): the address loc.  Aggregates and arrays are denoted by
    their address; the address held by a pointer object at L is the value stored at L."""
    if v.kind == "lv":
        k = v.node["T"][0]
        if k in ("base", "enum", "eref", "ptr"):
            return ("val", v.loc, v.node["size"])
    base, off = v.loc
    if base != "ptr" and off == 0:
        return ("val", base[1], 8)
    return ("addr", v.loc)


def value_type(lay, v):
    """type of the value denoted: T for scalar lvalues and pointer lvalues, pointer-to-T for aggregates/arrays
    (denoted by address) and for pointer rvalues"""
    T = v.node["T"]
    if v.kind == "lv" and T[0] in ("base", "enum", "eref", "ptr"):
        return T
    return ["ptr", T]


def type_equal(lay, A, B, depth=0):
    env = lay.env

    def res(T):
        while True:
            if T[0] == "td":
                T = env.typedefs[T[1]]
            elif T[0] == "ref" and (T[1], T[2]) in env.tags:
                T = env.tags[(T[1], T[2])]
            else:
                return T
    A, B = res(A), res(B)
    if A[0] != B[0]:
        if {A[0], B[0]} == {"enum", "eref"}:
            return A[1] == B[1]
        return False
    k = A[0]
    if k == "base":
        return canon_base(A[1]) == canon_base(B[1])
    if k in ("enum", "eref", "ref"):
        return A[1:3] == B[1:3] if k == "ref" else A[1] == B[1]
    if k == "void":
        return True
    if k == "ptr":
        return depth > 4 or type_equal(lay, A[1], B[1], depth + 1)
    if k == "arr":
        return A[3] == B[3] and type_equal(lay, A[1], B[1], depth + 1)
    if k == "agg":
        return A is B or A == B
    if k == "func":
        return len(A[2]) == len(B[2])
    return False


# ----------------------------------------------------------------------------------------------
# access path generator: steps over the layout, text fully parenthesised


def gen_path(lay, rootnode, rnd, max_steps=6):
    """-> (text, [feature per step]) of a random access starting at `ptr` (pointer to the root)"""
    text = "ptr"
    v = Val("rv", ("ptr", 0), rootnode)
    feats = []
    nsteps = rnd.randint(1, max_steps)
    for _ in range(nsteps):
        R = v.node["T"] if v.kind == "lv" else None
        opts = []
        if v.kind == "rv" or R[0] in ("ptr", "arr"):
            try:
                pv = to_rv(lay, v)
            except EvalError:
                break
            P = pv.node["T"]
            if pv.node["size"] is None or P[0] == "void":
                break
            if P[0] == "agg":
                opts += [("arrow", 14), ("deref", 1), ("index", 1)]
            else:
                opts += [("deref", 2), ("index", 3)]
            if v.kind == "lv" and R[0] == "arr":
                opts = [(o, w * (4 if o == "index" else 1)) for o, w in opts]
        elif R[0] == "agg":
            opts.append(("field", 1))
        else:
            break
        tot = sum(w for _, w in opts)
        x = rnd.random() * tot
        for op, w in opts:
            x -= w
            if x < 0:
                break
        okind = _okind(lay, v)
        if op in ("arrow", "field"):
            node = pv.node if op == "arrow" else v.node
            names = [f for f in node["fields"] if f[0] is not None]
            if not names:
                break
            fn, off, sub = rnd.choice(names)
            if op == "arrow":
                text = "(%s)->%s" % (text, fn)
                v = Val("lv", add(pv.loc, off), sub)
            else:
                text = "(%s).%s" % (text, fn)
                v = Val("lv", add(v.loc, off), sub)
        elif op == "deref":
            text = "(*(%s))" % text
            v = Val("lv", pv.loc, pv.node)
        else:
            if v.kind == "lv" and R[0] == "arr":
                k = rnd.randint(0, R[3] - 1)
            elif pv.node["T"][0] == "agg":
                k = 0      # a pointer to an aggregate is taken to point to one object
            else:
                k = rnd.choice([0, 1, 1, 2, 3, 7])
            text = "(%s)[%d]" % (text, k)
            v = Val("lv", add(pv.loc, k * pv.node["size"]), pv.node)
        feats.append("%s@%s" % (op, okind))
    if v.kind == "lv" and rnd.random() < 0.25:
        feats.append("addr@%s" % operand_kind(lay, v.node["T"]))
        text = "&(%s)" % text
    return text, feats


def prefixes(text):
    """strictly smaller sub-accesses of a generated text, shortest first (the text is built by wrapping)"""
    t = text
    has_addr = t.startswith("&(") and t.endswith(")")
    if has_addr:
        t = t[2:-1]
    cur = t
    chain = [cur]
    while cur != "ptr":
        m = re.match(r"^\((.*)\)->\w+$", cur) or re.match(r"^\((.*)\)\.\w+$", cur) or \
            re.match(r"^\((.*)\)\[\d+\]$", cur) or re.match(r"^\(\*\((.*)\)\)$", cur)
        if not m:
            break
        cur = m.group(1)
        chain.append(cur)
    chain.reverse()
    out = []
    for c in chain:
        if c == "ptr":
            continue
        if c == t:
            if has_addr:
                out.append(c)
            break
        out.append(c)
    return out
