"""Rebuild miasm's C extensions in place from REPO's current working tree when any C source changed."""
import fcntl
import glob
import hashlib
import os
import subprocess
import sys

from vlib.runner import REPO

PY = "/venv/bin/python"


def _csum():
    h = hashlib.sha256()
    files = []
    for pat in ("miasm/jitter/*.c", "miasm/jitter/*.h", "miasm/jitter/arch/*.c", "miasm/jitter/arch/*.h",
                "miasm/runtime/*.c", "miasm/runtime/*.h", "setup.py"):
        files.extend(glob.glob(os.path.join(REPO, pat)))
    for f in sorted(files):
        h.update(os.path.relpath(f, REPO).encode())
        with open(f, "rb") as fd:
            h.update(fd.read())
    return h.hexdigest()


ARCHS = ("x86", "arm", "aarch64", "msp430", "mep", "mips32", "ppc32")


def _have_all():
    need = ["miasm/jitter/VmMngr", "miasm/jitter/Jitgcc"] + ["miasm/jitter/arch/JitCore_%s" % a for a in ARCHS]
    for n in need:
        if not glob.glob(os.path.join(REPO, n + ".*.so")):
            return False
    return True


def _importable():
    """every extension must import in a fresh interpreter (catches half-linked objects)"""
    code = ("import sys; sys.path.insert(0, %r); import miasm.jitter.VmMngr, miasm.jitter.Jitgcc\n"
            "import importlib\n"
            "for a in %r: importlib.import_module('miasm.jitter.arch.JitCore_' + a)\n" % (REPO, ARCHS))
    env = dict(os.environ)
    env.pop("PYTHONPATH", None)
    p = subprocess.run([PY, "-c", code], env=env, stdout=subprocess.PIPE, stderr=subprocess.STDOUT)
    return p.returncode == 0


def ensure_built(verbose=False):
    os.makedirs(os.path.join(REPO, "build"), exist_ok=True)
    stamp = os.path.join(REPO, "build", ".verif_cstamp2")  # written only after a serial build whose products import
    lock = os.path.join(REPO, "build", ".verif_lock")
    with open(lock, "w") as lf:
        fcntl.flock(lf, fcntl.LOCK_EX)
        cur = _csum()
        old = None
        if os.path.exists(stamp):
            with open(stamp) as f:
                old = f.read().strip()
        if old == cur and _have_all():
            return False
        env = dict(os.environ)
        env.pop("PYTHONPATH", None)
        # serial on purpose: miasm's extensions share source files, and a parallel build_ext compiles them
        # to the same build/temp object paths concurrently (half-written objects get linked)
        import shutil
        for d in glob.glob(os.path.join(REPO, "build", "temp*")):
            shutil.rmtree(d, ignore_errors=True)
        p = subprocess.run([PY, "setup.py", "build_ext", "--inplace"], cwd=REPO, env=env,
                           stdout=subprocess.PIPE, stderr=subprocess.STDOUT)
        if p.returncode != 0 or not _have_all() or not _importable():
            sys.stderr.write(p.stdout.decode("utf-8", "replace")[-4000:])
            raise RuntimeError("building miasm C extensions failed")
        with open(stamp, "w") as f:
            f.write(cur)
        return True


if __name__ == "__main__":
    print("rebuilt" if ensure_built() else "up to date")
