"""Hazard-directed stratum of IR graphs for the memory-alias reasoning of the simplifiers (C36).

vlib.irgraphgen.graph draws memory cells independently, so the situation the alias test of the
expression propagation (data_flow.State.may_interfer), the dead-store logic and the load/store
forwarding must get right -- a value loaded from a cell, a store that may or may not overlap that
cell, a later use of the loaded value -- is rare there.  This module builds it on purpose and varies
everything around it (raw graph form of vlib.irgen / vlib.irgraphgen: same serialisation, same shrinker).

alias_graph(voc, rnd) is a pure function of a random.Random (callers seed it with runner.derive_seed), not a
Hypothesis strategy: Hypothesis' generate phase spends most of its examples on near-copies of the previous one,
which is wasteful for a small, closed family like this one; shrinking is structural (irgraphgen.shrink_graph).

A case is a short program of micro-operations over cells  @w[base + o] :
    L   r = cell              (w = 32: the cell or cell (+|^) x ; w = 8/16: zeroExt / signExt, or BL / DX directly)
    S   cell = value          (register, constant, slice, function of a loaded register)
    A   base = base + d       (push / pop like adjustment of a register base, d in +-1, +-2, +-4, 8)
    U   use of every loaded register: store to a sink cell (absolute 0x3000.. or EDI based), copy to the
        return register, store of a function of two loaded registers, store of a value selected by it
with offsets o in {0, 1, 2, 3, 4, 8, -1, -2, -3, -4} (negative ones as 32-bit wrapping constants) and
widths 8 / 16 / 32.  The first two cells are drawn as a pair: first their relation (RELATIONS, equally likely): equal,
contained (one inside the other), partial overlap, overlap through the wrap (one of the two cells crosses offset 0:
@32[b + 0xFFFFFFFE] / @32[b]), adjacent, far; then a pair of cells in that relation.  Further cells are drawn by
relation to an earlier one.  In one case of five one of the two cells takes a different base (control; bases are ESP,
a data register, ESI, the absolute address 0x1000 or 0 -- the latter really wraps around the address space).
Orders (PATTERNS): load-store-use, store-load-use, load-store-load-use, store-store-load-use,
load-store-store-use, store-load-store-use.
Layouts: the items are cut in three consecutive groups (possibly empty) placed
    straight   one block / three chained blocks
    diamond    group 1 in the entry, group 2 in one arm (other arm: nothing, another store or a register copy),
               group 3 at the join;  ifthen: the same without the second arm
    loop       group 1 before, group 2 in the body of a counted loop (1..3 turns, one or two blocks), group 3 after
With probability 1/5 a free AssignBlock (register arithmetic, loads and stores on the same family of cells, never
assigning the bases and the loaded registers) is inserted between two items; a load and the store that follows it
may share one AssignBlock (parallel semantics).  Exits: ret (twice as likely) / register / location / integer,
optionally preceded by irgraphgen's observer block.
"""
from vlib import irgraphgen as gg
from vlib import irgen

A_OFFS = [0, 1, 2, 3, 4, 8, -1, -2, -3, -4]
A_WIDTHS = [8, 16, 32]
CELLS = [(o, w) for o in A_OFFS for w in A_WIDTHS]
PATTERNS = ["LSU", "LSU", "LSU", "LSU", "SLU", "SLU", "SLU", "LSLU", "SSLU", "LSSU", "SLSU"]
LAYOUTS = ["straight", "straight", "straight", "diamond", "diamond", "ifthen", "loop", "loop"]
RELATIONS = ["equal", "contained", "partial", "wrap", "adjacent", "far"]
ADJ = [4, -4, -2, 2, 1, -1, 8]
SINK = 0x3000


def _bytes(cell):
    o, w = cell
    return frozenset((o + j) & 0xffffffff for j in range(w // 8))


def overlaps(c1, c2):
    return bool(_bytes(c1) & _bytes(c2))


def wraps(cell):
    o, w = cell
    return o < 0 and o + w // 8 > 0


def relation(c1, c2):
    """name of the relation between two same-base cells (one of RELATIONS)"""
    b1, b2 = _bytes(c1), _bytes(c2)
    if b1 == b2:
        return "equal"
    if b1 & b2:
        if wraps(c1) or wraps(c2):
            return "wrap"
        if b1 < b2 or b2 < b1:
            return "contained"
        return "partial"
    lo1, lo2 = c1[0], c2[0]
    if lo1 + c1[1] // 8 == lo2 or lo2 + c2[1] // 8 == lo1:
        return "adjacent"
    return "far"


def pointer(base, off):
    m = gg._m()
    if base[0] == "abs":
        return gg._int(base[1] + off, 32)
    b = m.ExprId(base[1], 32)
    if off == 0:
        return b
    return m.ExprOp('+', b, gg._int(off, 32))


def mem(base, cell):
    return gg._m().ExprMem(pointer(base, cell[0]), cell[1])


def _cell(rnd, earlier):
    """a cell related to one of the earlier ones (relation first, each equally likely when it has candidates)"""
    if not earlier:
        return rnd.choice(CELLS)
    ref = rnd.choice(earlier)
    by_rel = {}
    for c in CELLS:
        by_rel.setdefault(relation(ref, c), []).append(c)
    rel = rnd.choice([r for r in RELATIONS if r in by_rel])
    return rnd.choice(by_rel[rel])


def _pairs_by_relation():
    out = {}
    for c1 in CELLS:
        for c2 in CELLS:
            # width 32 weighs twice
            out.setdefault(relation(c1, c2), []).extend([(c1, c2)] * ((1 + (c1[1] == 32)) * (1 + (c2[1] == 32))))
    return out


PAIRS = _pairs_by_relation()


class _B(object):
    """block list under construction (raw graph form)"""

    def __init__(self, voc, rnd):
        self.voc, self.rnd = voc, rnd
        self.blocks, self.order, self.nloc = {}, [], 0

    def new_loc(self):
        self.nloc += 1
        return self.nloc - 1

    def loc(self, i):
        return irgen.loc(i, 32)

    def emit(self, loc, assignblks, dst, merge=None):
        assignblks = [list(ab) for ab in assignblks]
        if merge is None:
            merge = self.rnd.random() < 0.5
        ird = (self.voc.irdst, dst)
        if merge and assignblks and not any(d == self.voc.irdst for d, _ in assignblks[-1]):
            assignblks[-1] = assignblks[-1] + [ird]
        else:
            assignblks.append([ird])
        assert loc not in self.blocks
        self.blocks[loc] = assignblks
        self.order.append(loc)

    def finish(self, head, tags):
        return {"blocks": [{"loc": l, "assignblks": self.blocks[l]} for l in self.order], "head": head,
                "nlocs": self.nloc, "meta": {"shapes": tags}}


def alias_graph(voc, rnd, noise=True):
    """raw graph of the hazard-directed stratum; meta["shapes"] = ["alias", "alias:<layout>", "alias:<pattern>", ...]"""
    m = gg._m()
    b = _B(voc, rnd)
    data = list(voc.data)
    ch = rnd.choice
    p = lambda num, den: rnd.randrange(den) < num
    # ---- bases
    kinds = [("reg", "ESP")] * 3 + [("reg", v.name) for v in data[1:]] + [("reg", "ESI"), ("abs", 0x1000), ("abs", 0)]
    base = ch(kinds)
    others = [k for k in kinds if k != base]
    pattern = ch(PATTERNS)
    layout = ch(LAYOUTS)
    tags = ["alias", "alias:" + layout, "alias:" + pattern, "alias:base-" + (base[1] if base[0] == "reg" else "abs")]
    base_ids = set()
    if base[0] == "reg":
        base_ids.add(m.ExprId(base[1], 32))
    loaded = []
    cells = {}           # base -> cells drawn so far
    events = []          # ("L"|"S", base, cell) in program order
    items = []           # (kind, AssignBlock as list of pairs)

    def free_regs():
        return [v for v in data if v not in base_ids and v not in loaded]

    # the first two cells: relation first (each of RELATIONS equally likely), then a pair of cells in that relation;
    # control (1 case in 5): one of the two on a different base
    queue = list(ch(PAIRS[ch(RELATIONS)]))
    ctrl = [rnd.randrange(2)] if p(1, 5) else []

    def new_cell(kind):
        bs = base
        if queue and ctrl and ctrl[0] == 2 - len(queue):
            del ctrl[:]
            bs = ch(others)
            if bs[0] == "reg" and any(v.name == bs[1] for v in loaded):
                bs = base
        if bs != base:
            tags.append("alias:other-base")
        c = queue.pop(0) if queue else _cell(rnd, cells.get(bs, []))
        cells.setdefault(bs, []).append(c)
        events.append((kind, bs, c))
        if bs[0] == "reg":
            base_ids.add(m.ExprId(bs[1], 32))
        return mem(bs, c)

    def reg_or_int():
        return ch(data) if p(2, 3) else gg._int(ch(gg.SMALL_CONSTS), 32)

    def value(w):
        k = rnd.randrange(10)
        if w == 32:
            if k < 5:
                return ch(data)
            if k < 7 and loaded and loaded[-1].size == 32:
                return m.ExprOp('+', loaded[-1], gg._int(1, 32))
            if k < 8:
                return m.ExprOp(ch(['+', '^', '&', '-']), ch(data), reg_or_int())
            return gg._int(ch([0, 0x11223344, 0xffffffff, 0xa5a5a5a5]), 32)
        if k < 4 and voc.by_size(w):
            return ch(voc.by_size(w))
        if k < 8:
            start = ch([0, 32 - w])
            return m.ExprSlice(ch(data), start, start + w)
        return gg._int(ch([0, 0x7f, 0xa5c3, 0xffff]), w)

    for op in pattern:
        if op == "L":
            if not free_regs():
                continue
            cell = new_cell("L")
            regs = free_regs()
            if not regs:
                events.pop()
                continue
            w = cell.size
            k = rnd.randrange(8)
            smalls = voc.by_size(w) if w < 32 else []
            if smalls and k < 2 and smalls[0] not in loaded:
                r, src = smalls[0], cell
            else:
                r = ch(regs)
                if w < 32:
                    src = m.ExprOp(ch(["zeroExt_32", "signExt_32"]), cell)
                elif k < 6:
                    src = cell
                else:
                    src = m.ExprOp(ch(['+', '^']), cell, ch(data + [gg._int(4, 32)]))
            loaded.append(r)
            items.append(("L", [(r, src)]))
        elif op == "S":
            cell = new_cell("S")
            items.append(("S", [(cell, value(cell.size))]))
    # relations between a load and a later / earlier store on the same base (coverage tags)
    for i, (k1, b1, c1) in enumerate(events):
        for k2, b2, c2 in events[i + 1:]:
            if b1 == b2 and k1 != k2:
                tags.append("alias:%s%s-%s" % (k1, k2, relation(c1, c2)))
    # base adjustment (register bases that no load overwrote)
    if base[0] == "reg" and base[1] != "ESI" and p(1, 6):
        breg = m.ExprId(base[1], 32)
        if breg not in loaded:
            items.insert(rnd.randrange(len(items) + 1), ("A", [(breg, m.ExprOp('+', breg, gg._int(ch(ADJ), 32)))]))
            tags.append("alias:base-adjusted")
    # ---- uses
    wide = [r if r.size == 32 else m.ExprOp("zeroExt_32", r) for r in loaded]
    nsink = [0]

    def sink():
        i = nsink[0]
        nsink[0] += 1
        if p(1, 4):
            edi = m.ExprId("EDI", 32)
            return m.ExprMem(m.ExprOp('+', edi, gg._int(8 * i, 32)) if i else edi, 32)
        return m.ExprMem(gg._int(SINK + 4 * i, 32), 32)
    ret_free = voc.ret not in base_ids
    if len(wide) >= 2 and p(1, 2):
        items.append(("U", [(sink(), m.ExprOp(ch(['-', '^']), wide[0], wide[1]))]))
    for r, e in zip(loaded, wide):
        k = rnd.randrange(10)
        if k < 4:
            items.append(("U", [(sink(), e)]))
        elif k < 6 and r != voc.ret and ret_free:
            items.append(("U", [(voc.ret, e)]))
        elif k < 8:
            items.append(("U", [(sink(), m.ExprOp('+', e, ch(data)))]))
        elif k < 9:
            items.append(("U", [(sink(), m.ExprCond(e, gg._int(1, 32), gg._int(2, 32)))]))
        else:
            items.append(("U", [(sink(), e)]))
            if r != voc.ret and ret_free:
                items.append(("U", [(voc.ret, m.ExprOp('-', e))]))
    # ---- a load and the store that follows it in one AssignBlock (parallel semantics), sometimes
    merged = []
    for kind, ab in items:
        if merged and kind == "S" and merged[-1][0] == "L" and p(1, 6):
            merged[-1] = ("LS", merged[-1][1] + ab)
            tags.append("alias:parallel-load-store")
        else:
            merged.append((kind, ab))
    # ---- noise
    protected = set(base_ids) | set(loaded) | set(voc.counters)

    def noise_blk():
        pairs, used = [], set()
        for _ in range(rnd.randrange(1, 3)):
            k = rnd.randrange(6)
            if k == 0 and not any(d.is_mem() for d, _ in pairs):
                bs = base if p(3, 4) else ch(others)
                c = mem(bs, ch(CELLS))
                pairs.append((c, value(c.size)))
                continue
            free = [v for v in data if v not in protected and v not in used]
            if not free:
                break
            d = ch(free)
            used.add(d)
            if k == 1:
                src = mem(base if p(3, 4) else ch(others), (ch(A_OFFS), 32))
            elif k == 2:
                src = m.ExprCond(ch(data), reg_or_int(), reg_or_int())
            else:
                src = m.ExprOp(ch(gg.BINOPS[:5]), ch(data), reg_or_int())
            pairs.append((d, src))
        return pairs
    seq = []
    for kind, ab in merged:
        if noise and seq and p(1, 5):
            nb = noise_blk()
            if nb:
                seq.append(nb)
                tags.append("alias:noise")
        seq.append(ab)
    # ---- three groups
    n = len(seq)
    c1 = rnd.randrange(n + 1)
    c2 = rnd.randrange(c1, n + 1)
    g0, g1, g2 = seq[:c1], seq[c1:c2], seq[c2:]
    head, last = b.new_loc(), b.new_loc()

    def cond_of(t, f):
        k = rnd.randrange(6)
        if k < 2 and voc.flags:
            c = ch(voc.flags)
        elif k < 3:
            c = ch(data)
        elif k < 4:
            c = m.ExprOp('&', ch(data), gg._int(ch([1, 2, 0x80000000, 0xff]), 32))
        elif k < 5:
            c = m.ExprOp(ch(gg.CMPS), ch(data), reg_or_int())
        else:
            c = mem(base, ch(CELLS))
        return m.ExprCond(c, b.loc(t), b.loc(f)) if p(1, 2) else m.ExprCond(c, b.loc(f), b.loc(t))
    if layout == "straight":
        if p(1, 2):
            b.emit(head, seq, b.loc(last))
        else:
            x, y = b.new_loc(), b.new_loc()
            b.emit(head, g0, b.loc(x))
            b.emit(x, g1, b.loc(y))
            b.emit(y, g2, b.loc(last))
    elif layout in ("diamond", "ifthen"):
        t, join = b.new_loc(), b.new_loc()
        f = b.new_loc() if layout == "diamond" else join
        b.emit(head, g0, cond_of(t, f))
        b.emit(t, g1, b.loc(join))
        if layout == "diamond":
            k = rnd.randrange(3)
            alt = []
            if k == 1:
                cell = new_cell("S")
                alt = [[(cell, value(cell.size))]]
            elif k == 2 and loaded:
                r = ch(loaded)
                alt = [[(r, reg_or_int() if r.size == 32 else gg._int(ch([0, 1, 0x7f]), r.size))]]
            b.emit(f, alt, b.loc(join))
        b.emit(join, g2, b.loc(last))
    else:
        cnt = voc.counters[-1]
        k = rnd.randrange(1, 4)
        h, post = b.new_loc(), b.new_loc()
        dec = m.ExprOp('+', cnt, gg._int(-1, 32))
        back = m.ExprCond(dec, b.loc(h), b.loc(post))
        b.emit(head, g0 + [[(cnt, gg._int(k, 32))]], b.loc(h))
        if p(1, 2):
            b.emit(h, g1 + [[(cnt, dec)]], back, merge=True)
        else:
            latch = b.new_loc()
            b.emit(h, g1, b.loc(latch))
            b.emit(latch, [[(cnt, dec)]], back, merge=True)
        b.emit(post, g2, b.loc(last))
    # ---- exit
    kind = ch(list(voc.exits) + (["ret"] if "ret" in voc.exits else []))
    pre = [gg.observer_blk(voc)] if p(1, 3) else []
    tags.append("exit:" + kind)
    if kind == "ret":
        b.blocks[last] = pre + [[(voc.sp, m.ExprOp('+', voc.sp, gg._int(4, 32))), (voc.irdst, m.ExprMem(voc.sp, 32))]]
        b.order.append(last)
    elif kind == "reg":
        b.emit(last, pre, ch(data))
    elif kind == "loc":
        b.emit(last, pre, b.loc(b.new_loc()))
    else:
        b.emit(last, pre, gg._int(ch([0x1000, 0x401000, 0xdead0000]), 32))
    return b.finish(head, tags)
