"""x86 instruction templates for C18: text templates (mnemonic x operand form x size x register set),
operand slots with boundary value classes, the per-mnemonic table of flags / results the Intel SDM
leaves undefined, and SDM-pseudo-code models of the instructions that do not exist in long mode.

Nothing here imports miasm.
"""
import itertools

# ---------------------------------------------------------------------------------------------
# registers

FAM = {
    "A": {64: "RAX", 32: "EAX", 16: "AX", 8: "AL", "h": "AH"},
    "C": {64: "RCX", 32: "ECX", 16: "CX", 8: "CL", "h": "CH"},
    "D": {64: "RDX", 32: "EDX", 16: "DX", 8: "DL", "h": "DH"},
    "B": {64: "RBX", 32: "EBX", 16: "BX", 8: "BL", "h": "BH"},
    "SP": {64: "RSP", 32: "ESP", 16: "SP", 8: "SPL"},
    "BP": {64: "RBP", 32: "EBP", 16: "BP", 8: "BPL"},
    "SI": {64: "RSI", 32: "ESI", 16: "SI", 8: "SIL"},
    "DI": {64: "RDI", 32: "EDI", 16: "DI", 8: "DIL"},
}
for _i in range(8, 16):
    FAM["R%d" % _i] = {64: "R%d" % _i, 32: "R%dD" % _i, 16: "R%dW" % _i, 8: "R%dB" % _i}
GPR_ORDER = ["A", "C", "D", "B", "SP", "BP", "SI", "DI"] + ["R%d" % i for i in range(8, 16)]
GPR_INDEX = {f: i for i, f in enumerate(GPR_ORDER)}
PTRNAME = {8: "BYTE", 16: "WORD", 32: "DWORD", 64: "QWORD", 128: "XMMWORD"}

STATUS = ("cf", "pf", "af", "zf", "nf", "of")     # miasm names; nf = SF
FLAG_BIT = {"cf": 0, "pf": 2, "af": 4, "zf": 6, "nf": 7, "df": 10, "of": 11}
SDM_NAME = {"cf": "CF", "pf": "PF", "af": "AF", "zf": "ZF", "nf": "SF", "of": "OF", "df": "DF"}
ALLST = 0x8D5


def mask(n):
    return (1 << n) - 1


# ---------------------------------------------------------------------------------------------
# value classes (deterministic boundary lists).  depth 0 = lite, 1 = full

def vals_int(size, depth=1):
    m = mask(size)
    msb = 1 << (size - 1)
    full = [0, 1, m, msb, msb - 1, 2, m - 1, msb + 1, 0x5555555555555555 & m, 0xAAAAAAAAAAAAAAAA & m, 0x0f, 0x10, 0x80 & m,
            0x7f]
    if size > 8:
        full += [0xff, 0x100, 0x8000 & m if size > 16 else 0x1234]
    if size > 16:
        full += [0xffff, 0x10000, 0x12345678 & m]
    if size > 32:
        full += [0xffffffff, 0x100000000, 0x80000000, 0x7fffffff, 0xffffffff00000000, 0x123456789abcdef0]
    out = []
    for v in full:
        v &= m
        if v not in out:
            out.append(v)
    if depth == 0:
        return out[:6]
    return out


def vals_count(size, depth=1):
    """shift / rotate counts (8-bit register or immediate)"""
    vs = [0, 1, size - 1, size, size + 1, 2, 7, 8, 9, 15, 16, 17, 31, 32, 33, 63, 64, 65, 0x80, 0xff, 0x1f, 0x3f, 0x20 + 1,
          18, 24, 27]
    out = []
    for v in vs:
        v &= 0xff
        if v not in out:
            out.append(v)
    if depth == 0:
        return out[:7]
    return out


def vals_bitoff(size, depth=1):
    m = mask(size)
    vs = [0, 1, size - 1, size, size + 1, 7, 8, m, m - 1, 1 << (size - 1), 2 * size + 3, 0x55 & m]
    out = []
    for v in vs:
        v &= m
        if v not in out:
            out.append(v)
    return out[:6] if depth == 0 else out


def vals_bitoff_mem(size, depth=1):
    """bit offsets for bt* with a memory base: kept inside the window (base at +0x800)"""
    m = mask(size)
    vs = [0, 1, size - 1, size, size + 1, 7, 8, 65, 1000, -1, -size, -size - 1, -1000, 3 * size + 5]
    if size == 16:
        vs = [v for v in vs if -0x8000 <= v < 0x8000]
    out = []
    for v in vs:
        v &= m
        if v not in out:
            out.append(v)
    return out[:7] if depth == 0 else out


def vals_repcount(size, depth=1):
    return [0, 1, 2, 5] if depth == 0 else [0, 1, 2, 3, 5, 9]


def vals_vec(size=128, depth=1):
    pats = [0, mask(128),
            0x000102030405060708090a0b0c0d0e0f,
            0x80007fff8000000180ff7f0100ff807f,
            0xffff0000ffffffff00000000ffff0001,
            0x7fffffff80000000ffffffff00000001,
            0x7fffffffffffffff8000000000000000,
            0xfedcba9876543210f0e1d2c3b4a59687,
            0x0001000200030004fffffffefffdfffc,
            0x00ff00fe7f80017f8081fe0102037ffe]
    return pats[:5] if depth == 0 else pats


def vals_veccount(size=128, depth=1):
    vs = [0, 1, 7, 8, 15, 16, 17, 31, 32, 33, 63, 64, 65, 0x100000000, 1 << 64, (1 << 64) + 1, mask(128)]
    return vs[:8] if depth == 0 else vs


def _lanes(vals, bits):
    out = []
    n = 128 // bits
    for k in range(len(vals)):
        v = 0
        for i in range(n):
            v |= vals[(k + 3 * i) % len(vals)] << (bits * i)
        out.append(v)
    return out


F32 = [0x00000000, 0x80000000, 0x3FC00000, 0xBFC00000, 0x7F800000, 0xFF800000, 0x7FC00000, 0xFFC00001, 0x7FA00000,
       0x00000001, 0x80000001, 0x7F7FFFFF, 0x40100000]
F64 = [0x0000000000000000, 0x8000000000000000, 0x3FF8000000000000, 0xBFF8000000000000, 0x7FF0000000000000,
       0xFFF0000000000000, 0x7FF8000000000000, 0xFFF8000000000001, 0x7FF4000000000000, 0x0000000000000001,
       0x8000000000000001, 0x7FEFFFFFFFFFFFFF, 0x4002000000000000]


def vals_fvec32(size=128, depth=1):
    v = _lanes(F32, 32)
    return v[:7] if depth == 0 else v


def vals_fvec64(size=128, depth=1):
    v = _lanes(F64, 64)
    return v[:7] if depth == 0 else v


VCLASS = {"fvec32": vals_fvec32, "fvec64": vals_fvec64, "int": vals_int, "count": vals_count, "bitoff": vals_bitoff, "bitoff_mem": vals_bitoff_mem,
          "rep": vals_repcount, "vec": vals_vec, "veccount": vals_veccount}


class Slot(object):
    """One input location that the generator varies.
    kind: 'reg' (fam, size, hi) | 'mem' (off = window offset, size) | 'xmm' (idx)"""
    __slots__ = ("name", "kind", "fam", "size", "hi", "off", "idx", "vclass", "vals")

    def __init__(self, name, kind, size, fam=None, hi=False, off=None, idx=None, vclass="int", vals=None):
        self.name, self.kind, self.size, self.fam, self.hi = name, kind, size, fam, hi
        self.off, self.idx, self.vclass, self.vals = off, idx, vclass, vals

    def values(self, depth):
        if self.vals is not None:
            return list(self.vals)
        return VCLASS[self.vclass](self.size, depth)


class Tpl(object):
    __slots__ = ("mode", "mn", "form", "text", "ltext", "slots", "imm", "size", "ptrs", "flagsets", "group", "depth",
                 "cap", "model")

    def __init__(self, mode, mn, form, text, slots, size, group, imm=None, ptrs=None, flagsets="std", depth=1,
                 ltext=None, cap=None, model=None):
        self.mode, self.mn, self.form, self.text, self.slots, self.size = mode, mn, form, text, slots, size
        self.group, self.imm, self.ptrs, self.flagsets, self.depth = group, imm, dict(ptrs or {}), flagsets, depth
        self.ltext = ltext
        self.cap = cap
        self.model = model

    @property
    def key(self):
        return "%d|%s" % (self.mode, self.text)

    def slot(self, name):
        for s in self.slots:
            if s.name == name:
                return s
        return None


FLAGSETS = {
    "std": [0, ALLST],
    "cf": [0, ALLST, 0x001, ALLST & ~1],
    "df": [0, ALLST, 0x400, ALLST | 0x400],
    "dfonly": [0, 0x400 | ALLST],
    "cc": None,   # all 32 combinations of CF PF ZF SF OF (AF follows CF)
    "all6": None,
    "afcf": [0, 0x10, 0x01, 0x11, ALLST, ALLST & ~0x11],
    "af": [0, 0x10],
}


def flagsets(name):
    if name == "cc":
        out = []
        for bits in range(32):
            v = 0
            for i, f in enumerate(("cf", "pf", "zf", "nf", "of")):
                if bits >> i & 1:
                    v |= 1 << FLAG_BIT[f]
            if bits & 1:
                v |= 1 << FLAG_BIT["af"]
            out.append(v)
        return out
    if name == "all6":
        out = []
        for bits in range(64):
            v = 0
            for i, f in enumerate(STATUS):
                if bits >> i & 1:
                    v |= 1 << FLAG_BIT[f]
            out.append(v)
        return out
    return FLAGSETS[name]


# ---------------------------------------------------------------------------------------------
# template construction

BASE_OFF = 0x800          # address registers point at window + BASE_OFF (+ small variations)


class RS(object):
    """a register set: which families play dst / src / third / base / index"""

    def __init__(self, name, dst, src, third, base, index, hi=False, modes=(32, 64)):
        self.name, self.dst, self.src, self.third, self.base, self.index, self.hi, self.modes = \
            name, dst, src, third, base, index, hi, modes


RS0 = RS("legacy", "B", "D", "C", "SI", "DI")
RS1 = RS("rex", "R9", "R14", "R11", "R13", "R10", modes=(64,))
RS2 = RS("high8", "B", "D", "C", "SI", "DI", hi=True)
RS3 = RS("rex8", "SI", "DI", "C", "B", "D", modes=(64,))
RS4 = RS("acc", "A", "C", "D", "B", "DI")        # accumulator short forms


def rname(fam, size, hi=False):
    if hi and size == 8:
        return FAM[fam]["h"]
    return FAM[fam][size]


class B(object):
    """builder for one mode"""

    def __init__(self, mode, thorough=False):
        self.mode = mode
        self.thorough = thorough
        self.out = []
        self.seen = set()
        self.t2 = False          # while set, templates are generated in the thorough tier only

    def add(self, mn, form, text, slots, size, group, t2=False, **kw):
        if (t2 or self.t2) and not self.thorough:
            return
        if text in self.seen:
            return
        self.seen.add(text)
        self.out.append(Tpl(self.mode, mn, form, text, slots, size, group, **kw))

    # operand helpers ---------------------------------------------------------------------
    def areg(self, fam):
        return FAM[fam][self.mode]

    def mem(self, size, base, disp=0, index=None, scale=1, a32=False):
        """-> (text, window offset, ptrs)"""
        asz = 32 if a32 else self.mode
        t = FAM[base][asz]
        ptrs = {base: BASE_OFF}
        off = BASE_OFF + disp
        if index is not None:
            t += "+%s*%d" % (FAM[index][asz], scale)
            ptrs[index] = ("idx", 3)
            off += 3 * scale
        if disp > 0:
            t += "+0x%X" % disp
        elif disp < 0:
            t += "-0x%X" % (-disp)
        return "%s PTR [%s]" % (PTRNAME[size], t), off, ptrs

    def sizes(self, lst=(8, 16, 32, 64)):
        return [s for s in lst if s <= self.mode]


def imm_text(v, size):
    return "0x%X" % (v & mask(size))


def imms_for(size):
    """immediates for ALU-like instructions (value taken modulo the operand size; imm32 sign-extended for 64)"""
    if size == 8:
        return [0x1, 0x7F, 0x80, 0xFF]
    if size == 16:
        return [0x1, 0x7F, 0xFF80, 0xFFFF, 0x80, 0x1234, 0x8000]
    if size == 32:
        return [0x1, 0x7F, 0xFFFFFF80, 0xFFFFFFFF, 0x80, 0x12345678, 0x80000000]
    return [0x1, 0x7F, 0xFFFFFFFFFFFFFF80, 0xFFFFFFFFFFFFFFFF, 0x80, 0x12345678, 0xFFFFFFFF80000000]


ALU2 = ["ADD", "ADC", "SUB", "SBB", "AND", "OR", "XOR", "CMP"]
CARRY_IN = {"ADC", "SBB", "RCL", "RCR"}
UNARY = ["INC", "DEC", "NEG", "NOT"]
SHIFTS = ["SHL", "SAL", "SHR", "SAR", "ROL", "ROR", "RCL", "RCR"]
CCS = ["O", "NO", "B", "AE", "Z", "NZ", "BE", "A", "S", "NS", "PE", "NP", "L", "GE", "LE", "G"]
CC_ALIASES = {"B": ["C", "NAE"], "AE": ["NB", "NC"], "Z": ["E"], "NZ": ["NE"], "BE": ["NA"], "A": ["NBE"], "PE": ["P"],
              "NP": ["PO"], "L": ["NGE"], "GE": ["NL"], "LE": ["NG"], "G": ["NLE"]}


def build(mode, thorough=False):
    b = B(mode, thorough)
    m = mode
    rsets = [r for r in (RS0, RS1, RS2, RS3, RS4) if m in r.modes]

    def R(fam, size, name, hi=False, vclass="int", vals=None):
        return Slot(name, "reg", size, fam=fam, hi=hi, vclass=vclass, vals=vals)

    def M(off, size, name, vclass="int", vals=None):
        return Slot(name, "mem", size, off=off, vclass=vclass, vals=vals)

    # ---- two-operand ALU + MOV + TEST + XCHG-like ----------------------------------------
    def two_op(mn, group, sizes, rs, forms=("rr", "ri", "rm", "mr", "mi"), depth=1, fl="std", imms=None, disp=0x10):
        for size in sizes:
            if rs.hi and size != 8:
                continue
            if rs is RS3 and size != 8:
                continue
            d, s = rname(rs.dst, size, rs.hi), rname(rs.src, size, rs.hi)
            if "rr" in forms:
                b.add(mn, "r%d,r%d" % (size, size), "%s %s, %s" % (mn, d, s),
                      [R(rs.dst, size, "dst", rs.hi), R(rs.src, size, "src", rs.hi)], size, group, flagsets=fl,
                      depth=depth)
            if "ri" in forms:
                for iv in (imms or imms_for(size)):
                    b.add(mn, "r%d,imm" % size, "%s %s, %s" % (mn, d, imm_text(iv, size)),
                          [R(rs.dst, size, "dst", rs.hi)], size, group, imm=iv & mask(size), flagsets=fl, depth=depth)
            mt, off, ptrs = b.mem(size, rs.base, disp)
            if "rm" in forms:
                b.add(mn, "r%d,m%d" % (size, size), "%s %s, %s" % (mn, d, mt),
                      [R(rs.dst, size, "dst", rs.hi), M(off, size, "src")], size, group, ptrs=ptrs, flagsets=fl,
                      depth=depth)
            if "mr" in forms:
                b.add(mn, "m%d,r%d" % (size, size), "%s %s, %s" % (mn, mt, s),
                      [M(off, size, "dst"), R(rs.src, size, "src", rs.hi)], size, group, ptrs=ptrs, flagsets=fl,
                      depth=depth)
            if "mi" in forms:
                for iv in (imms or imms_for(size))[:4]:
                    b.add(mn, "m%d,imm" % size, "%s %s, %s" % (mn, mt, imm_text(iv, size)),
                          [M(off, size, "dst")], size, group, imm=iv & mask(size), ptrs=ptrs, flagsets=fl, depth=depth)

    for mn in ALU2:
        fl = "cf" if mn in CARRY_IN else "std"
        grp = "logic" if mn in ("AND", "OR", "XOR") else "arith"
        two_op(mn, grp, b.sizes(), RS0, fl=fl)
        for rs in rsets[1:]:
            b.t2 = rs in (RS1, RS3) and mn not in ("ADD", "SBB", "XOR", "CMP")
            if rs is RS4:
                two_op(mn, grp, b.sizes(), rs, forms=("ri",), depth=0, fl=fl, imms=None)
            elif rs is RS1:
                two_op(mn, grp, b.sizes(), rs, forms=("rr", "rm", "mr", "ri"), depth=0, fl=fl, imms=[0x80])
            else:
                two_op(mn, grp, b.sizes(), rs, forms=("rr", "ri", "rm", "mr"), depth=0, fl=fl, imms=[0x80 if rs.hi else 0xFF])
        b.t2 = False
        # same register twice
        for size in b.sizes():
            r = rname("B", size)
            b.add(mn, "r%d,same" % size, "%s %s, %s" % (mn, r, r), [R("B", size, "dst")], size, grp, flagsets=fl)
    two_op("TEST", "logic", b.sizes(), RS0, forms=("rr", "ri", "mr", "mi"))
    two_op("TEST", "logic", b.sizes(), RS4, forms=("ri",), depth=0)
    two_op("MOV", "noflags", b.sizes(), RS0)
    for rs in rsets[1:]:
        two_op("MOV", "noflags", b.sizes(), rs, depth=0, imms=[0x7F, 0x80])
    if m == 64:
        for iv in (0x1122334455667788, 0xFFFFFFFF80000000, 0x80000000, 0xFFFFFFFF):
            b.add("MOV", "r64,imm64", "MOV RBX, 0x%X" % iv, [R("B", 64, "dst")], 64, "noflags", imm=iv, depth=0)
    two_op("XCHG", "noflags", b.sizes(), RS0, forms=("rr", "mr"))
    two_op("XCHG", "noflags", b.sizes(), RS4, forms=("rr",), depth=0)
    two_op("XCHG", "noflags", b.sizes(), RS2, forms=("rr", "mr"), depth=0)
    for size in b.sizes((16, 32, 64)):
        a = rname("A", size)
        b.add("XCHG", "r%d,acc" % size, "XCHG %s, %s" % (rname("B", size), a),
              [R("B", size, "dst"), R("A", size, "src")], size, "noflags", depth=0)
        b.add("XCHG", "acc,acc", "XCHG %s, %s" % (a, a), [R("A", 64 if m == 64 else 32, "dst")], size, "noflags", depth=0)
    two_op("XADD", "arith", b.sizes(), RS0, forms=("rr", "mr"))
    two_op("XADD", "arith", b.sizes(), RS2, forms=("rr", "mr"), depth=0)
    for size in b.sizes():
        r = rname("B", size)
        b.add("XADD", "r%d,same" % size, "XADD %s, %s" % (r, r), [R("B", size, "dst")], size, "arith", depth=0)
    # CMPXCHG: accumulator is a third input
    for rs in (RS0, RS2):
        for size in b.sizes():
            if rs.hi and size != 8:
                continue
            d, s = rname(rs.dst, size, rs.hi), rname(rs.src, size, rs.hi)
            eqv = [0, 1, mask(size), 1 << (size - 1), 0x55 & mask(size)]
            b.add("CMPXCHG", "r%d,r%d" % (size, size), "CMPXCHG %s, %s" % (d, s),
                  [R(rs.dst, size, "dst", rs.hi, vals=eqv), R(rs.src, size, "src", rs.hi, vals=eqv[1:4]),
                   R("A", size, "acc", vals=eqv)], size, "arith", depth=1 if rs is RS0 else 0)
            mt, off, ptrs = b.mem(size, rs.base, 0x10)
            b.add("CMPXCHG", "m%d,r%d" % (size, size), "CMPXCHG %s, %s" % (mt, s),
                  [M(off, size, "dst", vals=eqv), R(rs.src, size, "src", rs.hi, vals=eqv[1:4]),
                   R("A", size, "acc", vals=eqv)], size, "arith", ptrs=ptrs, depth=1 if rs is RS0 else 0)
    # CMPXCHG8B / 16B
    mt, off, ptrs = b.mem(64, "SI", 0x10)
    v64 = [0, 1, mask(64), 0x8000000000000000, 0x00000001ffffffff]
    b.add("CMPXCHG8B", "m64", "CMPXCHG8B %s" % mt,
          [M(off, 64, "dst", vals=v64), R("A", 32, "lo", vals=[0, 1, 0xffffffff]), R("D", 32, "hi", vals=[0, 1, 0xffffffff, 0x80000000]),
           R("B", 32, "nlo", vals=[0x11111111, 0]), R("C", 32, "nhi", vals=[0x22222222])], 64, "cmpxchg8b", ptrs=ptrs)
    if m == 64:
        mt, off, ptrs = b.mem(128, "SI", 0x10)
        v128 = [0, 1, mask(128), 1 << 64, (1 << 127)]
        b.add("CMPXCHG16B", "m128", "CMPXCHG16B %s" % mt,
              [M(off, 128, "dst", vals=v128), R("A", 64, "lo", vals=[0, 1, mask(64)]), R("D", 64, "hi", vals=[0, 1, mask(64), 1 << 63]),
               R("B", 64, "nlo", vals=[0x1111111111111111, 0]), R("C", 64, "nhi", vals=[0x2222222222222222])], 128,
              "cmpxchg8b", ptrs=ptrs)

    # ---- unary ---------------------------------------------------------------------------
    for mn in UNARY:
        grp = "noflags" if mn == "NOT" else "arith"
        for rs in (RS0, RS2, RS1) if m == 64 else (RS0, RS2):
            for size in b.sizes():
                if rs.hi and size != 8:
                    continue
                d = rname(rs.dst, size, rs.hi)
                b.add(mn, "r%d" % size, "%s %s" % (mn, d), [R(rs.dst, size, "dst", rs.hi)], size, grp)
                mt, off, ptrs = b.mem(size, rs.base, -0x8)
                if not rs.hi:
                    b.add(mn, "m%d" % size, "%s %s" % (mn, mt), [M(off, size, "dst")], size, grp, ptrs=ptrs)

    # ---- shifts and rotates --------------------------------------------------------------
    for mn in SHIFTS:
        fl = "cf" if mn in CARRY_IN else "std"
        grp = "rotate" if mn in ("ROL", "ROR", "RCL", "RCR") else "shift"
        for rs in (RS0, RS2, RS1) if m == 64 else (RS0, RS2):
            lite = rs is not RS0
            for size in b.sizes():
                if rs.hi and size != 8:
                    continue
                d = rname(rs.dst, size, rs.hi)
                dvals = [1, mask(size), 1 << (size - 1), (1 << (size - 1)) | 1, 0x5555555555555555 & mask(size), 0,
                         0x6 << (size - 4), 0xAAAAAAAAAAAAAAAA & mask(size)]
                if lite:
                    dvals = dvals[:4]
                imms = [1, 2, size - 1, size, size + 1, 0x20, 0x21, 0x41, 0xFF, 9]
                if lite:
                    imms = [1, size + 1]
                seen = set()
                for iv in imms:
                    iv &= 0xff
                    if iv in seen:
                        continue
                    seen.add(iv)
                    b.add(mn, "r%d,%s" % (size, "1" if iv == 1 else "imm8"), "%s %s, 0x%X" % (mn, d, iv),
                          [R(rs.dst, size, "dst", rs.hi, vals=dvals)], size, grp, imm=iv, flagsets=fl,
                          t2=rs is RS1 and mn not in ("SHL", "RCR"))
                b.add(mn, "r%d,cl" % size, "%s %s, CL" % (mn, d),
                      [R(rs.dst, size, "dst", rs.hi, vals=dvals), R("C", 8, "cnt", vclass="count")], size, grp,
                      flagsets=fl, depth=0 if lite else 1)
                if rs.hi:
                    continue
                mt, off, ptrs = b.mem(size, rs.base, 0x20)
                for iv in (1, size - 1, 0x21):
                    b.add(mn, "m%d,%s" % (size, "1" if iv == 1 else "imm8"), "%s %s, 0x%X" % (mn, mt, iv),
                          [M(off, size, "dst", vals=dvals)], size, grp, imm=iv, ptrs=ptrs, flagsets=fl,
                          t2=rs is RS1)
                b.add(mn, "m%d,cl" % size, "%s %s, CL" % (mn, mt),
                      [M(off, size, "dst", vals=dvals), R("C", 8, "cnt", vclass="count")], size, grp, ptrs=ptrs,
                      flagsets=fl, depth=0)
    for mn in ("SHLD", "SHRD"):
        for rs in (RS0, RS1) if m == 64 else (RS0,):
            for size in b.sizes((16, 32, 64)):
                d, s = rname(rs.dst, size), rname(rs.src, size)
                dvals = [1, mask(size), 1 << (size - 1), 0x5555555555555555 & mask(size), 0]
                svals = [0, mask(size), 1 << (size - 1), 1, 0xAAAAAAAAAAAAAAAA & mask(size)]
                imms = [1, 2, size - 1, size, 0x1F, 0x20, 0x21, 0x3F, 0x40, 0, 8, 15, 16, 17, 0xFF]
                if rs is not RS0:
                    imms = [1, size - 1, 0x21]
                seen = set()
                for iv in imms:
                    iv &= 0xff
                    if iv in seen:
                        continue
                    seen.add(iv)
                    b.add(mn, "r%d,r%d,imm8" % (size, size), "%s %s, %s, 0x%X" % (mn, d, s, iv),
                          [R(rs.dst, size, "dst", vals=dvals), R(rs.src, size, "src", vals=svals)], size, "shiftd", imm=iv)
                b.add(mn, "r%d,r%d,cl" % (size, size), "%s %s, %s, CL" % (mn, d, s),
                      [R(rs.dst, size, "dst", vals=dvals[:3]), R(rs.src, size, "src", vals=svals[:3]),
                       R("C", 8, "cnt", vclass="count")], size, "shiftd")
                mt, off, ptrs = b.mem(size, rs.base, 0x20)
                for iv in (1, size - 1):
                    b.add(mn, "m%d,r%d,imm8" % (size, size), "%s %s, %s, 0x%X" % (mn, mt, s, iv),
                          [M(off, size, "dst", vals=dvals), R(rs.src, size, "src", vals=svals)], size, "shiftd", imm=iv,
                          ptrs=ptrs)
                b.add(mn, "m%d,r%d,cl" % (size, size), "%s %s, %s, CL" % (mn, mt, s),
                      [M(off, size, "dst", vals=dvals[:3]), R(rs.src, size, "src", vals=svals[:3]),
                       R("C", 8, "cnt", vclass="count")], size, "shiftd", ptrs=ptrs, depth=0)

    # ---- bit test / scan -----------------------------------------------------------------
    for mn in ("BT", "BTS", "BTR", "BTC"):
        for rs in (RS0, RS1) if m == 64 else (RS0,):
            for size in b.sizes((16, 32, 64)):
                d, s = rname(rs.dst, size), rname(rs.src, size)
                dvals = [0, mask(size), 1, 1 << (size - 1), 0x5555555555555555 & mask(size), 0xAAAAAAAAAAAAAAAA & mask(size)]
                b.add(mn, "r%d,r%d" % (size, size), "%s %s, %s" % (mn, d, s),
                      [R(rs.dst, size, "dst", vals=dvals), R(rs.src, size, "off", vclass="bitoff")], size, "bt")
                for iv in (0, 1, size - 1, size, size + 1, 0x3F, 0x40, 0xFF, 7):
                    b.add(mn, "r%d,imm8" % size, "%s %s, 0x%X" % (mn, d, iv & 0xff),
                          [R(rs.dst, size, "dst", vals=dvals)], size, "bt", imm=iv & 0xff)
                mt, off, ptrs = b.mem(size, rs.base, 0)
                b.add(mn, "m%d,r%d" % (size, size), "%s %s, %s" % (mn, mt, s),
                      [M(off, size, "dst", vals=dvals[:4]), R(rs.src, size, "off", vclass="bitoff_mem")], size, "btmem",
                      ptrs=ptrs)
                for iv in (0, size - 1, size + 1, 0xFF):
                    b.add(mn, "m%d,imm8" % size, "%s %s, 0x%X" % (mn, mt, iv & 0xff),
                          [M(off, size, "dst", vals=dvals)], size, "btmem", imm=iv & 0xff, ptrs=ptrs)
    for mn in ("BSF", "BSR"):
        for rs in (RS0, RS1) if m == 64 else (RS0,):
            for size in b.sizes((16, 32, 64)):
                d, s = rname(rs.dst, size), rname(rs.src, size)
                svals = [0, 1, mask(size), 1 << (size - 1), 0x10, 0x6 << (size - 4), 0x180 & mask(size), 2]
                b.add(mn, "r%d,r%d" % (size, size), "%s %s, %s" % (mn, d, s),
                      [R(rs.dst, size, "dst", vals=[0, mask(size)]), R(rs.src, size, "src", vals=svals)], size, "bscan")
                mt, off, ptrs = b.mem(size, rs.base, 0x10)
                b.add(mn, "r%d,m%d" % (size, size), "%s %s, %s" % (mn, d, mt),
                      [R(rs.dst, size, "dst", vals=[0, mask(size)]), M(off, size, "src", vals=svals)], size, "bscan",
                      ptrs=ptrs)
                b.add(mn, "r%d,same" % size, "%s %s, %s" % (mn, d, d), [R(rs.dst, size, "src", vals=svals)], size, "bscan")

    # ---- multiply / divide ---------------------------------------------------------------
    for mn in ("MUL", "IMUL"):
        for rs in (RS0, RS2, RS1) if m == 64 else (RS0, RS2):
            for size in b.sizes():
                if rs.hi and size != 8:
                    continue
                s = rname(rs.dst, size, rs.hi)
                b.add(mn, "r%d" % size, "%s %s" % (mn, s),
                      [R("A", size, "acc"), R(rs.dst, size, "src", rs.hi)], size, "mul", depth=1 if rs is RS0 else 0)
                if rs.hi:
                    continue
                mt, off, ptrs = b.mem(size, rs.base, 0x10)
                b.add(mn, "m%d" % size, "%s %s" % (mn, mt), [R("A", size, "acc"), M(off, size, "src")], size, "mul",
                      ptrs=ptrs, depth=0)
        for size in b.sizes():
            b.add(mn, "acc%d" % size, "%s %s" % (mn, rname("A", size)), [R("A", size, "acc")], size, "mul")
    for rs in (RS0, RS1) if m == 64 else (RS0,):
        for size in b.sizes((16, 32, 64)):
            d, s = rname(rs.dst, size), rname(rs.src, size)
            b.add("IMUL", "r%d,r%d" % (size, size), "IMUL %s, %s" % (d, s),
                  [R(rs.dst, size, "dst"), R(rs.src, size, "src")], size, "mul")
            mt, off, ptrs = b.mem(size, rs.base, 0x10)
            b.add("IMUL", "r%d,m%d" % (size, size), "IMUL %s, %s" % (d, mt),
                  [R(rs.dst, size, "dst"), M(off, size, "src")], size, "mul", ptrs=ptrs, depth=0)
            for iv in (imms_for(size) if rs is RS0 else [0x7F, 0xFFFFFFFFFFFFFFF0 & mask(size)]):
                b.add("IMUL", "r%d,r%d,imm" % (size, size), "IMUL %s, %s, %s" % (d, s, imm_text(iv, size)),
                      [R(rs.src, size, "src")], size, "mul", imm=iv & mask(size))
            for iv in (0x10, 0xFFFFFFFFFFFFFFF0 & mask(size), 0x1234):
                b.add("IMUL", "r%d,m%d,imm" % (size, size), "IMUL %s, %s, %s" % (d, mt, imm_text(iv, size)),
                      [M(off, size, "src")], size, "mul", imm=iv & mask(size), ptrs=ptrs, depth=0)
    for mn in ("DIV", "IDIV"):
        for rs in (RS0, RS2, RS1) if m == 64 else (RS0, RS2):
            for size in b.sizes():
                if rs.hi and size != 8:
                    continue
                s = rname(rs.dst, size, rs.hi)
                msb = 1 << (size - 1)
                dv = [0, 1, mask(size), 2, msb, msb - 1, 3, 0x10, 7 & mask(size)]
                lo = [0, 1, mask(size), msb, msb - 1, 5, 0x64 & mask(size), mask(size) - 1]
                hi = [0, 1, mask(size), msb, msb - 1, 2, msb >> 1, mask(size) - 1]
                if rs is not RS0:
                    dv, lo, hi = dv[:5], lo[:4], hi[:4]
                if size == 8:
                    slots = [R("A", 8, "lo", vals=lo), R("A", 8, "hi", hi=True, vals=hi)]
                else:
                    slots = [R("A", size, "lo", vals=lo), R("D", size, "hi", vals=hi)]
                b.add(mn, "r%d" % size, "%s %s" % (mn, s), slots + [R(rs.dst, size, "src", rs.hi, vals=dv)], size, "div")
                if rs.hi:
                    continue
                mt, off, ptrs = b.mem(size, rs.base, 0x10)
                b.add(mn, "m%d" % size, "%s %s" % (mn, mt), slots + [M(off, size, "src", vals=dv)], size, "div",
                      ptrs=ptrs, depth=0)

    # ---- conditional moves / sets --------------------------------------------------------
    ccs = list(CCS)      # miasm's assembler accepts none of the CC_ALIASES spellings (measured): not generated
    for cc in ccs:
        primary = cc in CCS
        for size in b.sizes((16, 32, 64)):
            d, s = rname("B", size), rname("D", size)
            two = [0x1111111111111111 & mask(size), mask(size)]
            b.add("CMOV" + cc, "r%d,r%d" % (size, size), "CMOV%s %s, %s" % (cc, d, s),
                  [R("B", size, "dst", vals=two[:1]), R("D", size, "src", vals=[0x2222222222222222 & mask(size)])], size,
                  "noflags", flagsets="cc" if primary else "std")
            if primary:
                mt, off, ptrs = b.mem(size, "SI", 0x10)
                b.add("CMOV" + cc, "r%d,m%d" % (size, size), "CMOV%s %s, %s" % (cc, d, mt),
                      [R("B", size, "dst", vals=two[:1]), M(off, size, "src", vals=[0x2222222222222222 & mask(size)])],
                      size, "noflags", ptrs=ptrs, flagsets="cc")
        b.add("SET" + cc, "r8", "SET%s BL" % cc, [R("B", 8, "dst", vals=[0xAA])], 8, "noflags",
              flagsets="cc" if primary else "std")
        if primary:
            b.add("SET" + cc, "r8h", "SET%s BH" % cc, [R("B", 8, "dst", hi=True, vals=[0xAA])], 8, "noflags", flagsets="cc")
            mt, off, ptrs = b.mem(8, "SI", 0x10)
            b.add("SET" + cc, "m8", "SET%s %s" % (cc, mt), [M(off, 8, "dst", vals=[0xAA])], 8, "noflags", ptrs=ptrs,
                  flagsets="cc")

    # ---- data movement with extension, bswap, lea, conversions ---------------------------
    for mn in ("MOVZX", "MOVSX"):
        for dsz in b.sizes((16, 32, 64)):
            for ssz in (8, 16):
                if ssz >= dsz:
                    continue
                for rs in (RS0, RS2, RS1) if m == 64 else (RS0, RS2):
                    if rs.hi and ssz != 8:
                        continue
                    if rs.hi and dsz == 64:
                        continue
                    d, s = rname(rs.dst, dsz), rname(rs.src, ssz, rs.hi)
                    b.add(mn, "r%d,r%d" % (dsz, ssz), "%s %s, %s" % (mn, d, s),
                          [R(rs.dst, dsz, "dst", vals=[mask(dsz)]), R(rs.src, ssz, "src", rs.hi)], dsz, "noflags")
                    if rs.hi:
                        continue
                    mt, off, ptrs = b.mem(ssz, rs.base, 0x10)
                    b.add(mn, "r%d,m%d" % (dsz, ssz), "%s %s, %s" % (mn, d, mt),
                          [R(rs.dst, dsz, "dst", vals=[mask(dsz)]), M(off, ssz, "src")], dsz, "noflags", ptrs=ptrs)
    if m == 64:
        b.add("MOVSXD", "r64,r32", "MOVSXD RBX, EDX", [R("B", 64, "dst", vals=[mask(64)]), R("D", 32, "src")], 64, "noflags")
        mt, off, ptrs = b.mem(32, "SI", 0x10)
        b.add("MOVSXD", "r64,m32", "MOVSXD RBX, %s" % mt, [R("B", 64, "dst", vals=[mask(64)]), M(off, 32, "src")], 64,
              "noflags", ptrs=ptrs)
    for size in b.sizes((32, 64)):
        for rs in (RS0, RS1, RS4) if m == 64 else (RS0, RS4):
            b.add("BSWAP", "r%d" % size, "BSWAP %s" % rname(rs.dst, size),
                  [R(rs.dst, 64 if m == 64 else 32, "dst", vals=[0x1122334455667788 & mask(m), 0x80000000000000ff & mask(m), 0])],
                  size, "noflags")
    for mn, sz in (("CBW", 16), ("CWDE", 32), ("CDQE", 64), ("CWD", 16), ("CDQ", 32), ("CQO", 64)):
        if sz > m:
            continue
        src = sz // 2 if mn in ("CBW", "CWDE", "CDQE") else sz
        b.add(mn, "-", mn, [R("A", m, "acc", vals=[0, mask(m), (1 << (src - 1)), (1 << (src - 1)) - 1,
                                                 0x1234567880ff7f80 & mask(m), 0x8000000000000000 & mask(m)]),
                            R("D", m, "dx", vals=[0x5555555555555555 & mask(m)])], sz, "noflags")
    # LEA: addressing arithmetic on arbitrary register values (no memory access)
    leav = [0, 1, mask(m), 1 << (m - 1), 0x7fffffff, 0x80000000, 0xffffffff, 0x12345678]
    for dsz in b.sizes((16, 32, 64)):
        for asz in ((32, 64) if m == 64 else (32,)):
            d = rname("B", dsz)
            forms = [("%s", "b"), ("%s+0x10", "b+d8"), ("%s-0x80", "b-d8"), ("%s+0x12345678", "b+d32"),
                     ("%s+%s*1", "b+i"), ("%s+%s*4+0x10", "b+i*4+d8"), ("%s+%s*8-0x12345678", "b+i*8-d32"),
                     ("%s*2+0x0", "i*2") if False else ("%s+%s*2", "b+i*2")]
            for ft, fn in forms:
                bs, ix = FAM["SI"][asz], FAM["DI"][asz]
                at = ft % ((bs, ix) if ft.count("%s") == 2 else (bs,))
                sl = [R("SI", asz, "base", vals=leav), R("B", m, "dst", vals=[mask(m)])]
                if ft.count("%s") == 2:
                    sl.insert(1, R("DI", asz, "index", vals=leav[:6]))
                b.add("LEA", "r%d,[%s]a%d" % (dsz, fn, asz), "LEA %s, %s PTR [%s]" % (d, PTRNAME[dsz], at), sl, dsz,
                      "noflags")
        if m == 64:
            b.add("LEA", "r%d,[rex]" % dsz, "LEA %s, %s PTR [R13+R12*2+0x7F]" % (rname("R9", dsz), PTRNAME[dsz]),
                  [R("R13", 64, "base", vals=leav), R("R12", 64, "index", vals=leav[:6]), R("R9", 64, "dst", vals=[mask(64)])],
                  dsz, "noflags")
    # flag manipulation
    for mn in ("CMC", "CLC", "STC", "CLD", "STD", "NOP"):
        b.add(mn, "-", mn, [], 8, "noflags", flagsets="df" if mn in ("CLD", "STD") else "cf")
    b.add("LAHF", "-", "LAHF", [R("A", m, "acc", vals=[0, mask(m)])], 8, "noflags", flagsets="all6")
    b.add("SAHF", "-", "SAHF", [R("A", 8, "ah", hi=True, vals=[0, 0xff, 0xd5, 0x2a, 0x01, 0x40, 0x80, 0x10, 0x04])], 8,
          "noflags", flagsets="std")
    b.add("XLAT", "-", "XLAT", [R("A", m, "acc", vals=[0, 1, 0x7f, 0x80, 0xff, 0x1234ff80 & mask(m)])], 8, "noflags",
          ptrs={"B": BASE_OFF}, ltext="xlatb")
    # addressing forms on a few memory instructions
    for size in b.sizes((8, 32, 64) if m == 64 else (8, 32)):
        for (disp, index, scale, a32, fn) in ((0, None, 1, False, "b"), (0x7F, None, 1, False, "b+d8"),
                                               (-0x80, None, 1, False, "b-d8"), (0x200, None, 1, False, "b+d32"),
                                               (-0x400, None, 1, False, "b-d32"), (0x10, "DI", 1, False, "b+i+d8"),
                                               (0x10, "DI", 8, False, "b+i*8+d8"), (-0x200, "DI", 4, False, "b+i*4-d32"),
                                               (0x10, None, 1, True, "a32:b+d8"), (0x10, "DI", 2, True, "a32:b+i*2+d8")):
            if a32 and m != 64:
                continue
            for base in ("SI", "BP") + (("R12", "R13") if m == 64 and not a32 else ()):
                if index == base:
                    continue
                mt, off, ptrs = b.mem(size, base, disp, index, scale, a32)
                d = rname("D", size)
                b.add("MOV", "r%d,m%d[%s]" % (size, size, fn), "MOV %s, %s" % (d, mt),
                      [R("D", size, "dst", vals=[mask(size)]), M(off, size, "src", vals=[0x1122334455667788 & mask(size), 0])],
                      size, "noflags", ptrs=ptrs, t2=size == 8)
                b.add("ADD", "m%d[%s],r%d" % (size, fn, size), "ADD %s, %s" % (mt, d),
                      [M(off, size, "dst", vals=[1, mask(size)]), R("D", size, "src", vals=[1, mask(size) >> 1])], size, "arith",
                      ptrs=ptrs, t2=size != 32)

    # ---- string instructions -------------------------------------------------------------
    sfx = {8: "B", 16: "W", 32: "D", 64: "Q"}
    for size in b.sizes():
        n = size // 8
        acc_vals = [0, mask(size), 0x1122334455667788 & mask(size), 1 << (size - 1)]
        # window layout: source block at 0x400.., destination block at 0xA00..
        for base, prefixes, grp in (("MOVS", ("", "REP "), "noflags"), ("STOS", ("", "REP "), "noflags"),
                                    ("LODS", ("", "REP "), "noflags"), ("CMPS", ("", "REPE ", "REPNE "), "strcmp"),
                                    ("SCAS", ("", "REPE ", "REPNE "), "strcmp")):
            mn = base + sfx[size]
            for pre in prefixes:
                slots = []
                ptrs = {}
                if base in ("MOVS", "CMPS", "LODS"):
                    ptrs["SI"] = 0x400
                if base in ("MOVS", "CMPS", "STOS", "SCAS"):
                    ptrs["DI"] = 0xA00
                if base in ("STOS", "SCAS", "LODS"):
                    slots.append(R("A", m, "acc", vals=[(0xEEEEEEEEEEEEEEEE << size | v) & mask(m) for v in acc_vals]
                                   if base != "LODS" else [mask(m)]))
                if base in ("CMPS", "SCAS"):
                    # pattern selector: which memory content is compared (set up by the harness from the slot value)
                    slots.append(Slot("pat", "pat", size, vals=[0, 1, 2, 3, 4] if base == "CMPS" else [0, 1, 2, 3]))
                if pre:
                    slots.append(R("C", m, "cnt", vclass="rep"))
                else:
                    slots.append(R("C", m, "cnt", vals=[0x5555555555555555 & mask(m)]))
                b.add(pre.strip() + ("_" if pre else "") + mn, "-", pre + mn, slots, size, grp, ptrs=ptrs, flagsets="df")

    # ---- SSE / SSE2 integer --------------------------------------------------------------
    def X(idx, name, vclass="vec", vals=None):
        return Slot(name, "xmm", 128, idx=idx, vclass=vclass, vals=vals)

    # 32-bit mode runs the same sem.py code for SSE: quick tier keeps the memory forms and a few others there
    b.t2 = (m == 32)
    vec2 = ["PADDB", "PADDW", "PADDD", "PADDQ", "PSUBB", "PSUBW", "PSUBD", "PSUBQ", "PAND", "PANDN", "POR", "PXOR",
            "PCMPEQB", "PCMPEQW", "PCMPEQD", "PCMPEQQ", "PCMPGTB", "PCMPGTW", "PCMPGTD", "PCMPGTQ",
            "PUNPCKLBW", "PUNPCKLWD", "PUNPCKLDQ", "PUNPCKLQDQ", "PUNPCKHBW", "PUNPCKHWD", "PUNPCKHDQ", "PUNPCKHQDQ",
            "PMULLW", "PMULHW", "PMULHUW", "PMULUDQ", "PMADDWD", "PSADBW", "PAVGB", "PAVGW",
            "PMAXUB", "PMAXUW", "PMAXUD", "PMAXSW", "PMINUB", "PMINUW", "PMINUD", "PMINSW",
            "PADDSB", "PADDSW", "PADDUSB", "PADDUSW", "PSUBSB", "PSUBSW", "PSUBUSB", "PSUBUSW",
            "PACKSSWB", "PACKSSDW", "PACKUSWB", "PSHUFB",
            "ANDPS", "ANDPD", "ANDNPS", "ANDNPD", "ORPS", "ORPD", "XORPS", "XORPD",
            "UNPCKLPS", "UNPCKLPD", "UNPCKHPS", "UNPCKHPD",
            "MOVDQA", "MOVDQU", "MOVAPS", "MOVUPS", "MOVAPD", "MOVUPD"]
    for mn in vec2:
        moves = mn.startswith("MOV")
        b.add(mn, "x,x", "%s XMM1, XMM2" % mn, [X(1, "dst"), X(2, "src")], 128, "noflags", depth=0 if moves else 1)
        mt, off, ptrs = b.mem(128, "SI", 0x20)
        keep = b.t2
        b.t2 = False
        b.add(mn, "x,m128", "%s XMM1, %s" % (mn, mt), [X(1, "dst"), M(off, 128, "src", vclass="vec")], 128, "noflags",
              ptrs=ptrs, depth=0)
        b.t2 = keep
        b.add(mn, "x,same", "%s XMM3, XMM3" % mn, [X(3, "dst")], 128, "noflags", t2=mn not in ("PXOR", "PSUBB", "PCMPEQD", "PANDN", "PUNPCKLBW"))
        if m == 64:
            b.add(mn, "x,x(rex)", "%s XMM9, XMM14" % mn, [X(9, "dst"), X(14, "src")], 128, "noflags", depth=0,
                  t2=mn not in ("PADDB", "PSHUFB", "MOVDQA", "PUNPCKHWD", "XORPS"))
        if moves:
            b.add(mn, "m128,x", "%s %s, XMM2" % (mn, mt), [M(off, 128, "dst", vclass="vec", vals=[0]), X(2, "src")], 128,
                  "noflags", ptrs=ptrs, depth=0)
    for mn in ("MOVLHPS", "MOVHLPS", "MOVSS", "MOVSD", "MOVQ"):
        b.add(mn, "x,x", "%s XMM1, XMM2" % mn, [X(1, "dst"), X(2, "src")], 128, "noflags", depth=0)
    for mn, sz in (("MOVSS", 32), ("MOVSD", 64), ("MOVQ", 64), ("MOVLPS", 64), ("MOVHPS", 64), ("MOVLPD", 64), ("MOVHPD", 64),
                   ("MOVD", 32)):
        mt, off, ptrs = b.mem(sz, "SI", 0x20)
        b.add(mn, "x,m%d" % sz, "%s XMM1, %s" % (mn, mt), [X(1, "dst", vals=[mask(128), 0]), M(off, sz, "src")], 128,
              "noflags", ptrs=ptrs, depth=0)
        b.add(mn, "m%d,x" % sz, "%s %s, XMM2" % (mn, mt), [M(off, sz, "dst", vals=[0]), X(2, "src")], 128, "noflags",
              ptrs=ptrs, depth=0)
    for mn, sz in (("MOVD", 32), ("MOVQ", 64)):
        if sz > m:
            continue
        b.add(mn, "x,r%d" % sz, "%s XMM1, %s" % (mn, rname("B", sz)), [X(1, "dst", vals=[mask(128)]), R("B", sz, "src")], 128,
              "noflags")
        b.add(mn, "r%d,x" % sz, "%s %s, XMM2" % (mn, rname("B", sz)), [R("B", m, "dst", vals=[mask(m)]), X(2, "src")], 128,
              "noflags")
    # SSE min/max/compare: pure bit-level semantics in miasm (no float arithmetic), so comparable exactly
    # (operands: +-0, +-1.5, +-inf, quiet/signalling NaN, denormals, largest finite)
    fcmp = ["MIN", "MAX"] + ["CMP" + c for c in ("EQ", "LT", "LE", "UNORD", "NEQ", "NLT", "NLE", "ORD")]
    for base in fcmp:
        for sfx, vc in (("SS", "fvec32"), ("PS", "fvec32"), ("SD", "fvec64"), ("PD", "fvec64")):
            mn = base + sfx
            b.add(mn, "x,x", "%s XMM1, XMM2" % mn, [X(1, "dst", vclass=vc), X(2, "src", vclass=vc)], 128, "noflags",
                  cap=None if thorough else 80)
            esz = 128 if sfx[0] == "P" else (32 if sfx == "SS" else 64)
            mt, off, ptrs = b.mem(esz, "SI", 0x20)
            b.add(mn, "x,m%d" % esz, "%s XMM1, %s" % (mn, mt),
                  [X(1, "dst", vclass=vc), M(off, esz, "src", vals=(F32 if vc == "fvec32" else F64) if esz < 128 else None,
                                            vclass=vc)], 128, "noflags", ptrs=ptrs, depth=0)
    for mn in ("PSHUFD", "PSHUFLW", "PSHUFHW", "SHUFPS", "SHUFPD", "PALIGNR"):
        for iv in (0x00, 0x1B, 0xE4, 0xFF, 0x4E, 0x93, 0x01, 0x10, 0x08, 0x0F, 0x11, 0x20):
            b.add(mn, "x,x,imm8", "%s XMM1, XMM2, 0x%X" % (mn, iv), [X(1, "dst", vals=vals_vec()[2:6]), X(2, "src", vals=vals_vec()[2:8])],
                  128, "noflags", imm=iv)
        mt, off, ptrs = b.mem(128, "SI", 0x20)
        b.add(mn, "x,m128,imm8", "%s XMM1, %s, 0x1B" % (mn, mt), [X(1, "dst", vals=vals_vec()[2:5]), M(off, 128, "src", vclass="vec")], 128,
              "noflags", imm=0x1B, ptrs=ptrs, depth=0)
    for mn, esz in (("PSLLW", 16), ("PSLLD", 32), ("PSLLQ", 64), ("PSRLW", 16), ("PSRLD", 32), ("PSRLQ", 64), ("PSRAW", 16),
                    ("PSRAD", 32)):
        for iv in (0, 1, esz - 1, esz, esz + 1, 0xFF, 7, 8):
            b.add(mn, "x,imm8", "%s XMM1, 0x%X" % (mn, iv), [X(1, "dst")], 128, "noflags", imm=iv)
        b.add(mn, "x,x", "%s XMM1, XMM2" % mn, [X(1, "dst", vals=vals_vec()[2:7]), X(2, "cnt", vclass="veccount")], 128, "noflags")
        mt, off, ptrs = b.mem(128, "SI", 0x20)
        b.add(mn, "x,m128", "%s XMM1, %s" % (mn, mt), [X(1, "dst", vals=vals_vec()[2:5]), M(off, 128, "cnt", vclass="veccount")], 128,
              "noflags", ptrs=ptrs, depth=0)
    for mn in ("PSLLDQ", "PSRLDQ"):
        for iv in (0, 1, 7, 8, 15, 16, 17, 0xFF):
            b.add(mn, "x,imm8", "%s XMM1, 0x%X" % (mn, iv), [X(1, "dst")], 128, "noflags", imm=iv)
    for mn, esz, n in (("PEXTRB", 8, 16), ("PEXTRW", 16, 8), ("PEXTRD", 32, 4)):
        if esz > m:
            continue
        rsz = max(32, esz)
        for iv in (0, 1, n - 1, n, 0xFF):
            b.add(mn, "r,x,imm8", "%s %s, XMM2, 0x%X" % (mn, rname("B", rsz), iv), [R("B", m, "dst", vals=[mask(m)]), X(2, "src")],
                  128, "noflags", imm=iv)
    for mn, esz, n in (("PINSRB", 8, 16), ("PINSRW", 16, 8), ("PINSRD", 32, 4)):
        if esz > m:
            continue
        rsz = max(32, esz)
        for iv in (0, 1, n - 1, n, 0xFF):
            b.add(mn, "x,r,imm8", "%s XMM1, %s, 0x%X" % (mn, rname("B", rsz), iv),
                  [X(1, "dst", vals=[0, mask(128), vals_vec()[2]]), R("B", rsz, "src", vals=[0, mask(rsz), 0x12345678, 0x80 << (esz - 8)])],
                  128, "noflags", imm=iv)
    for mn in ("PMOVMSKB", "MOVMSKPS", "MOVMSKPD"):
        b.add(mn, "r32,x", "%s EBX, XMM2" % mn, [R("B", m, "dst", vals=[mask(m)]), X(2, "src")], 128, "noflags")

    b.t2 = False
    # ---- instructions that exist only outside long mode: judged against the SDM model ---------------
    if m == 32:
        ahq = [0, 0xff, 0x7f, 0x09, 0x80, 0xfe, 0x55, 0x01]
        ah = list(range(256)) if thorough else ahq[:4]
        al = list(range(256))
        # thorough: every AX x AF (CF is not an input of AAA/AAS); quick: every AL x 4 AH x AF/CF combinations
        b.add("AAA", "-", "AAA", [R("A", 8, "al", vals=al), R("A", 8, "ah", hi=True, vals=ah)], 8, "model",
              flagsets="af" if thorough else "afcf", model="aaa", cap=10 ** 9)
        b.add("AAS", "-", "AAS", [R("A", 8, "al", vals=al), R("A", 8, "ah", hi=True, vals=ah)], 8, "model",
              flagsets="af" if thorough else "afcf", model="aas", cap=10 ** 9)
        b.add("DAA", "-", "DAA", [R("A", 8, "al", vals=al), R("A", 8, "ah", hi=True, vals=[0x5a])], 8, "model",
              flagsets="afcf", model="daa", cap=10 ** 9)
        b.add("DAS", "-", "DAS", [R("A", 8, "al", vals=al), R("A", 8, "ah", hi=True, vals=[0x5a])], 8, "model",
              flagsets="afcf", model="das", cap=10 ** 9)
        for iv in (0x0A, 0x10, 0xFF, 0x00, 0x07, 0x01, 0x02)[:7 if thorough else 5]:
            b.add("AAM", "imm8", "AAM 0x%X" % iv, [R("A", 8, "al", vals=al), R("A", 8, "ah", hi=True, vals=[0x5a, 0])], 8,
                  "model", flagsets="std", model="aam", imm=iv, cap=10 ** 9)
            b.add("AAD", "imm8", "AAD 0x%X" % iv, [R("A", 8, "al", vals=al), R("A", 8, "ah", hi=True, vals=ah if thorough and iv == 0x0A else ahq[:3])],
                  8, "model", flagsets="std", model="aad", imm=iv, cap=10 ** 9)
    return b.out


# ---------------------------------------------------------------------------------------------
# what the SDM leaves undefined

UNDEF_DOC = {
    "arith": "ADD/ADC/SUB/SBB/CMP/NEG/INC/DEC/XADD/CMPXCHG: all six status flags are defined (INC/DEC leave CF unchanged).",
    "logic": "AND/OR/XOR/TEST: 'The OF and CF flags are cleared; the SF, ZF, and PF flags are set according to the result. "
             "The state of the AF flag is undefined.'",
    "noflags": "MOV/XCHG/NOT/BSWAP/LEA/MOVZX/MOVSX/CMOVcc/SETcc/CBW../LAHF/string moves/SSE integer: no flag is affected "
               "(all seven compared, must be unchanged); SAHF/CMC/CLC/STC/CLD/STD affect only the flags they name.",
    "shift": "SAL/SAR/SHL/SHR: count masked to 5 bits (6 with REX.W); masked count 0: no flag affected; otherwise 'The CF "
             "flag contains the value of the last bit shifted out of the destination operand; it is undefined for SHL and "
             "SHR instructions where the count is greater than or equal to the size (in bits) of the destination operand. "
             "The OF flag is affected only for 1-bit shifts; otherwise, it is undefined. The SF, ZF, and PF flags are set "
             "according to the result. For a non-zero count, the AF flag is undefined.'",
    "rotate": "RCL/RCR/ROL/ROR: 'If the masked count is 0, the flags are not affected. If the masked count is 1, then the OF "
              "flag is affected, otherwise (masked count is greater than 1) the OF flag is undefined. The CF flag is affected "
              "when the masked count is nonzero. The SF, ZF, AF, and PF flags are always unaffected.'",
    "shiftd": "SHLD/SHRD: count masked to 5 bits (6 with REX.W); 'If the count is 0, the flags are not affected'; 'If the "
              "count is greater than the operand size, the result is undefined' (destination and flags: case dropped); "
              "otherwise CF = last bit shifted out, SF/ZF/PF per result, 'For a 1-bit shift, the OF flag is set if a sign "
              "change occurred; otherwise, it is cleared. For shifts greater than 1 bit, the OF flag is undefined', AF undefined.",
    "bt": "BT/BTS/BTR/BTC: 'The CF flag contains the value of the selected bit before it is [changed]. The ZF flag is "
          "unaffected. The OF, SF, AF, and PF flags are undefined.'",
    "bscan": "BSF/BSR: 'The ZF flag is set to 1 if the source operand is 0; otherwise, the ZF flag is cleared. The CF, OF, SF, "
             "AF, and PF flags are undefined.'  'If the content of the source operand is 0, the content of the destination "
             "operand is undefined' (destination register not compared then).",
    "mul": "MUL/IMUL: 'The OF and CF flags are set to 0 if the upper half of the result is 0 [resp. when the result fits]; "
           "otherwise, they are set to 1. The SF, ZF, AF, and PF flags are undefined.'",
    "div": "DIV/IDIV: 'The CF, OF, SF, ZF, AF, and PF flags are undefined.'  #DE on a zero divisor or a quotient too large.",
    "strcmp": "CMPS/SCAS: all six status flags defined as for CMP; with a REP prefix and a zero count no flag is affected.",
    "cmpxchg8b": "CMPXCHG8B/16B: 'The ZF flag is set if the destination operand and EDX:EAX are equal; otherwise it is "
                 "cleared. The CF, PF, AF, SF, and OF flags are unaffected.'",
    "model": "AAA/AAS: AF and CF defined, 'The OF, SF, ZF, and PF flags are undefined'; DAA/DAS: 'The CF and AF flags are "
             "set [per the adjustment]. The SF, ZF, and PF flags are set according to the result. The OF flag is undefined'; "
             "AAM/AAD: 'The SF, ZF, and PF flags are set according to the resulting binary value in the AL register. The OF, "
             "AF, and CF flags are undefined.'",
}


def count_mask(size):
    return 0x3F if size == 64 else 0x1F


def undefined(tpl, vals):
    """-> (set of undefined flag names, set of undefined register families, drop_reason | None)
    vals: {slot name: value}"""
    g = tpl.group
    mn = tpl.mn
    size = tpl.size
    none = set()
    if g in ("arith", "noflags", "strcmp", "cmpxchg8b"):
        return none, none, None
    if g == "logic":
        return {"af"}, none, None
    if g in ("shift", "rotate", "shiftd"):
        cnt = vals["cnt"] if "cnt" in vals else tpl.imm
        c = cnt & count_mask(size)
        if c == 0:
            return none, none, None
        if g == "rotate":
            return (none if c == 1 else {"of"}), none, None
        if g == "shiftd" and c > size:
            return none, none, "SHLD/SHRD count greater than the operand size: result undefined"
        u = {"af"}
        if c != 1:
            u.add("of")
        if g == "shift" and mn in ("SHL", "SAL", "SHR") and c >= size:
            u.add("cf")
        return u, none, None
    if g in ("bt", "btmem"):
        return {"of", "nf", "af", "pf"}, none, None
    if g == "bscan":
        ur = set()
        if vals["src"] == 0:
            ur.add(tpl.slot("dst").fam if tpl.slot("dst") is not None else tpl.slot("src").fam)
        return {"cf", "of", "nf", "af", "pf"}, ur, None
    if g == "mul":
        return {"nf", "zf", "af", "pf"}, none, None
    if g == "div":
        return set(STATUS), none, None
    if g == "model":
        if mn in ("AAA", "AAS"):
            return {"of", "nf", "zf", "pf"}, none, None
        if mn in ("DAA", "DAS"):
            return {"of"}, none, None
        return {"of", "af", "cf"}, none, None
    raise KeyError(g)


# ---------------------------------------------------------------------------------------------
# SDM pseudo-code models (Vol. 2A, AAA / AAS / DAA / DAS / AAM / AAD), 32-bit mode

def _szp(al):
    return {"zf": int(al == 0), "nf": al >> 7 & 1, "pf": int(bin(al).count("1") % 2 == 0)}


def model(name, al, ah, af, cf, imm=None):
    """-> dict(al, ah, flags {name: value} for the defined flags) or 'DE'"""
    if name == "aaa":
        if (al & 0xF) > 9 or af:
            ax = ((ah << 8 | al) + 0x106) & 0xFFFF
            al, ah = ax & 0xFF, ax >> 8
            af = cf = 1
        else:
            af = cf = 0
        al &= 0xF
        return {"al": al, "ah": ah, "flags": {"af": af, "cf": cf}}
    if name == "aas":
        if (al & 0xF) > 9 or af:
            ax = ((ah << 8 | al) - 6) & 0xFFFF
            al, ah = ax & 0xFF, ax >> 8
            ah = (ah - 1) & 0xFF
            af = cf = 1
        else:
            af = cf = 0
        al &= 0xF
        return {"al": al, "ah": ah, "flags": {"af": af, "cf": cf}}
    if name == "daa":
        old_al, old_cf = al, cf
        cf = 0
        if (al & 0xF) > 9 or af:
            cf = old_cf | int(al + 6 > 0xFF)
            al = (al + 6) & 0xFF
            af = 1
        else:
            af = 0
        if old_al > 0x99 or old_cf:
            al = (al + 0x60) & 0xFF
            cf = 1
        else:
            cf = 0
        fl = {"af": af, "cf": cf}
        fl.update(_szp(al))
        return {"al": al, "ah": ah, "flags": fl}
    if name == "das":
        old_al, old_cf = al, cf
        cf = 0
        if (al & 0xF) > 9 or af:
            cf = old_cf | int(al < 6)
            al = (al - 6) & 0xFF
            af = 1
        else:
            af = 0
        if old_al > 0x99 or old_cf:
            al = (al - 0x60) & 0xFF
            cf = 1
        fl = {"af": af, "cf": cf}
        fl.update(_szp(al))
        return {"al": al, "ah": ah, "flags": fl}
    if name == "aam":
        if imm == 0:
            return "DE"
        ah, al = al // imm, al % imm
        return {"al": al, "ah": ah, "flags": _szp(al)}
    if name == "aad":
        al = (al + ah * imm) & 0xFF
        return {"al": al, "ah": 0, "flags": _szp(al)}
    raise KeyError(name)
