"""Hypothesis glue: survey runs (never-failing @given that collects failures) and model-based
histories (a Sim object stepped by a generated op list; failures shrink as one value).

Histories
---------
A *Sim* is a plain class:   sim = Sim(); sim.step(op) for op in ops; sim.finish()
`op` is a JSON-serialisable tuple/list (name, arg, ...).  A discrepancy between the real
object and the model raises CheckFailure(bucket, detail).  Histories are generated as
`st.lists(op_strategy)` (or any strategy producing a JSON-serialisable history), so the
whole history shrinks as one value and the replay file is just the op list:
replaying = running the Sim on the list, without Hypothesis.
"""
import time

from hypothesis import given, settings, seed as hseed, HealthCheck, Phase, find
from hypothesis.errors import NoSuchExample

from vlib.runner import Failure


class CheckFailure(Exception):
    def __init__(self, bucket, detail):
        Exception.__init__(self, "%s: %s" % (bucket, detail))
        self.bucket = bucket
        self.detail = detail


def base_settings(n, shrink=False):
    phases = [Phase.generate, Phase.shrink] if shrink else [Phase.generate]
    return settings(max_examples=n, database=None, deadline=None, derandomize=False,
                    report_multiple_bugs=False, suppress_health_check=list(HealthCheck), phases=phases)


def survey(strategy, n, seed, fn):
    """Call fn(value) for n generated values; fn must not raise (collect failures itself)."""
    @hseed(seed)
    @base_settings(n)
    @given(strategy)
    def t(v):
        fn(v)
    t()


def run_history(sim_factory, ops):
    """-> None | CheckFailure.  Any other exception propagates (harness error) unless the
    Sim converts it itself."""
    sim = sim_factory()
    try:
        try:
            for op in ops:
                sim.step(op)
            fin = getattr(sim, "finish", None)
            if fin:
                fin()
        finally:
            close = getattr(sim, "close", None)
            if close:
                close()
    except CheckFailure as f:
        return f
    return None


def shrink_history(history_strategy, sim_factory, bucket, seed, budget_s=60, max_examples=2000, first=None):
    """Minimise a failing history keeping the bucket.  Hypothesis' shrinker does the work; the
    predicate gives up (returns False) after budget_s so the shrinker stops early.  Returns
    the smallest history seen, or `first`."""
    t0 = time.time()
    best = [first]

    def pred(ops):
        if time.time() - t0 > budget_s:
            return False
        f = run_history(sim_factory, ops)
        if f is not None and f.bucket == bucket:
            best[0] = ops
            return True
        return False
    import random
    try:
        r = find(history_strategy, pred, settings=settings(max_examples=max_examples, database=None, deadline=None,
                                                           suppress_health_check=list(HealthCheck)),
                 random=random.Random(seed))
        return r
    except NoSuchExample:
        return best[0]
    except Exception:
        return best[0]


def ddmin_list(ops, still_fails, budget=400):
    """Plain delta-debugging over a list (used in the quick tier instead of the Hypothesis shrinker)."""
    ops = list(ops)
    calls = 0
    n = 2
    while len(ops) >= 2 and calls < budget:
        chunk = max(1, len(ops) // n)
        reduced = False
        for i in range(0, len(ops), chunk):
            cand = ops[:i] + ops[i + chunk:]
            calls += 1
            if cand and still_fails(cand):
                ops = cand
                n = max(n - 1, 2)
                reduced = True
                break
            if calls >= budget:
                break
        if not reduced:
            if chunk == 1:
                break
            n = min(n * 2, len(ops))
    return ops


def survey_histories(res, history_strategy, sim_factory, n, seed, nontrivial=None, sample_every=50,
                     case_of=lambda ops: {"ops": ops}):
    """Run n generated histories; record failures (bucket, detail, case) into ShardResult res.
    nontrivial(ops, sim_stats) -> key or None."""
    cnt = [0]

    def one(ops):
        cnt[0] += 1
        f = run_history(sim_factory, ops)
        key = nontrivial(ops) if nontrivial else repr(ops)
        res.case(nontrivial_key=(repr(ops) if key else None),
                 sample=case_of(ops) if (key and cnt[0] % sample_every == 1) else None)
        res.counters["history_steps"] += len(ops)
        if f is not None:
            res.fail(f.bucket, f.detail, case_of(ops))
    survey(history_strategy, n, seed, one)


def replay_history(sim_factory, case, key="ops"):
    f = run_history(sim_factory, case[key])
    if f is None:
        return None
    return Failure(f.bucket, f.detail, case)
