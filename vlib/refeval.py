"""S — reference evaluator of miasm expressions over plain Python integers.

Written from the statement of property C03 (fixed-width two's-complement machine
arithmetic) and the explicit flag formulas; imports nothing from
miasm.expression.simplifications*.  Only the *structure* of expressions is read
(class name, op, args, size, start/stop, ptr, cond/src1/src2, int value, name).
"""
import hashlib


class Undefined(Exception):
    """the reference semantics leaves the value undefined (division by zero)"""


class Uninterpreted(Exception):
    """operator with no evaluation rule (fpu, segm, call_*, FLAG_SIGN_ADD, ...)"""


def mask(w):
    return (1 << w) - 1


def to_signed(v, w):
    v &= mask(w)
    return v - (1 << w) if v >> (w - 1) else v


def _h(*parts):
    return hashlib.blake2b(repr(parts).encode(), digest_size=16).digest()


class Env(object):
    """ids: name -> int (looked up by (name, size) first, then name); memory is a total
    function: cells not set explicitly are a keyed hash of (ptr_width, addr)."""

    def __init__(self, ids=None, mem=None, big_endian=False, key=0, locs=None, uninterp_hash=False):
        self.ids = ids or {}
        self.mem = mem if mem is not None else {}
        self.big_endian = big_endian
        self.key = key
        self.locs = locs or {}
        self.touched = []          # [(ptr_width, addr)] in read order
        self.uninterp_hash = uninterp_hash

    def read_byte(self, pw, addr):
        addr &= mask(pw)
        k = (pw, addr)
        self.touched.append(k)
        if k in self.mem:
            return self.mem[k]
        return _h("mem", self.key, pw, addr)[0]

    def read_id(self, name, size):
        if (name, size) in self.ids:
            return self.ids[(name, size)] & mask(size)
        if name in self.ids:
            return self.ids[name] & mask(size)
        return int.from_bytes(_h("id", self.key, name, size), "little") & mask(size)


def parity8(v):
    """1 when the low byte has an even number of set bits"""
    return 1 - (bin(v & 0xFF).count("1") & 1)


def _addc(a, b, c, w):
    r = a + b + c
    cf = (r >> w) & 1
    r &= mask(w)
    sa, sb, sr = a >> (w - 1), b >> (w - 1), r >> (w - 1)
    of = 1 if (sa == sb and sr != sa) else 0
    return r, cf, of


def _subb(a, b, c, w):
    r = a - b - c
    cf = 1 if r < 0 else 0
    r &= mask(w)
    sa, sb, sr = a >> (w - 1), b >> (w - 1), r >> (w - 1)
    of = 1 if (sa != sb and sr != sa) else 0
    return r, cf, of


def eval_op(op, vals, sizes, w, env=None):
    """vals: operand values (already masked to sizes), w: result width."""
    n = len(vals)
    if op == '+':
        return sum(vals) & mask(w)
    if op == '*':
        r = 1
        for v in vals:
            r = (r * v) & mask(w)
        return r
    if op == '^':
        r = 0
        for v in vals:
            r ^= v
        return r
    if op == '&':
        r = mask(w)
        for v in vals:
            r &= v
        return r
    if op == '|':
        r = 0
        for v in vals:
            r |= v
        return r
    if op == '-':
        if n == 1:
            return (-vals[0]) & mask(w)
        if n == 2:
            return (vals[0] - vals[1]) & mask(w)
        raise Uninterpreted(op)
    if op == '**':
        if n != 2:
            raise Uninterpreted(op)
        return pow(vals[0], vals[1], 1 << w)
    if op in ('<<', '>>', 'a>>', '<<<', '>>>'):
        if n != 2:
            raise Uninterpreted(op)
        a, c = vals
        if op == '<<':
            return 0 if c >= w else (a << c) & mask(w)
        if op == '>>':
            return 0 if c >= w else a >> c
        if op == 'a>>':
            s = to_signed(a, w)
            if c >= w:
                return mask(w) if s < 0 else 0
            return (s >> c) & mask(w)
        c %= w
        if op == '<<<':
            return ((a << c) | (a >> (w - c))) & mask(w)
        return ((a >> c) | (a << (w - c))) & mask(w)
    if op in ('/', '%', 'udiv', 'umod', 'sdiv', 'smod'):
        if n != 2:
            raise Uninterpreted(op)
        a, b = vals
        if b == 0:
            raise Undefined(op)
        if op in ('/', 'udiv'):
            return (a // b) & mask(w)
        if op in ('%', 'umod'):
            return (a % b) & mask(w)
        sa, sb = to_signed(a, w), to_signed(b, w)
        q = abs(sa) // abs(sb)
        if (sa < 0) != (sb < 0):
            q = -q
        if op == 'sdiv':
            return q & mask(w)
        return (sa - q * sb) & mask(w)
    if op == 'cntleadzeros':
        a, s = vals[0], sizes[0]
        return (s - a.bit_length()) & mask(w)
    if op == 'cnttrailzeros':
        a, s = vals[0], sizes[0]
        if a == 0:
            return s & mask(w)
        return ((a & -a).bit_length() - 1) & mask(w)
    if op == 'parity':
        return parity8(vals[0])
    if op.startswith('zeroExt_'):
        return vals[0]
    if op.startswith('signExt_'):
        return to_signed(vals[0], sizes[0]) & mask(w)
    if op == '==':
        return 1 if vals[0] == vals[1] else 0
    if op == '<u':
        return 1 if vals[0] < vals[1] else 0
    if op == '<=u':
        return 1 if vals[0] <= vals[1] else 0
    if op == '<s':
        return 1 if to_signed(vals[0], sizes[0]) < to_signed(vals[1], sizes[1]) else 0
    if op == '<=s':
        return 1 if to_signed(vals[0], sizes[0]) <= to_signed(vals[1], sizes[1]) else 0
    if op.startswith('FLAG_'):
        s = sizes[0]
        if op == 'FLAG_EQ':
            return 1 if vals[0] == 0 else 0
        if op == 'FLAG_EQ_AND':
            return 1 if (vals[0] & vals[1]) == 0 else 0
        if op == 'FLAG_EQ_CMP':
            return 1 if vals[0] == vals[1] else 0
        if op == 'FLAG_SIGN_SUB':
            return _subb(vals[0], vals[1], 0, s)[0] >> (s - 1)
        if op == 'FLAG_ADD_CF':
            return _addc(vals[0], vals[1], 0, s)[1]
        if op == 'FLAG_ADD_OF':
            return _addc(vals[0], vals[1], 0, s)[2]
        if op == 'FLAG_SUB_CF':
            return _subb(vals[0], vals[1], 0, s)[1]
        if op == 'FLAG_SUB_OF':
            return _subb(vals[0], vals[1], 0, s)[2]
        if n == 3:
            a, b, c = vals
            # the third operand is zero-extended to the operand width (explicit formulas)
            if op in ('FLAG_EQ_ADDWC', 'FLAG_SIGN_ADDWC', 'FLAG_ADDWC_CF', 'FLAG_ADDWC_OF'):
                r = (a + b + c) & mask(s)
                if op == 'FLAG_EQ_ADDWC':
                    return 1 if r == 0 else 0
                if op == 'FLAG_SIGN_ADDWC':
                    return r >> (s - 1)
                if c > 1:
                    raise Uninterpreted(op + ":wide-carry")
                _, cf, of = _addc(a, b, c, s)
                return cf if op == 'FLAG_ADDWC_CF' else of
            if op in ('FLAG_EQ_SUBWC', 'FLAG_SIGN_SUBWC', 'FLAG_SUBWC_CF', 'FLAG_SUBWC_OF'):
                r = (a - (b + c)) & mask(s)
                if op == 'FLAG_EQ_SUBWC':
                    return 1 if r == 0 else 0
                if op == 'FLAG_SIGN_SUBWC':
                    return r >> (s - 1)
                if c > 1:
                    raise Uninterpreted(op + ":wide-carry")
                _, cf, of = _subb(a, b, c, s)
                return cf if op == 'FLAG_SUBWC_CF' else of
        raise Uninterpreted(op)
    if op.startswith('CC_'):
        m = mask(w)
        if op == 'CC_U<=':
            return (vals[0] | vals[1]) & m
        if op == 'CC_U>=':
            return (~vals[0]) & m
        if op == 'CC_S<':
            return (vals[0] ^ vals[1]) & m
        if op == 'CC_S>':
            return (~(vals[2] | (vals[0] ^ vals[1]))) & m
        if op == 'CC_S<=':
            return (vals[2] | (vals[0] ^ vals[1])) & m
        if op == 'CC_S>=':
            return (~(vals[0] ^ vals[1])) & m
        if op == 'CC_U>':
            return (~(vals[0] | vals[1])) & m
        if op == 'CC_U<':
            return vals[0] & m
        if op == 'CC_NEG':
            return vals[0] & m
        if op == 'CC_EQ':
            return vals[0] & m
        if op == 'CC_NE':
            return (~vals[0]) & m
        if op == 'CC_POS':
            return (~vals[0]) & m
        if op == 'CC_sOVR':          # signed overflow set (ARM VS); explicit formula added by fix ee37766
            return vals[0] & m
        if op == 'CC_sNOOVR':        # signed overflow clear (ARM VC)
            return (~vals[0]) & m
        raise Uninterpreted(op)
    raise Uninterpreted(op)


def S(e, env):
    """Value of expression e (a miasm Expr) under env, as an int in [0, 2^size)."""
    cn = e.__class__.__name__
    if cn == 'ExprInt':
        return int(e) & mask(e.size)
    if cn == 'ExprId':
        return env.read_id(e.name, e.size)
    if cn == 'ExprLoc':
        k = e.loc_key
        if k in env.locs:
            return env.locs[k] & mask(e.size)
        return int.from_bytes(_h("loc", env.key, repr(k)), "little") & mask(e.size)
    if cn == 'ExprMem':
        addr = S(e.ptr, env)
        pw = e.ptr.size
        nbytes = (e.size + 7) // 8
        bs = [env.read_byte(pw, addr + i) for i in range(nbytes)]
        if env.big_endian:
            v = int.from_bytes(bytes(bs), "big")
        else:
            v = int.from_bytes(bytes(bs), "little")
        return v & mask(e.size)
    if cn == 'ExprSlice':
        return (S(e.arg, env) >> e.start) & mask(e.stop - e.start)
    if cn == 'ExprCompose':
        v = 0
        off = 0
        for a in e.args:
            v |= S(a, env) << off
            off += a.size
        return v
    if cn == 'ExprCond':
        c = S(e.cond, env)
        return S(e.src1, env) if c != 0 else S(e.src2, env)
    if cn == 'ExprOp':
        op = e.op
        try:
            vals = [S(a, env) for a in e.args]
            return eval_op(op, vals, [a.size for a in e.args], e.size, env)
        except Uninterpreted:
            if env.uninterp_hash:
                vals = [S(a, env) for a in e.args]
                return int.from_bytes(_h("op", op, tuple(vals), e.size), "little") & mask(e.size)
            raise
    raise Uninterpreted(cn)
