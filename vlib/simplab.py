"""Helpers shared by the expression-level checks: pass instrumentation, valuations,
semantic comparison through the reference evaluator, expression (de)serialisation and a
structural expression shrinker."""
import hashlib
import itertools

from vlib import refeval
from vlib.refeval import S, Env, Undefined, Uninterpreted


def expr_ns():
    import miasm.expression.expression as m
    return {k: getattr(m, k) for k in ("ExprInt", "ExprId", "ExprLoc", "ExprSlice", "ExprMem", "ExprCond",
                                       "ExprCompose", "ExprOp", "ExprAssign", "LocKey")}


def ser(e):
    return repr(e)


def deser(s):
    return eval(s, expr_ns())


# ---------------------------------------------------------------------------
# instrumentation: every pass function of a simplifier is wrapped so that each effective
# rewrite is logged as (rule name, before, after)

class Recorder(object):
    def __init__(self):
        self.steps = []
        self.enabled = True
        self.fired = set()

    def reset(self):
        self.steps = []
        self.fired = set()


def instrument(simp, rec):
    """Wrap in place the callbacks of ExpressionSimplifier `simp` (idempotent)."""
    if getattr(simp, "_verif_instrumented", False):
        return
    for cls, lst in list(simp.expr_simp_cb.items()):
        new = []
        for fn in lst:
            new.append(_wrap(fn, rec))
        simp.expr_simp_cb[cls] = new
    simp._verif_instrumented = True
    simp.cache.clear()


def _wrap(fn, rec):
    name = getattr(fn, "__name__", repr(fn))

    def wrapped(e_s, expr):
        out = fn(e_s, expr)
        if out is not expr and rec.enabled:
            rec.fired.add(name)
            if len(rec.steps) < 4000:
                rec.steps.append((name, expr, out))
        return out
    wrapped.__name__ = name
    wrapped._verif_orig = fn
    return wrapped


# ---------------------------------------------------------------------------
# valuations

def free_ids(e):
    """sorted list of (name, size) of identifiers in e"""
    out = set()

    def walk(x):
        cn = x.__class__.__name__
        if cn == 'ExprId':
            out.add((x.name, x.size))
        elif cn == 'ExprMem':
            walk(x.ptr)
        elif cn == 'ExprSlice':
            walk(x.arg)
        elif cn in ('ExprOp', 'ExprCompose'):
            for a in x.args:
                walk(a)
        elif cn == 'ExprCond':
            walk(x.cond)
            walk(x.src1)
            walk(x.src2)
        elif cn == 'ExprAssign':
            walk(x.dst)
            walk(x.src)
    walk(e)
    return sorted(out)


def has_mem(e):
    found = []

    def walk(x):
        cn = x.__class__.__name__
        if cn == 'ExprMem':
            found.append(1)
        elif cn == 'ExprSlice':
            walk(x.arg)
        elif cn in ('ExprOp', 'ExprCompose'):
            for a in x.args:
                walk(a)
        elif cn == 'ExprCond':
            walk(x.cond)
            walk(x.src1)
            walk(x.src2)
    walk(e)
    return bool(found)


def _hbits(key, nbits):
    out = b""
    i = 0
    while len(out) * 8 < nbits:
        out += hashlib.blake2b(("%s/%d" % (key, i)).encode(), digest_size=32).digest()
        i += 1
    return int.from_bytes(out, "little") & ((1 << nbits) - 1)


def valuations(e, nrandom=24, exhaustive_bits=10, salt=""):
    """Yield Env objects.  Exhaustive over the identifiers when their widths total
    <= exhaustive_bits (memory: 2 keyed memories each), otherwise boundary mixes and
    hash-derived pseudo-random values (a pure function of the expression text)."""
    ids = free_ids(e)
    total = sum(s for _, s in ids)
    mem = has_mem(e)
    if total <= exhaustive_bits:
        ranges = [range(1 << s) for _, s in ids]
        keys = (0, 1) if mem else (0,)
        for vals in itertools.product(*ranges):
            for k in keys:
                yield Env(ids={ids[i]: vals[i] for i in range(len(ids))}, key=k), True
        return
    base = hashlib.blake2b((repr(e) + salt).encode(), digest_size=8).hexdigest()
    specials = []
    for mode in ("zero", "ones", "msb", "one", "smax"):
        d = {}
        for (n, s) in ids:
            d[(n, s)] = {"zero": 0, "ones": (1 << s) - 1, "msb": 1 << (s - 1), "one": 1,
                         "smax": (1 << (s - 1)) - 1}[mode]
        specials.append(d)
    for i, d in enumerate(specials):
        yield Env(ids=d, key=i), False
    for i in range(nrandom):
        d = {}
        for (n, s) in ids:
            r = _hbits("%s/%d/%s%d" % (base, i, n, s), s + 3)
            style = r & 7
            v = r >> 3
            if style == 0:
                v &= 0xff           # small
            elif style == 1:
                v |= ((1 << s) - 1) & ~0xff   # small negative
            elif style == 2:
                v = (1 << (v % s))  # single bit
            elif style == 3 and i > 0:
                # equal to another identifier of the same size (to hit == / - cancellations)
                same = [k for k in d if k[1] == s]
                if same:
                    v = d[same[0]]
            d[(n, s)] = v & ((1 << s) - 1)
        yield Env(ids=d, key=100 + i), False


def clone_env(env):
    return Env(ids=env.ids, mem=env.mem, big_endian=env.big_endian, key=env.key, locs=env.locs,
               uninterp_hash=env.uninterp_hash)


def env_desc(env):
    return {"ids": {"%s:%d" % k: hex(v) for k, v in sorted(env.ids.items())}, "memkey": env.key}


def compare(e, r, envs):
    """-> None | ("value"|"undefined-result", env, a, b) | "uninterpreted".
    Valuations where the original is undefined are skipped."""
    n_ok = 0
    for env, _ in envs:
        try:
            a = S(e, clone_env(env))
        except Undefined:
            continue
        except Uninterpreted:
            return "uninterpreted", n_ok
        try:
            b = S(r, clone_env(env))
        except Undefined:
            return ("undefined-result", env, a, None), n_ok
        except Uninterpreted:
            return "uninterpreted", n_ok
        n_ok += 1
        if a != b:
            return ("value", env, a, b), n_ok
    return None, n_ok


def _kind(x):
    cn = x.__class__.__name__
    if cn == 'ExprOp':
        op = x.op
        for pre in ("zeroExt_", "signExt_"):
            if op.startswith(pre):
                return pre[:-1]
        return op
    return {"ExprInt": "int", "ExprId": "id", "ExprMem": "mem", "ExprSlice": "slice", "ExprCompose": "compose",
            "ExprCond": "cond", "ExprLoc": "loc"}.get(cn, cn)


def shape(x):
    """operator of x and kinds of its direct children, e.g. CC_S<=(FLAG_SIGN_SUB,int,FLAG_EQ_CMP)"""
    kids = children(x)
    if not kids:
        return _kind(x)
    ks = [_kind(k) for k in kids]
    if len(ks) > 3:
        ks = ks[:3] + ["..."]
    return "%s(%s)" % (_kind(x), ",".join(ks))


def attribute(steps, env):
    """first recorded rewrite step whose two sides differ under env -> 'rule:shape(before)'"""
    r = _attribute(steps, env)
    if r is None:
        return None
    name, before = r
    return "%s:%s" % (name, shape(before))


def _attribute(steps, env):
    for name, before, after in steps:
        try:
            a = S(before, clone_env(env))
        except (Undefined, Uninterpreted):
            continue
        try:
            b = S(after, clone_env(env))
        except Undefined:
            return name, before
        except Uninterpreted:
            continue
        if a != b or before.size != after.size:
            return name, before
    return None


# ---------------------------------------------------------------------------
# structural shrinker

def children(e):
    cn = e.__class__.__name__
    if cn == 'ExprMem':
        return [e.ptr]
    if cn == 'ExprSlice':
        return [e.arg]
    if cn in ('ExprOp', 'ExprCompose'):
        return list(e.args)
    if cn == 'ExprCond':
        return [e.cond, e.src1, e.src2]
    if cn == 'ExprAssign':
        return [e.dst, e.src]
    return []


def rebuild(e, kids):
    import miasm.expression.expression as m
    cn = e.__class__.__name__
    if cn == 'ExprMem':
        return m.ExprMem(kids[0], e.size)
    if cn == 'ExprSlice':
        return m.ExprSlice(kids[0], e.start, e.stop)
    if cn == 'ExprOp':
        return m.ExprOp(e.op, *kids)
    if cn == 'ExprCompose':
        return m.ExprCompose(*kids)
    if cn == 'ExprCond':
        return m.ExprCond(*kids)
    if cn == 'ExprAssign':
        return m.ExprAssign(*kids)
    return e


def size_of(e):
    return 1 + sum(size_of(c) for c in children(e))


def subexprs(e):
    out = [e]
    for c in children(e):
        out.extend(subexprs(c))
    return out


def _variants(e):
    """smaller variants of e with the same width (one local change each)"""
    import miasm.expression.expression as m
    kids = children(e)
    w = e.size
    if kids:
        # replace the node by a leaf
        yield m.ExprInt(0, w)
        yield m.ExprId("s%d" % w, w)
        # replace the node by a child of the same width
        for c in kids:
            if c.size == w:
                yield c
        # drop an argument of an n-ary op
        if e.__class__.__name__ == 'ExprOp' and e.op in ('+', '*', '^', '&', '|') and len(kids) > 2:
            for i in range(len(kids)):
                yield m.ExprOp(e.op, *(kids[:i] + kids[i + 1:]))
        # recurse
        for i, c in enumerate(kids):
            for v in _variants(c):
                if v.size == c.size:
                    try:
                        yield rebuild(e, kids[:i] + [v] + kids[i + 1:])
                    except Exception:
                        pass
    elif e.__class__.__name__ == 'ExprInt':
        v = int(e)
        for cand in (0, 1, v >> 1, v & (v - 1), v - 1):
            if 0 <= cand < v:
                yield m.ExprInt(cand, w)


def shrink_expr(e, pred, budget=3000):
    """Greedy structural minimisation: pred(expr) -> bool must stay True."""
    calls = [0]

    def ok(x):
        calls[0] += 1
        try:
            return pred(x)
        except Exception:
            return False
    cur = e
    # first: any sub-expression on its own
    improved = True
    while improved and calls[0] < budget:
        improved = False
        for sub in sorted(subexprs(cur)[1:], key=size_of):
            if calls[0] >= budget:
                break
            if ok(sub):
                cur = sub
                improved = True
                break
    improved = True
    while improved and calls[0] < budget:
        improved = False
        cm = (size_of(cur), len(repr(cur)), repr(cur))
        for v in _variants(cur):
            if calls[0] >= budget:
                break
            if v is cur:
                continue
            if (size_of(v), len(repr(v)), repr(v)) >= cm:
                continue
            if ok(v):
                cur = v
                improved = True
                break
    return cur
