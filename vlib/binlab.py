"""binlab — PE / ELF sample generation and *independent* raw parsers for C42, C43, C44.

Three parts:

1. Scratch directory handling (unique directory under /var/tmp, removed at exit, also on failure).
2. PE: `parse_pe_raw` (a struct-level reader of the PE format that shares no code with miasm) and
   `PESim`, a model-based builder: a list of small JSON ops is interpreted against a real
   `miasm.loader.pe_init.PE` object *and* a plain-Python model (sections, contents, imports, exports,
   relocation slots, header fields).  Every op list is valid by construction (ints are taken modulo
   the current state).  `pe_history()` is the Hypothesis strategy for op lists.
3. ELF: `parse_elf_raw` (independent reader: headers, sections, segments, symbols, relocations,
   dynamic entries), a deterministic C source generator and `build_elf_corpus` (gcc / clang on the spot).
"""
import atexit
import hashlib
import os
import shutil
import struct
import subprocess
import tempfile

from vlib.hyp import CheckFailure

# ---------------------------------------------------------------------------------------------
# scratch

_scratch_dirs = []


def _cleanup():
    while _scratch_dirs:
        d = _scratch_dirs.pop()
        shutil.rmtree(d, ignore_errors=True)


atexit.register(_cleanup)


class Scratch(object):
    """with Scratch('c43') as d: ...   -> unique /var/tmp/verif-<tag>-XXXX, removed at the end
    (context exit, interpreter exit, and on exceptions)."""

    def __init__(self, tag):
        self.tag = tag
        self.path = None

    def __enter__(self):
        self.path = tempfile.mkdtemp(prefix="verif-%s-%d-" % (self.tag, os.getpid()), dir="/var/tmp")
        _scratch_dirs.append(self.path)
        return self.path

    def __exit__(self, *exc):
        shutil.rmtree(self.path, ignore_errors=True)
        if self.path in _scratch_dirs:
            _scratch_dirs.remove(self.path)
        return False


def blob(seed, n, nonzero=True):
    """n deterministic pseudo-random bytes (never 0 when nonzero: misplaced data cannot hide in padding)."""
    out = bytearray()
    i = 0
    key = repr(seed).encode()
    while len(out) < n:
        out += hashlib.blake2b(key + struct.pack("<I", i), digest_size=64).digest()
        i += 1
    out = out[:n]
    if nonzero:
        out = bytearray((b % 255) + 1 for b in out)
    return bytes(out)


def quiet_loggers():
    """miasm's loaders log warnings on stderr for perfectly valid inputs; silence them."""
    import logging
    for name in ("pepy", "peparse", "elfparse", "loader_pe", "loader_elf", "loader_common"):
        logging.getLogger(name).setLevel(logging.CRITICAL + 1)


# ---------------------------------------------------------------------------------------------
# independent PE reader


class RawParseError(Exception):
    pass


def _u(data, off, fmt):
    size = struct.calcsize(fmt)
    if off < 0 or off + size > len(data):
        raise RawParseError("read of %s at %#x outside the file (%#x bytes)" % (fmt, off, len(data)))
    return struct.unpack_from(fmt, data, off)


def _cstr(data, off, limit=512):
    if off < 0 or off >= len(data):
        raise RawParseError("string at %#x outside the file" % off)
    end = data.find(b"\x00", off, off + limit)
    if end < 0:
        raise RawParseError("unterminated string at %#x" % off)
    return bytes(data[off:end])


def parse_pe_raw(data):
    """Read a PE file by the published format only.  -> dict (see keys below)."""
    data = bytes(data)
    out = {}
    (magic,) = _u(data, 0, "<H")
    if magic != 0x5A4D:
        raise RawParseError("no MZ magic")
    (lfanew,) = _u(data, 0x3C, "<I")
    (sig,) = _u(data, lfanew, "<I")
    if sig != 0x4550:
        raise RawParseError("no PE signature at %#x" % lfanew)
    coff = lfanew + 4
    machine, nsec, tds, ptrsym, nsym, szopt, chars = _u(data, coff, "<HHIIIHH")
    opt = coff + 20
    (optmagic,) = _u(data, opt, "<H")
    if optmagic == 0x10B:
        wsize = 32
        entry, = _u(data, opt + 16, "<I")
        base, = _u(data, opt + 28, "<I")
        rest = opt + 32
        nt_tail = "<IIHHHHHHIIIIHHIIIIII"
    elif optmagic == 0x20B:
        wsize = 64
        entry, = _u(data, opt + 16, "<I")
        base, = _u(data, opt + 24, "<Q")
        rest = opt + 32
        nt_tail = "<IIHHHHHHIIIIHHQQQQII"
    else:
        raise RawParseError("optional header magic %#x" % optmagic)
    t = _u(data, rest, nt_tail)
    salign, falign = t[0], t[1]
    sizeofimage, sizeofheaders, checksum, subsystem, dllchars = t[9], t[10], t[11], t[12], t[13]
    stackres, stackcom, heapres, heapcom, loaderflags, ndirs = t[14:20]
    dirs_off = rest + struct.calcsize(nt_tail)
    dirs = []
    for i in range(min(ndirs, 16)):
        dirs.append(_u(data, dirs_off + 8 * i, "<II"))
    sec_off = opt + szopt
    sections = []
    for i in range(nsec):
        name, vsize, addr, rawsize, offset, prel, pline, nrel, nline, flags = _u(
            data, sec_off + 40 * i, "<8sIIIIIIHHI")
        sections.append({"name": name, "size": vsize, "addr": addr, "rawsize": rawsize, "offset": offset,
                         "flags": flags, "prel": prel, "pline": pline, "nrel": nrel, "nline": nline})
    out.update(wsize=wsize, machine=machine, base=base, entry=entry, salign=salign, falign=falign,
               sizeofimage=sizeofimage, sizeofheaders=sizeofheaders, checksum=checksum, lfanew=lfanew,
               timedatestamp=tds, characteristics=chars, subsystem=subsystem, dllcharacteristics=dllchars,
               stack=(stackres, stackcom), heap=(heapres, heapcom), loaderflags=loaderflags,
               dirs=dirs, sections=sections, nsections=nsec, sizeofoptionalheader=szopt)

    def rva2off(rva):
        if rva < sizeofheaders:
            return rva
        for s in sections:
            if s["addr"] <= rva < s["addr"] + (s["size"] or s["rawsize"]):
                if rva - s["addr"] >= s["rawsize"]:
                    raise RawParseError("rva %#x has no file backing" % rva)
                return rva - s["addr"] + s["offset"]
        raise RawParseError("rva %#x in no section" % rva)
    out["rva2off"] = rva2off
    psz = wsize // 8
    pfmt = "<I" if wsize == 32 else "<Q"
    ordflag = 1 << (wsize - 1)

    # imports
    imports = []
    if len(dirs) > 1 and dirs[1][0]:
        off = rva2off(dirs[1][0])
        while True:
            oft, ts, fwd, name_rva, ft = _u(data, off, "<IIIII")
            if (oft, ts, fwd, name_rva, ft) == (0, 0, 0, 0, 0) or name_rva == 0:
                break
            dll = _cstr(data, rva2off(name_rva))
            funcs = []
            lookup = oft if oft else ft
            toff = rva2off(lookup)
            while True:
                (v,) = _u(data, toff, pfmt)
                if v == 0:
                    break
                if v & ordflag:
                    funcs.append(v & (ordflag - 1))
                else:
                    noff = rva2off(v)
                    funcs.append(_cstr(data, noff + 2))
                toff += psz
            imports.append({"dll": dll, "firstthunk": ft, "originalfirstthunk": oft, "funcs": funcs})
            off += 20
    out["imports"] = imports

    # exports
    exports = None
    if len(dirs) > 0 and dirs[0][0]:
        off = rva2off(dirs[0][0])
        ch, ts, majv, minv, name_rva, obase, nfunc, nname, afunc, aname, aord = _u(data, off, "<IIHHIIIIIII")
        funcs = [_u(data, rva2off(afunc) + 4 * i, "<I")[0] for i in range(nfunc)]
        names = []
        for i in range(nname):
            (nrva,) = _u(data, rva2off(aname) + 4 * i, "<I")
            (o,) = _u(data, rva2off(aord) + 2 * i, "<H")
            names.append((_cstr(data, rva2off(nrva)), o))
        exports = {"name": _cstr(data, rva2off(name_rva)), "base": obase, "funcs": funcs, "names": names}
    out["exports"] = exports

    # base relocations
    relocs = []
    if len(dirs) > 5 and dirs[5][0] and dirs[5][1]:
        off = rva2off(dirs[5][0])
        end = off + dirs[5][1]
        while off + 8 <= end:
            page, size = _u(data, off, "<II")
            if size < 8:
                raise RawParseError("relocation block of size %d" % size)
            for i in range((size - 8) // 2):
                (e,) = _u(data, off + 8 + 2 * i, "<H")
                if e >> 12:
                    relocs.append((page + (e & 0xFFF), e >> 12))
            off += size
    out["relocs"] = relocs
    return out


# ---------------------------------------------------------------------------------------------
# PE model-based builder

ALIGNS = [(None, None), (0x1000, 0x200), (0x200, 0x200), (0x2000, 0x200), (0x1000, 0x400),
          (0x10000, 0x1000), (0x200, 0x200)]          # (sectionalignment, filealignment); None = builder default
LFANEWS = [None, 0x40, 0x80, 0xF8, 0x100]
BASES32 = [None, 0x10000, 0x400000, 0x10000000, 0x7FFF0000, 0x1230000]
BASES64 = [None, 0x10000, 0x140000000, 0x7FF712340000, 0x400000, 0x180000000]
SECNAMES = [".text", ".data", ".rdata", "CODE", "a", "12345678", ".bss", "UPX0", ".idata", ".x"]
SECFLAGS = [None, 0xE0000020, 0x60000020, 0x40000040, 0xC0000040, 0xC0000080, 0x42000040, 0x20000020]
DLLS = ["kernel32.dll", "USER32.dll", "ntdll.dll", "msvcrt.dll", "Ws2_32.DLL", "advapi32.dll", "x.dll"]
FUNCS = ["CreateFileA", "ExitProcess", "GetProcAddress", "LoadLibraryA", "a", "memcpy", "_initterm",
         "VirtualAlloc", "RtlUnwind", "send", "recv", "MessageBoxA", "GetLastError", "f_%d"]

HDR_FIELDS = [
    ("Doshdr", "cblp", 16), ("Doshdr", "cp", 16), ("Doshdr", "oemid", 16), ("Doshdr", "oeminfo", 16),
    ("Coffhdr", "timedatestamp", 32), ("Coffhdr", "characteristics", 16), ("Coffhdr", "pointertosymboltable", 32),
    ("Coffhdr", "numberofsymbols", 32),
    ("Opthdr", "majorlinkerversion", 8), ("Opthdr", "minorlinkerversion", 8), ("Opthdr", "SizeOfCode", 32),
    ("Opthdr", "sizeofinitializeddata", 32), ("Opthdr", "sizeofuninitializeddata", 32),
    ("Opthdr", "AddressOfEntryPoint", 32), ("Opthdr", "BaseOfCode", 32), ("Opthdr", "BaseOfData", 32),
    ("NThdr", "majoroperatingsystemversion", 16), ("NThdr", "minoroperatingsystemversion", 16),
    ("NThdr", "MajorImageVersion", 16), ("NThdr", "MinorImageVersion", 16),
    ("NThdr", "majorsubsystemversion", 16), ("NThdr", "minorsubsystemversion", 16), ("NThdr", "Reserved1", 32),
    ("NThdr", "subsystem", 16), ("NThdr", "dllcharacteristics", 16),
    ("NThdr", "sizeofstackreserve", 0), ("NThdr", "sizeofstackcommit", 0),
    ("NThdr", "sizeofheapreserve", 0), ("NThdr", "sizeofheapcommit", 0), ("NThdr", "loaderflags", 32),
    ("NThdr", "ImageBase", -1),
]

# header fields compared between the serialised object and its re-parse (CheckSum is computed by the
# builder while serialising and not stored back, so it is not part of the claim)
CMP_FIELDS = {
    "Doshdr": ["magic", "cblp", "cp", "crlc", "cparhdr", "minalloc", "maxalloc", "ss", "sp", "csum", "ip", "cs",
               "lfarlc", "ovno", "res", "oemid", "oeminfo", "res2", "lfanew"],
    "NTsig": ["signature"],
    "Coffhdr": ["machine", "numberofsections", "timedatestamp", "pointertosymboltable", "numberofsymbols",
                "sizeofoptionalheader", "characteristics"],
    "Opthdr": ["magic", "majorlinkerversion", "minorlinkerversion", "SizeOfCode", "sizeofinitializeddata",
               "sizeofuninitializeddata", "AddressOfEntryPoint", "BaseOfCode"],
    "NThdr": ["ImageBase", "sectionalignment", "filealignment", "majoroperatingsystemversion",
              "minoroperatingsystemversion", "MajorImageVersion", "MinorImageVersion", "majorsubsystemversion",
              "minorsubsystemversion", "Reserved1", "sizeofimage", "sizeofheaders", "subsystem",
              "dllcharacteristics", "sizeofstackreserve", "sizeofstackcommit", "sizeofheapreserve",
              "sizeofheapcommit", "loaderflags", "numberofrvaandsizes"],
}


def _norm(v):
    if v is None:
        return 0
    if isinstance(v, str):
        v = v.encode()
    if isinstance(v, (bytes, bytearray)):
        return bytes(v).rstrip(b"\x00") or 0
    return v


def _name8(name):
    if isinstance(name, str):
        name = name.encode()
    return bytes(name)[:8].ljust(8, b"\x00")


def _hexs(b, n=24):
    b = bytes(b)
    return b[:n].hex() + ("..." if len(b) > n else "")


def _first_diff(a, b):
    n = min(len(a), len(b))
    for i in range(n):
        if a[i] != b[i]:
            return i
    return n if len(a) != len(b) else None


class MSection(object):
    """Model of one section: header values and the file-backed content."""

    def __init__(self, name8, addr, size, rawsize, offset, flags, content, kind):
        self.name8 = name8
        self.addr = addr
        self.size = size
        self.rawsize = rawsize
        self.offset = offset
        self.flags = flags
        self.kind = kind            # "user" | "dir" (owned by a directory: contents not compared bytewise)
        self.fb = min(rawsize, size)  # number of file-backed bytes
        c = bytearray(content[:self.fb])
        c += b"\x00" * (self.fb - len(c))
        self.content = c

    def hdr(self):
        return (self.name8, self.size, self.addr, self.rawsize, self.offset, self.flags)


class PESim(object):
    """Real pe_init.PE + model, stepped by ops (see module docstring).  Raises CheckFailure(bucket, detail)
    on a discrepancy.  After run: .data (last serialisation), .model_* attributes, .stats."""

    def __init__(self, final_roundtrip=True, allow_reloc_to=True):
        quiet_loggers()
        self.pe = None
        self.stage = "built"          # "built": object made by PE(); "parsed": object from PE(bytes)
        self.sections = []            # [MSection]
        self.masked = []              # [(rva_lo, rva_hi)] ranges owned by directories inside user sections
        self.imports = []             # [(dll bytes, firstthunk rva, [bytes|int])]
        self.imports_dirty = False
        self.exports = None           # {"name": bytes, "funcs": [rva], "names": {name: ordinal index}}
        self.exports_dirty = False
        self.slots = []               # relocation slot rvas (type 3), in insertion order
        self.relocs_dirty = False
        self.reloc_ready = False
        self.hdr_expect = {}          # (struct, field) -> value set through the API
        self.data = None
        self.n_rt = 0
        self.n_ops = 0
        self.stats = {"ops": 0, "rt": 0, "writes": 0, "reloc_to": 0, "convs": 0, "skipped": 0}
        self.final_roundtrip = final_roundtrip
        self.allow_reloc_to = allow_reloc_to
        self.wsize = 32
        self.base = 0x400000
        self.salign = 0x1000
        self.falign = 0x1000
        self.low_align = False

    # -- helpers ------------------------------------------------------------------------------
    def fail(self, bucket, detail):
        raise CheckFailure(bucket, "[%s pe, %d-bit, after %d round trips] %s" % (self.stage, self.wsize, self.n_rt, detail))

    def api(self, what, fn, *args, **kw):
        """Call a loader API on an in-domain input: any exception is a breach."""
        try:
            return fn(*args, **kw)
        except CheckFailure:
            raise
        except Exception as e:
            import traceback
            tb = traceback.extract_tb(e.__traceback__)
            where = "?"
            for fr in reversed(tb):
                if "/miasm/" in fr.filename:
                    where = "%s:%s" % (fr.filename.split("/miasm/")[-1], fr.name)
                    break
            self.fail("exception:%s:%s:%s@%s" % (what, self.stage, type(e).__name__, where),
                      "%s raised %r" % (what, e))

    def start(self, wsize=32, align_i=0, lfanew_i=0, base_i=0):
        from miasm.loader import pe_init
        self.wsize = wsize
        self.pe = self.api("PE()", pe_init.PE, wsize=wsize)
        pe = self.pe
        salign, falign = ALIGNS[align_i % len(ALIGNS)]
        if salign is not None:
            pe.NThdr.sectionalignment = salign
            pe.NThdr.filealignment = falign
            self.salign, self.falign = salign, falign
            self.low_align = salign < 0x1000
        lf = LFANEWS[lfanew_i % len(LFANEWS)]
        if lf is not None:
            pe.Doshdr.lfanew = lf
        bases = BASES32 if wsize == 32 else BASES64
        b = bases[base_i % len(bases)]
        if b is not None:
            pe.NThdr.ImageBase = b
            self.base = b
        self.psz = wsize // 8

    def ensure_started(self):
        if self.pe is None:
            self.start()

    def is_masked(self, lo, hi):
        for a, b in self.masked:
            if lo < b and a < hi:
                return True
        return False

    def slot_hit(self, lo, hi):
        for s in self.slots:
            if lo < s + 4 and s < hi:
                return True
        return False

    def user_sections(self, need=1):
        return [s for s in self.sections if s.kind == "user" and s.fb >= need]

    def find_free(self, sel, off_sel, length, avoid_slots=True, align=1):
        """A range of `length` file-backed bytes inside a user section, not masked (and not on a
        relocation slot): -> (section, offset) or None."""
        cands = self.user_sections(length)
        if not cands:
            return None
        for k in range(len(cands)):
            s = cands[(sel + k) % len(cands)]
            span = s.fb - length
            start = (off_sel % (span + 1)) if span > 0 else 0
            start -= start % align
            for o in list(range(start, span + 1, align))[:400] + list(range(0, start, align))[:400]:
                lo, hi = s.addr + o, s.addr + o + length
                if self.is_masked(lo, hi):
                    continue
                if avoid_slots and self.slot_hit(lo, hi):
                    continue
                return s, o
        return None

    def sec_of_rva(self, rva):
        for s in self.sections:
            if s.addr <= rva < s.addr + s.size:
                return s
        return None

    # -- ops ----------------------------------------------------------------------------------
    def step(self, op):
        self.n_ops += 1
        self.stats["ops"] += 1
        name = op[0]
        if name == "init":
            if self.pe is None:
                self.start(64 if op[1] % 2 else 32, op[2], op[3], op[4])
            return
        self.ensure_started()
        getattr(self, "op_" + name)(*op[1:])

    def op_hdr(self, fi, value):
        st, field, width = HDR_FIELDS[fi % len(HDR_FIELDS)]
        if field == "BaseOfData" and self.wsize == 64:
            return
        if width == 0:
            width = self.wsize
        if width == -1:      # ImageBase: 64 KiB aligned, keeps every virtual address inside the pointer size
            lim = 0x7FFF0000 if self.wsize == 32 else 0x7FFFFFFF0000
            value = (value % lim) & ~0xFFFF
            if value == 0:
                value = 0x10000
            self.base = value
        else:
            value &= (1 << width) - 1
        setattr(getattr(self.pe, st), field, value)
        self.hdr_expect[(st, field)] = value

    def _record_section(self, sec, name, content, kind):
        pe = self.pe
        ms = MSection(_name8(name), sec.addr, sec.size, sec.rawsize, sec.offset, sec.flags, content, kind)
        # sanity of the placement chosen by the builder: no overlap with existing sections
        for o in self.sections:
            if ms.addr < o.addr + o.size and o.addr < ms.addr + ms.size:
                self.fail("add_section:virtual-overlap",
                          "new section %r at rva %#x size %#x overlaps %r at %#x size %#x"
                          % (name, ms.addr, ms.size, o.name8, o.addr, o.size))
            if ms.rawsize and o.rawsize and ms.offset < o.offset + o.rawsize and o.offset < ms.offset + ms.rawsize:
                self.fail("add_section:file-overlap",
                          "new section %r at offset %#x rawsize %#x overlaps %r at %#x rawsize %#x"
                          % (name, ms.offset, ms.rawsize, o.name8, o.offset, o.rawsize))
        hdr_end = (pe.Doshdr.lfanew + 4 + 20 + pe.Coffhdr.sizeofoptionalheader + 40 * (len(self.sections) + 1))
        if ms.rawsize and ms.offset < hdr_end:
            self.fail("add_section:overlaps-headers", "section %r placed at file offset %#x, headers end at %#x"
                      % (name, ms.offset, hdr_end))
        self.sections.append(ms)
        return ms

    def _first_offset(self, kw):
        """add_section puts the first section right behind a section table with room for one more
        entry only (and warns 'section offset overlap pe hdr' when serialising more); with a file
        alignment below 0x1000 callers give the first file offset themselves (as vm2pe does)."""
        if not self.sections and self.falign < 0x1000:
            kw["offset"] = (0x600 + self.falign - 1) & ~(self.falign - 1)

    def op_sec(self, name_i, datalen, rawpad, flags_i, seed, mode):
        pe = self.pe
        if len(self.sections) >= 10:
            self.stats["skipped"] += 1
            return
        name = SECNAMES[name_i % len(SECNAMES)]
        data = blob(("sec", seed), datalen)
        kw = {}
        fl = SECFLAGS[flags_i % len(SECFLAGS)]
        if fl is not None:
            kw["flags"] = fl
        rawsize = None
        if rawpad:
            # rawsize given explicitly (as example/loader/build_pe.py does), >= len(data)
            rawsize = datalen + rawpad
            if rawpad % 3 == 0:
                rawsize = (rawsize + self.falign - 1) & ~(self.falign - 1)
            kw["rawsize"] = rawsize
        vsize = None
        last_end = max([s.addr + s.size for s in self.sections] + [0x1000])
        if self.low_align and mode % 8 != 0:
            # low-alignment image: explicit rva aligned on sectionalignment, and the virtual size set
            # afterwards through the header field (add_section forces it to at least one page)
            addr = (last_end + self.salign - 1) & ~(self.salign - 1)
            kw["addr"] = addr
            fbsize = rawsize if rawsize is not None else datalen
            vsize = max(fbsize, 1) + (seed % 3) * 0x80
            if seed % 5 == 0 and fbsize > 0x40:
                vsize = fbsize - 0x20        # virtual size smaller than raw size
        elif mode % 4 == 2:
            al = max(self.salign, 0x1000)
            kw["addr"] = ((last_end + al - 1) & ~(al - 1)) + al * (1 + seed % 3)   # gap before the section
        self._first_offset(kw)
        if self.sections and "offset" not in kw and (mode >> 4) % 4 in (1, 2):
            # explicit file offset (add_section's `offset` argument, as vm2pe uses it): either beyond the
            # current end of the raw data, leaving a hole, or inside an existing hole -- so that the order of
            # the section table differs from the order of the raw data
            need = rawsize if rawsize is not None else datalen
            need = (max(need, 1) + self.falign - 1) & ~(self.falign - 1)
            spans = sorted((o.offset, o.offset + o.rawsize) for o in self.sections if o.rawsize)
            if spans:
                if (mode >> 4) % 4 == 1:
                    end = (spans[-1][1] + self.falign - 1) & ~(self.falign - 1)
                    kw["offset"] = end + self.falign * (2 + seed % 3) + need
                else:
                    for (a0, a1), (b0, b1) in zip(spans, spans[1:]):
                        start = (a1 + self.falign - 1) & ~(self.falign - 1)
                        if b0 - start >= need:
                            kw["offset"] = start
                            break
        sec = self.api("SHList.add_section", pe.SHList.add_section, name=name, data=data, **kw)
        if vsize is not None:
            sec.size = vsize
        content = data
        self._record_section(sec, name, content, "user")

    def _dir_section(self, tag, rawsize):
        pe = self.pe
        name = "%s%d" % (tag, len(self.sections))
        kw = {}
        self._first_offset(kw)
        sec = self.api("SHList.add_section", pe.SHList.add_section, name=name, rawsize=rawsize, **kw)
        return self._record_section(sec, name, b"", "dir")

    def op_imp(self, descs, place_mode, place_seed):
        pe = self.pe
        if len(self.imports) + len(descs) > 8 or not descs:
            self.stats["skipped"] += 1
            return
        psz = self.psz
        total = sum((len(f) + 1) * psz for _, f, _ in descs)
        # where the thunk arrays go: a free range of a user section, or a fresh section
        spot = None
        if place_mode % 2 == 1:
            spot = self.find_free(place_seed, place_seed * 7, total + 2 * psz, align=psz)
        if spot is None:
            if len(self.sections) >= 12:
                self.stats["skipped"] += 1
                return
            raw = total + 2 * psz + (place_seed % 4) * 0x10
            name = "iat%d" % len(self.sections)
            kw = {}
            self._first_offset(kw)
            sec = self.api("SHList.add_section", pe.SHList.add_section, name=name, rawsize=raw, **kw)
            ms = self._record_section(sec, name, b"", "user")
            ft = ms.addr + (place_seed % 2) * psz
        else:
            s, o = spot
            ft = s.addr + o
        new_dll = []
        cur = ft
        model_new = []
        for k, (dll_i, funcs, contiguous) in enumerate(descs):
            dll = DLLS[dll_i % len(DLLS)]
            fl = []
            for f in funcs:
                if isinstance(f, int) and f < 0:
                    fl.append((-f) & 0xFFFF or 1)                 # ordinal
                else:
                    nm = FUNCS[f % len(FUNCS)]
                    if "%d" in nm:
                        nm = nm % f
                    fl.append(nm)
            if k == 0 or not contiguous:
                desc = {"name": dll, "firstthunk": cur}
            else:
                desc = {"name": dll, "firstthunk": None}           # continues right after the previous array
            new_dll.append((desc, list(fl)))
            model_new.append((dll.encode(), cur, [x.encode() if isinstance(x, str) else x for x in fl]))
            self.masked.append((cur, cur + (len(fl) + 1) * psz))
            cur += (len(fl) + 1) * psz
        self.api("DirImport.add_dlldesc", pe.DirImport.add_dlldesc, new_dll)
        self.imports.extend(model_new)
        self.imports_dirty = True

    def ensure_user_section(self, seed):
        if not self.user_sections(0x40):
            self.op_sec(seed, 0x100 + seed % 0x900, (seed % 2) * 0x100, seed // 3, seed, seed // 7)

    def op_exp(self, entries, dll_i):
        pe = self.pe
        self.ensure_user_section(dll_i)
        users = self.user_sections(1)
        if not users:
            self.stats["skipped"] += 1
            return
        if self.exports is None:
            nm = "mod%d.dll" % (dll_i % 5)
            self.api("DirExport.create", pe.DirExport.create, nm)
            self.exports = {"name": nm.encode(), "funcs": [], "names": {}, "base": 1}
        for name_i, rva_sel, ord_sel in entries:
            if len(self.exports["names"]) >= 24:
                break
            name = ("exp_%d_%d" % (name_i % 50, len(self.exports["funcs"]))).encode()
            if name_i % 7 == 0:
                name = ("A%d" % len(self.exports["funcs"])).encode()
            s = users[rva_sel % len(users)]
            rva = s.addr + (rva_sel * 13) % s.fb
            n = len(self.exports["funcs"])
            if ord_sel % 4 == 3:
                ordinal = ord_sel % (n + 1)      # explicit index into the address table (alias allowed)
                self.api("DirExport.add_name", pe.DirExport.add_name, name, rva, ordinal)
            else:
                ordinal = n
                self.api("DirExport.add_name", pe.DirExport.add_name, name, rva)
            self.exports["funcs"].append(rva)
            self.exports["names"][name] = ordinal
        self.exports_dirty = True

    def op_rel(self, sels):
        pe = self.pe
        self.ensure_user_section(sels[0][0] + sels[0][1])
        new = []
        for sec_sel, off_sel in sels:
            if len(self.slots) + len(new) >= 40:
                break
            # a 4-byte slot, file backed, not inside a directory-owned range, not overlapping another slot
            saved = self.slots
            self.slots = saved + new
            spot = self.find_free(sec_sel, off_sel, 4, avoid_slots=True)
            self.slots = saved
            if spot is None:
                continue
            s, o = spot
            new.append(s.addr + o)
        if not new:
            self.stats["skipped"] += 1
            return
        if not self.reloc_ready:
            if pe.DirReloc.reldesc is None:
                # a fresh PE() (or a parsed one without relocation directory) has no relocation list:
                # add_reloc cannot create it (see C42 finding); initialise what add_reloc expects
                pe.DirReloc.reldesc = []
            if pe.NThdr.optentries[5].size is None:
                pe.NThdr.optentries[5].size = 0
            self.reloc_ready = True
        self.api("DirReloc.add_reloc", pe.DirReloc.add_reloc, list(new))
        self.slots.extend(new)
        self.relocs_dirty = True

    def op_wr(self, sec_sel, off_sel, length, seed, via):
        pe = self.pe
        self.ensure_user_section(seed)
        length = 1 + length % 64
        spot = self.find_free(sec_sel, off_sel, length, avoid_slots=False)
        if spot is None:
            self.stats["skipped"] += 1
            return
        s, o = spot
        data = blob(("wr", seed), length)
        rva = s.addr + o
        if via % 3 == 0:
            self.api("rva.set", pe.rva.set, rva, data)
        elif via % 3 == 1:
            self.api("virt.set", pe.virt.set, self.base + rva, data)
        else:
            self.api("rva.__setitem__", pe.rva.__setitem__, rva, data)
        s.content[o:o + length] = data
        self.stats["writes"] += 1
        # immediate read back through both views
        got = self.api("rva.get", pe.rva.get, rva, rva + length)
        if bytes(got) != data:
            self.fail("virtual-write:readback:rva", "wrote %s at rva %#x, rva.get gives %s" % (_hexs(data), rva, _hexs(got)))
        got = self.api("virt.get", pe.virt.get, self.base + rva, self.base + rva + length)
        if bytes(got) != data:
            self.fail("virtual-write:readback:virt", "wrote %s at rva %#x, virt.get gives %s" % (_hexs(data), rva, _hexs(got)))

    def op_reloc(self, base_i, raw):
        pe = self.pe
        if not self.slots and self.allow_reloc_to:
            self.op_rel([[base_i, raw % 0xFFFF], [base_i + 1, (raw >> 16) % 0xFFFF], [base_i, (raw >> 32) % 0xFFF]])
        if not self.slots or not self.allow_reloc_to:
            self.stats["skipped"] += 1
            return
        bases = BASES32 if self.wsize == 32 else BASES64
        nb = bases[base_i % len(bases)]
        if nb is None or base_i % 3 == 0:
            lim = 0x7FFF0000 if self.wsize == 32 else 0x7FFFFFFF0000
            nb = ((raw % lim) & ~0xFFFF) or 0x10000
        delta = nb - self.base
        self.api("reloc_to", pe.reloc_to, nb)
        for rva in self.slots:
            s = self.sec_of_rva(rva)
            o = rva - s.addr
            (v,) = struct.unpack_from("<I", s.content, o)
            struct.pack_into("<I", s.content, o, (v + delta) & 0xFFFFFFFF)
        self.base = nb
        self.hdr_expect[("NThdr", "ImageBase")] = nb
        self.stats["reloc_to"] += 1
        self.check_contents("reloc_to")
        if pe.NThdr.ImageBase != nb:
            self.fail("reloc_to:imagebase", "ImageBase is %#x after reloc_to(%#x)" % (pe.NThdr.ImageBase, nb))

    def op_chk(self):
        self.check_contents("chk")
        self.check_conversions()

    def op_rt(self):
        self.roundtrip()

    # -- judgements ---------------------------------------------------------------------------
    def check_contents(self, when):
        """Virtual views and section data against the model (file-backed bytes, directory-owned ranges excepted)."""
        pe = self.pe
        for i, s in enumerate(self.sections):
            if s.kind != "user" or s.fb == 0:
                continue
            sec = pe.SHList[i]
            got = bytes(self.api("section.data", lambda: sec.data))[:s.fb]
            via_rva = bytes(self.api("rva.get", pe.rva.get, s.addr, s.addr + s.fb))
            via_virt = bytes(self.api("virt.get", pe.virt.get, self.base + s.addr, self.base + s.addr + s.fb))
            for view, g in (("section.data", got), ("rva.get", via_rva), ("virt.get", via_virt)):
                if len(g) != s.fb:
                    self.fail("contents:%s:%s:length" % (when, view),
                              "section %d (%r rva %#x): %s returns %d bytes, %d are file backed"
                              % (i, s.name8, s.addr, view, len(g), s.fb))
                exp = bytearray(s.content)
                g = bytearray(g)
                for a, b in self.masked:
                    lo, hi = max(a, s.addr), min(b, s.addr + s.fb)
                    if lo < hi:
                        exp[lo - s.addr:hi - s.addr] = b"\x00" * (hi - lo)
                        g[lo - s.addr:hi - s.addr] = b"\x00" * (hi - lo)
                if g != exp:
                    d = _first_diff(g, exp)
                    kind = "slot" if self.slot_hit(s.addr + d, s.addr + d + 1) else "data"
                    self.fail("contents:%s:%s:%s" % (when, view, kind),
                              "section %d (%r rva %#x fb %#x): first difference at +%#x: got %s, expected %s"
                              % (i, s.name8, s.addr, s.fb, d, _hexs(g[d:d + 16]), _hexs(exp[d:d + 16])))

    def check_conversions(self):
        pe = self.pe
        base = self.base
        for i, s in enumerate(self.sections):
            if s.fb == 0:
                continue
            for o in sorted(set([0, 1 % s.fb, s.fb // 2, s.fb - 1])):
                rva = s.addr + o
                off = s.offset + o
                self.stats["convs"] += 1
                checks = (
                    ("rva2off", lambda: pe.rva2off(rva), off),
                    ("off2rva", lambda: pe.off2rva(off), rva),
                    ("rva2virt", lambda: pe.rva2virt(rva), base + rva),
                    ("virt2rva", lambda: pe.virt2rva(base + rva), rva),
                    ("virt2off", lambda: pe.virt2off(base + rva), off),
                    ("off2virt", lambda: pe.off2virt(off), base + rva),
                    ("rva2off.off2rva", lambda: pe.rva2off(pe.off2rva(off)), off),
                    ("off2rva.rva2off", lambda: pe.off2rva(pe.rva2off(rva)), rva),
                    ("virt2rva.rva2virt", lambda: pe.virt2rva(pe.rva2virt(rva)), rva),
                )
                for nm, fn, exp in checks:
                    got = self.api(nm, fn)
                    if got != exp:
                        self.fail("conversion:%s" % nm,
                                  "section %d (rva %#x size %#x offset %#x rawsize %#x, falign %#x salign %#x base %#x): "
                                  "%s at section+%#x gives %r, expected %#x"
                                  % (i, s.addr, s.size, s.offset, s.rawsize, self.falign, self.salign, base, nm, o,
                                     got, exp))
                sec = self.api("getsectionbyrva", pe.getsectionbyrva, rva)
                if sec is not pe.SHList[i]:
                    self.fail("conversion:getsectionbyrva", "rva %#x (section %d + %#x) resolved to %r" % (rva, i, o, sec))
                if not self.api("is_in_virt_address", pe.is_in_virt_address, base + rva):
                    self.fail("conversion:is_in_virt_address", "address %#x of section %d not recognised" % (base + rva, i))

    def commit_dirs(self):
        pe = self.pe
        if self.imports_dirty:
            n = self.api("len(DirImport)", len, pe.DirImport)
            ms = self._dir_section("imp", n)
            self.api("DirImport.set_rva", pe.DirImport.set_rva, ms.addr)
            self.imports_dirty = False
        if self.exports_dirty:
            n = self.api("len(DirExport)", len, pe.DirExport)
            ms = self._dir_section("exp", n)
            self.api("DirExport.set_rva", pe.DirExport.set_rva, ms.addr)
            self.exports_dirty = False
        if self.relocs_dirty:
            n = self.api("len(DirReloc)", len, pe.DirReloc)
            ms = self._dir_section("rel", n)
            self.api("DirReloc.set_rva", pe.DirReloc.set_rva, ms.addr)
            self.relocs_dirty = False

    def snapshot_headers(self, pe):
        snap = {}
        for st, fields in CMP_FIELDS.items():
            obj = getattr(pe, st)
            for f in fields:
                if st == "Opthdr" and f == "BaseOfData":
                    continue
                snap[(st, f)] = _norm(getattr(obj, f))
        if self.wsize == 32:
            snap[("Opthdr", "BaseOfData")] = _norm(pe.Opthdr.BaseOfData)
        for i, e in enumerate(pe.NThdr.optentries):
            snap[("dir", i)] = (_norm(e.rva), _norm(e.size))
        return snap

    def roundtrip(self):
        from miasm.loader import pe_init
        if not self.sections:
            # build_content needs at least one section (it reads SHList[-1]); an image without any
            # section is outside the generated domain
            self.op_sec(0, 0x40, 0, 0, 1, 0)
        self.commit_dirs()
        pe = self.pe
        data = self.api("bytes(pe)", bytes, pe)
        before = self.snapshot_headers(pe)        # after serialisation: sizeofimage etc. are normalised by it
        self.data = data
        self.check_raw(data)
        q = self.api("PE(bytes)", pe_init.PE, data)
        self.stats["rt"] += 1
        if not q.isPE():
            self.fail("roundtrip:not-a-pe", "re-parsed object is not recognised as PE")
        if q._wsize != self.wsize:
            self.fail("roundtrip:wsize", "re-parsed word size %r" % q._wsize)
        after = self.snapshot_headers(q)
        for k in sorted(before, key=repr):
            if before[k] != after.get(k):
                self.fail("roundtrip:header:%s:%s.%s" % (self.stage, k[0], k[1] if k[0] != "dir" else "entry"),
                          "%s.%s: object serialised had %r, re-parsed has %r" % (k[0], k[1], before[k], after.get(k)))
        for (st, f), v in self.hdr_expect.items():
            if after.get((st, f)) != v:
                self.fail("roundtrip:header-set:%s:%s.%s" % (self.stage, st, f),
                          "%s.%s was set to %#x through the API, re-parsed value %r" % (st, f, v, after.get((st, f))))
        # sections
        if len(q.SHList) != len(self.sections):
            self.fail("roundtrip:section-count", "%d sections re-parsed, %d built" % (len(q.SHList), len(self.sections)))
        for i, s in enumerate(self.sections):
            sec = q.SHList[i]
            got = (_name8(sec.name), sec.size, sec.addr, sec.rawsize, sec.offset, sec.flags)
            if got != s.hdr():
                self.fail("roundtrip:section-header", "section %d re-parsed as %r, built %r" % (i, got, s.hdr()))
            extra = (sec.pointertorelocations, sec.pointertolinenumbers, sec.numberofrelocations, sec.numberoflinenumbers)
            if extra != (0, 0, 0, 0):
                self.fail("roundtrip:section-header", "section %d re-parsed with relocation/line fields %r" % (i, extra))
        self.pe = q
        self.check_contents("roundtrip")
        self.check_conversions()
        # imports
        want = [({"name": d, "firstthunk": ft}, fl) for d, ft, fl in self.imports]
        got = self.api("get_dlldesc", q.DirImport.get_dlldesc) if q.DirImport.impdesc is not None else []
        got = [({"name": bytes(a["name"]), "firstthunk": a["firstthunk"]}, list(b)) for a, b in got]
        if got != want:
            self.fail("roundtrip:imports", "re-parsed import table %r, built %r" % (got, want))
        for d, ft, fl in self.imports:
            for j, f in enumerate(fl):
                r = self.api("get_funcrva", q.DirImport.get_funcrva, d, f)
                # first match wins when a (dll, function) pair is imported twice
                first = None
                for d2, ft2, fl2 in self.imports:
                    if d2.lower() == d.lower():
                        for j2, f2 in enumerate(fl2):
                            if f2 == f and first is None and type(f2) is type(f):
                                first = ft2 + j2 * self.psz
                if r != first:
                    self.fail("roundtrip:imports:get_funcrva", "get_funcrva(%r, %r) = %r, slot is at rva %#x" % (d, f, r, first))
        # exports
        if self.exports is None:
            if q.DirExport.expdesc is not None:
                self.fail("roundtrip:exports", "export directory appeared: %r" % q.DirExport)
        else:
            ex = q.DirExport
            if ex.expdesc is None:
                self.fail("roundtrip:exports", "export directory lost")
            gotx = {"name": bytes(ex.dlldescname.name), "base": ex.expdesc.base,
                    "funcs": [a.rva for a in ex.f_address],
                    "names": [(bytes(n.name.name), o.ordinal) for n, o in zip(ex.f_names, ex.f_nameordinals)],
                    "counts": (ex.expdesc.numberoffunctions, ex.expdesc.numberofnames)}
            wantx = {"name": self.exports["name"], "base": 1, "funcs": list(self.exports["funcs"]),
                     "names": sorted(self.exports["names"].items()),
                     "counts": (len(self.exports["funcs"]), len(self.exports["names"]))}
            if gotx != wantx:
                self.fail("roundtrip:exports", "re-parsed export table %r, built %r" % (gotx, wantx))
            for nm, o in self.exports["names"].items():
                r = self.api("DirExport.get_funcrva", ex.get_funcrva, nm)
                if r != self.exports["funcs"][o]:
                    self.fail("roundtrip:exports:get_funcrva", "get_funcrva(%r) = %r, expected %#x" % (nm, r, self.exports["funcs"][o]))
        # relocations
        gotr = []
        if q.DirReloc is not None and q.DirReloc.reldesc is not None:
            for rel in q.DirReloc.reldesc:
                for r in rel.rels:
                    t, o = r.rel
                    if t == 0 and o == 0:
                        continue
                    gotr.append((rel.rva + o, t))
        wantr = sorted((s, 3) for s in self.slots)
        if sorted(gotr) != wantr:
            self.fail("roundtrip:relocs", "re-parsed relocations %r, built %r" % (sorted(gotr), wantr))
        if self.slots:
            self.reloc_ready = True
        self.stage = "parsed"
        self.n_rt += 1

    def check_thunk_terminators(self, data, raw):
        """Each import address table written by the builder ends with a null entry (add_dlldesc reserves it)."""
        for d, ft, fl in self.imports:
            end_rva = ft + len(fl) * self.psz
            s = self.sec_of_rva(end_rva)
            off = s.offset + (end_rva - s.addr)
            term = bytes(data[off:off + self.psz])
            if term.strip(b"\x00"):
                self.fail("serialised:imports:thunk-array-unterminated",
                          "import address table of %r at rva %#x (%d entries) is followed by %s instead of a null "
                          "entry (section content there before add_dlldesc: %s)"
                          % (d, ft, len(fl), term.hex(), bytes(s.content[end_rva - s.addr:end_rva - s.addr + self.psz]).hex()))

    def check_raw(self, data):
        """The serialised bytes read by the independent parser: same sections / contents / tables as the model."""
        self.check_thunk_terminators(data, None)
        try:
            raw = parse_pe_raw(data)
        except RawParseError as e:
            self.fail("serialised:malformed", "independent reader: %s" % e)
        if raw["wsize"] != self.wsize or raw["base"] != self.base:
            self.fail("serialised:header", "word size %r base %#x, expected %r %#x" % (raw["wsize"], raw["base"], self.wsize, self.base))
        if raw["machine"] != (0x14C if self.wsize == 32 else 0x8664):
            self.fail("serialised:header", "machine %#x" % raw["machine"])
        gots = [(s["name"], s["size"], s["addr"], s["rawsize"], s["offset"], s["flags"]) for s in raw["sections"]]
        wants = [s.hdr() for s in self.sections]
        if gots != wants:
            self.fail("serialised:sections", "section table in the file %r, built %r" % (gots, wants))
        last = self.sections[-1]
        exp_img = (last.addr + last.size + self.salign - 1) & ~(self.salign - 1)
        if raw["sizeofimage"] != exp_img:
            self.fail("serialised:sizeofimage", "SizeOfImage %#x, last section ends at %#x (alignment %#x)"
                      % (raw["sizeofimage"], last.addr + last.size, self.salign))
        for i, s in enumerate(self.sections):
            if s.kind != "user" or not s.fb:
                continue
            g = bytearray(data[s.offset:s.offset + s.fb])
            g += b"\x00" * (s.fb - len(g))
            exp = bytearray(s.content)
            for a, b in self.masked:
                lo, hi = max(a, s.addr), min(b, s.addr + s.fb)
                if lo < hi:
                    exp[lo - s.addr:hi - s.addr] = b"\x00" * (hi - lo)
                    g[lo - s.addr:hi - s.addr] = b"\x00" * (hi - lo)
            if g != exp:
                d = _first_diff(g, exp)
                self.fail("serialised:contents", "section %d (%r offset %#x fb %#x): file differs at +%#x: %s, expected %s"
                          % (i, s.name8, s.offset, s.fb, d, _hexs(g[d:d + 16]), _hexs(exp[d:d + 16])))
        goti = [(m["dll"], m["firstthunk"], m["funcs"]) for m in raw["imports"]]
        if goti != [(d, ft, fl) for d, ft, fl in self.imports]:
            self.fail("serialised:imports", "import table in the file %r, built %r" % (goti, self.imports))
        if self.exports is None:
            if raw["exports"] is not None:
                self.fail("serialised:exports", "unexpected export directory %r" % (raw["exports"],))
        else:
            wantx = {"name": self.exports["name"], "base": 1, "funcs": list(self.exports["funcs"]),
                     "names": sorted(self.exports["names"].items())}
            if raw["exports"] != wantx:
                self.fail("serialised:exports", "export table in the file %r, built %r" % (raw["exports"], wantx))
        if sorted(raw["relocs"]) != sorted((s, 3) for s in self.slots):
            self.fail("serialised:relocs", "relocations in the file %r, built %r" % (sorted(raw["relocs"]), sorted(self.slots)))

    def finish(self):
        self.ensure_started()
        if self.final_roundtrip:
            self.roundtrip()

    # -- description of the final image (used by C44) -------------------------------------------
    def describe(self):
        return {
            "wsize": self.wsize, "base": self.base, "salign": self.salign, "falign": self.falign,
            "sections": [dict(name=s.name8, addr=s.addr, size=s.size, rawsize=s.rawsize, offset=s.offset,
                              flags=s.flags, kind=s.kind) for s in self.sections],
            "imports": list(self.imports),
        }


def pe_ops(reloc_to=True, writes=True):
    from hypothesis import strategies as st
    i8 = st.integers(0, 255)
    i16 = st.integers(0, 0xFFFF)
    big = st.integers(0, (1 << 64) - 1)
    datalen = st.one_of(st.integers(0, 0x60), st.integers(0, 0x1400), st.sampled_from([0, 1, 0x1FF, 0x200, 0x201, 0xFFF, 0x1000, 0x1001]))
    rawpad = st.one_of(st.just(0), st.integers(0, 0x300), st.sampled_from([1, 3, 0x200, 0x1000]))
    func = st.one_of(st.integers(0, 40), st.integers(-0xFFFF, -1))
    desc = st.tuples(i8, st.lists(func, min_size=1, max_size=5), st.booleans())
    ops = [
        st.tuples(st.just("hdr"), i8, big),
        st.tuples(st.just("sec"), i8, datalen, rawpad, i8, i16, i8),
        st.tuples(st.just("sec"), i8, datalen, rawpad, i8, i16, i8),
        st.tuples(st.just("imp"), st.lists(desc, min_size=1, max_size=3), i8, i16),
        st.tuples(st.just("exp"), st.lists(st.tuples(i8, i16, i8), min_size=1, max_size=4), i8),
        st.tuples(st.just("rel"), st.lists(st.tuples(i8, i16), min_size=1, max_size=6)),
        st.tuples(st.just("rt")),
        st.tuples(st.just("chk")),
    ]
    if writes:
        ops.append(st.tuples(st.just("wr"), i8, i16, i8, i16, i8))
    if reloc_to:
        ops.append(st.tuples(st.just("reloc"), i8, big))
    return st.one_of(*ops)


def pe_history(max_ops=14, reloc_to=True, writes=True, align_choices=None):
    """[init?] + ops.  JSON-serialisable (tuples become lists on replay)."""
    from hypothesis import strategies as st
    aligns = st.sampled_from(align_choices) if align_choices else st.integers(0, len(ALIGNS) - 1)
    init = st.tuples(st.just("init"), st.integers(0, 1), aligns,
                     st.integers(0, len(LFANEWS) - 1), st.integers(0, 5))
    return st.tuples(init, st.lists(pe_ops(reloc_to, writes), min_size=1, max_size=max_ops)).map(
        lambda t: [list(t[0])] + [_listify(o) for o in t[1]])


def _listify(o):
    if isinstance(o, (tuple, list)):
        return [_listify(x) for x in o]
    return o


# ---------------------------------------------------------------------------------------------
# independent ELF reader

SHT_NAMES = {0: "NULL", 1: "PROGBITS", 2: "SYMTAB", 3: "STRTAB", 4: "RELA", 5: "HASH", 6: "DYNAMIC", 7: "NOTE",
             8: "NOBITS", 9: "REL", 11: "DYNSYM", 14: "INIT_ARRAY", 15: "FINI_ARRAY"}
# section types whose content miasm interprets (everything else is opaque bytes for the loader)
STRUCTURAL_TYPES = (2, 3, 4, 6, 7, 9, 11)


def parse_elf_raw(data):
    data = bytes(data)
    if data[:4] != b"\x7fELF":
        raise RawParseError("no ELF magic")
    cls, enc = data[4], data[5]
    if cls not in (1, 2) or enc not in (1, 2):
        raise RawParseError("class %d encoding %d" % (cls, enc))
    e = "<" if enc == 1 else ">"
    size = 32 * cls
    if size == 32:
        eh = _u(data, 16, e + "HHIIIIIHHHHHH")
    else:
        eh = _u(data, 16, e + "HHIQQQIHHHHHH")
    keys = ("type", "machine", "version", "entry", "phoff", "shoff", "flags", "ehsize", "phentsize", "phnum",
            "shentsize", "shnum", "shstrndx")
    ehdr = dict(zip(keys, eh))
    out = {"size": size, "sex": enc, "endian": e, "ehdr": ehdr}
    shdrs = []
    for i in range(ehdr["shnum"] if ehdr["shoff"] else 0):
        off = ehdr["shoff"] + i * ehdr["shentsize"]
        if size == 32:
            t = _u(data, off, e + "IIIIIIIIII")
        else:
            t = _u(data, off, e + "IIQQQQIIQQ")
        shdrs.append(dict(zip(("name", "type", "flags", "addr", "offset", "size", "link", "info", "addralign", "entsize"), t)))
    if shdrs:
        strtab = shdrs[ehdr["shstrndx"]]
        for s in shdrs:
            s["name_s"] = _cstr(data, strtab["offset"] + s["name"])
    out["shdrs"] = shdrs
    phdrs = []
    for i in range(ehdr["phnum"]):
        off = ehdr["phoff"] + i * ehdr["phentsize"]
        if size == 32:
            t = _u(data, off, e + "IIIIIIII")
            ph = dict(zip(("type", "offset", "vaddr", "paddr", "filesz", "memsz", "flags", "align"), t))
        else:
            t = _u(data, off, e + "IIQQQQQQ")
            ph = dict(zip(("type", "flags", "offset", "vaddr", "paddr", "filesz", "memsz", "align"), t))
        phdrs.append(ph)
    out["phdrs"] = phdrs

    def content(s):
        if s["type"] == 8:
            return b""
        return data[s["offset"]:s["offset"] + s["size"]]
    out["content"] = content
    symtabs = {}
    for idx, s in enumerate(shdrs):
        if s["type"] not in (2, 11):
            continue
        c = content(s)
        strs = shdrs[s["link"]]
        syms = []
        ent = s["entsize"]
        for k in range(len(c) // ent if ent else 0):
            if size == 32:
                name, value, sz, info, other, shndx = struct.unpack_from(e + "IIIBBH", c, k * ent)
            else:
                name, info, other, shndx, value, sz = struct.unpack_from(e + "IBBHQQ", c, k * ent)
            syms.append({"name": _cstr(data, strs["offset"] + name, 4096), "value": value, "size": sz, "info": info,
                         "other": other, "shndx": shndx, "name_idx": name})
        symtabs[idx] = syms
    out["symtabs"] = symtabs
    reltabs = {}
    for idx, s in enumerate(shdrs):
        if s["type"] not in (4, 9):
            continue
        c = content(s)
        ent = s["entsize"]
        rels = []
        for k in range(len(c) // ent if ent else 0):
            if size == 32:
                if s["type"] == 9:
                    off, info = struct.unpack_from(e + "II", c, k * ent)
                    add = None
                else:
                    off, info, add = struct.unpack_from(e + "III", c, k * ent)
                sym, typ = info >> 8, info & 0xFF
            else:
                if s["type"] == 9:
                    off, info = struct.unpack_from(e + "QQ", c, k * ent)
                    add = None
                else:
                    off, info, add = struct.unpack_from(e + "QQQ", c, k * ent)
                sym, typ = info >> 32, info & 0xFFFFFFFF
            rels.append({"offset": off, "info": info, "addend": add, "symidx": sym, "type": typ})
        reltabs[idx] = rels
    out["reltabs"] = reltabs
    dyns = {}
    for idx, s in enumerate(shdrs):
        if s["type"] != 6:
            continue
        c = content(s)
        ent = s["entsize"]
        lst = []
        for k in range(len(c) // ent if ent else 0):
            lst.append(struct.unpack_from(e + ("II" if size == 32 else "QQ"), c, k * ent))
        dyns[idx] = lst
    out["dynamic"] = dyns
    return out


def elf_opaque_ranges(raw):
    """File ranges (offset, length, section index) of non-empty sections whose bytes the loader does
    not interpret (not symbol/string/relocation/dynamic/note tables, not NOBITS) and that do not
    overlap any header table or other section."""
    eh = raw["ehdr"]
    reserved = [(0, eh["ehsize"])]
    if eh["phnum"]:
        reserved.append((eh["phoff"], eh["phoff"] + eh["phnum"] * eh["phentsize"]))
    if eh["shnum"] and eh["shoff"]:
        reserved.append((eh["shoff"], eh["shoff"] + eh["shnum"] * eh["shentsize"]))
    for s in raw["shdrs"]:
        if s["type"] in STRUCTURAL_TYPES and s["size"]:
            reserved.append((s["offset"], s["offset"] + s["size"]))
    out = []
    for idx, s in enumerate(raw["shdrs"]):
        if s["type"] in STRUCTURAL_TYPES or s["type"] in (0, 8) or not s["size"]:
            continue
        lo, hi = s["offset"], s["offset"] + s["size"]
        if any(lo < b and a < hi for a, b in reserved):
            continue
        if any(lo < o[0] + o[1] and o[0] < hi for o in out):
            continue
        out.append((lo, s["size"], idx))
    return out


def elf_note_ranges(raw, data):
    """SHT_NOTE sections whose bytes lie in the file, overlap no header table and no other section, and begin with a
    well-formed note record (gABI: namesz, descsz, type, name padded to 4, descriptor) with a non-empty descriptor.
    -> [(file offset, size, section index, offset of the first descriptor in the section, its length)]"""
    eh = raw["ehdr"]
    out = []
    for idx, s in enumerate(raw["shdrs"]):
        if s["type"] != 7 or s["size"] < 13:
            continue
        lo, hi = s["offset"], s["offset"] + s["size"]
        if hi > len(data):
            continue
        reserved = [(0, eh["ehsize"])]
        if eh["phnum"]:
            reserved.append((eh["phoff"], eh["phoff"] + eh["phnum"] * eh["phentsize"]))
        if eh["shnum"] and eh["shoff"]:
            reserved.append((eh["shoff"], eh["shoff"] + eh["shnum"] * eh["shentsize"]))
        for j, t in enumerate(raw["shdrs"]):
            if j != idx and t["type"] not in (0, 8) and t["size"]:
                reserved.append((t["offset"], t["offset"] + t["size"]))
        if any(lo < b and a < hi for a, b in reserved):
            continue
        namesz, descsz, _ = struct.unpack_from(raw["endian"] + "III", data, lo)
        doff = 12 + ((namesz + 3) & ~3)
        if descsz < 1 or doff + descsz > s["size"]:
            continue
        out.append((lo, s["size"], idx, doff, descsz))
    return out


def elf_virt_runs(raw, opaque=None):
    """Runs of >= 2 opaque allocated PROGBITS sections of a linked file that follow each other without gap in the
    address space (next.addr == prev.addr + prev.size), none of whose addresses belongs to any other section header
    (so an address resolves to exactly one section whatever the lookup order).
    -> [[(file offset, size, section index, addr), ...], ...]"""
    if raw["ehdr"]["type"] == 1:
        return []
    if opaque is None:
        opaque = elf_opaque_ranges(raw)
    shdrs = raw["shdrs"]
    cands = []
    for lo, size, idx in opaque:
        sh = shdrs[idx]
        if sh["type"] != 1 or not (sh["flags"] & 2) or sh["addr"] == 0:
            continue
        a, b = sh["addr"], sh["addr"] + size
        if any(j != idx and t["size"] and t["addr"] < b and a < t["addr"] + t["size"] for j, t in enumerate(shdrs)):
            continue
        cands.append((lo, size, idx, sh["addr"]))
    cands.sort(key=lambda c: c[3])
    runs = []
    cur = []
    for c in cands:
        if cur and cur[-1][3] + cur[-1][1] == c[3]:
            cur.append(c)
        else:
            if len(cur) >= 2:
                runs.append(cur)
            cur = [c]
    if len(cur) >= 2:
        runs.append(cur)
    return runs


# ---------------------------------------------------------------------------------------------
# ELF corpus (compiled on the spot)


def gen_c_source(seed, freestanding=False, imports=True, sections=False):
    """A small deterministic C translation unit: globals (data, bss, rodata, pointers needing relocations),
    static and global functions, calls to undefined externals (imports).
    sections=True: additionally 3..6 writable and 0 or 3..4 read-only byte arrays of 1..40 bytes, each in a section
    of its own with alignment 1 (the linker lays such sections out back to back: runs of address-contiguous
    PROGBITS sections); some sizes are repeated on purpose (sections of equal size)."""
    import random
    rnd = random.Random(seed)
    nfun = rnd.randint(1, 5)
    lines = []
    if imports:
        lines.append("extern int ext_func_a(int);")
        lines.append("extern int ext_func_b(const char *);")
        lines.append("extern int ext_var;")
    nglob = rnd.randint(1, 4)
    for i in range(nglob):
        kind = rnd.randint(0, 4)
        if kind == 0:
            lines.append("int g%d = %d;" % (i, rnd.randint(1, 1 << 20)))
        elif kind == 1:
            lines.append("int b%d[%d];" % (i, rnd.randint(1, 300)))
            lines.append("int *g%d = &b%d[%d];" % (i, i, 0))
        elif kind == 2:
            lines.append("const char g%d[] = \"%s\";" % (i, "".join(rnd.choice("abcdefghij ") for _ in range(rnd.randint(1, 40)))))
        elif kind == 3:
            lines.append("static int g%d = %d;" % (i, rnd.randint(1, 99)))
        else:
            lines.append("unsigned char g%d[%d] = {%s};" % (i, rnd.randint(4, 64), ",".join(str(rnd.randint(1, 255)) for _ in range(4))))
    lines.append("int sink;")
    for i in range(nfun):
        st = "static " if (rnd.random() < 0.3 and i > 0) else ""
        body = ["int r = x * %d + %d;" % (rnd.randint(2, 9), rnd.randint(0, 999))]
        for _ in range(rnd.randint(0, 4)):
            k = rnd.randint(0, 4)
            if k == 0:
                body.append("r ^= sink;")
            elif k == 1 and i > 0:
                body.append("r += f%d(r & %d);" % (rnd.randint(0, i - 1), rnd.randint(1, 255)))
            elif k == 2 and imports:
                body.append("r += ext_func_a(r) + ext_var;")
            elif k == 3 and imports:
                body.append("r += ext_func_b(\"%s\");" % "".join(rnd.choice("xyz") for _ in range(rnd.randint(1, 9))))
            else:
                body.append("for (int i = 0; i < (x & 7); i++) r += i * %d;" % rnd.randint(1, 77))
        body.append("sink = r;")
        body.append("return r;")
        lines.append("%sint f%d(int x) { %s }" % (st, i, " ".join(body)))
    if sections:
        r2 = random.Random("%s-sections" % (seed,))
        for prefix, qual, n in ((".sec_", "", r2.randint(3, 6)), (".rsec_", "const ", r2.choice([0, 3, 4]))):
            sizes = [r2.randint(1, 40) for _ in range(n)]
            for i in range(1, n):
                if r2.random() < 0.4:
                    sizes[i] = sizes[r2.randrange(i)]
            for i, sz in enumerate(sizes):
                lines.append("__attribute__((section(\"%s%c\"), aligned(1), used)) %sunsigned char %s%d[%d] = {%s};"
                             % (prefix, ord("a") + i, qual, "rs" if qual else "ws", i, sz,
                                ",".join(str(r2.randint(1, 255)) for _ in range(sz))))
    lines.append("int entry_point(int a) { return f%d(a) + f0(a + 1); }" % (nfun - 1))
    if freestanding:
        lines.append("void _start(void) { entry_point(3); for (;;) ; }")
    return "\n".join(lines) + "\n"


BE_TRIPLES = ["mips-linux-gnu", "mips64-linux-gnu", "powerpc-linux-gnu", "powerpc64-linux-gnu",
              "armeb-linux-gnueabi", "aarch64_be-linux-gnu", "s390x-linux-gnu"]
LE_TRIPLES = ["arm-linux-gnueabi", "aarch64-linux-gnu", "mipsel-linux-gnu", "i386-linux-gnu", "x86_64-linux-gnu"]


def _run(cmd, cwd):
    env = dict(os.environ, TMPDIR=cwd, LC_ALL="C")      # compiler temporaries stay inside the scratch directory
    p = subprocess.run(cmd, cwd=cwd, env=env, stdout=subprocess.PIPE, stderr=subprocess.STDOUT, timeout=300)
    return p.returncode, p.stdout.decode("utf-8", "replace")


def elf_recipes(extra=False):
    """(label, kind, command template, needs_imports, freestanding[, custom sections]).  {src} {out} are substituted.
    extra=True appends the recipes whose source puts byte arrays in sections of their own (gen_c_source(sections=True))."""
    r = []
    for opt in ("-O0", "-O2", "-Os"):
        r.append(("gcc64-c" + opt, "rel", ["gcc", opt, "-c", "{src}", "-o", "{out}"], True, False))
    r.append(("gcc64-c-g", "rel", ["gcc", "-g", "-ffile-prefix-map={dir}=.", "-c", "{src}", "-o", "{out}"], True, False))
    r.append(("gcc64-c-fsec", "rel", ["gcc", "-O1", "-ffunction-sections", "-fdata-sections", "-fPIC", "-c", "{src}", "-o", "{out}"], True, False))
    r.append(("gcc32-c", "rel", ["gcc", "-m32", "-O1", "-c", "{src}", "-o", "{out}"], True, False))
    r.append(("gcc32-c-pic", "rel", ["gcc", "-m32", "-O0", "-fPIC", "-c", "{src}", "-o", "{out}"], True, False))
    r.append(("gcc64-static", "exec", ["gcc", "-O1", "-nostdlib", "-static", "-no-pie", "{src}", "-o", "{out}"], False, True))
    r.append(("gcc64-static-pie", "dyn", ["gcc", "-O1", "-nostdlib", "-static-pie", "{src}", "-o", "{out}"], False, True))
    r.append(("gcc32-static", "exec", ["gcc", "-m32", "-O1", "-nostdlib", "-static", "-no-pie", "{src}", "-o", "{out}"], False, True))
    r.append(("gcc64-shared", "dyn", ["gcc", "-O1", "-shared", "-fPIC", "-nostdlib", "{src}", "-o", "{out}"], True, False))
    r.append(("gcc64-shared-libc", "dyn", ["gcc", "-O2", "-shared", "-fPIC", "{src}", "-o", "{out}"], True, False))
    r.append(("gcc32-shared", "dyn", ["gcc", "-m32", "-O1", "-shared", "-fPIC", "-nostdlib", "{src}", "-o", "{out}"], True, False))
    r.append(("gcc64-shared-now", "dyn", ["gcc", "-O1", "-shared", "-fPIC", "-nostdlib", "-Wl,-z,now", "-Wl,-z,norelro", "{src}", "-o", "{out}"], True, False))
    for t in BE_TRIPLES:
        r.append(("clang-be-" + t, "rel", ["clang", "--target=" + t, "-O1", "-ffreestanding", "-fno-builtin", "-c", "{src}", "-o", "{out}"], True, False))
    for t in LE_TRIPLES:
        r.append(("clang-le-" + t, "rel", ["clang", "--target=" + t, "-O1", "-ffreestanding", "-fno-builtin", "-c", "{src}", "-o", "{out}"], True, False))
    if extra:
        r.append(("gcc64-static-secs", "exec", ["gcc", "-O1", "-nostdlib", "-static", "-no-pie", "{src}", "-o", "{out}"], False, True, True))
        r.append(("gcc32-static-secs", "exec", ["gcc", "-m32", "-O1", "-nostdlib", "-static", "-no-pie", "{src}", "-o", "{out}"], False, True, True))
        r.append(("gcc64-static-pie-secs", "dyn", ["gcc", "-O1", "-nostdlib", "-static-pie", "{src}", "-o", "{out}"], False, True, True))
        r.append(("gcc64-shared-secs", "dyn", ["gcc", "-O1", "-shared", "-fPIC", "-nostdlib", "{src}", "-o", "{out}"], True, False, True))
        r.append(("gcc64-c-secs", "rel", ["gcc", "-O1", "-c", "{src}", "-o", "{out}"], True, False, True))
    return r


def build_elf_corpus(scratch, seed, picks, res=None, extra=False):
    """Compile recipes[picks[i]] on a source derived from (seed, i).  -> [(label, kind, bytes, source)].
    Recipes the local toolchain cannot build are dropped (counted in res.dropped)."""
    recipes = elf_recipes(extra)
    out = []
    for n, pi in enumerate(picks):
        rec = recipes[pi % len(recipes)]
        label, kind, cmd, imports, freestanding = rec[:5]
        src_seed = "%s-%d-%d" % (seed, n, pi)
        src = gen_c_source(src_seed, freestanding=freestanding, imports=imports, sections=len(rec) > 5 and rec[5])
        sname = "s%d.c" % n
        oname = "o%d.bin" % n
        with open(os.path.join(scratch, sname), "w") as f:
            f.write(src)
        c = [x.replace("{src}", sname).replace("{out}", oname).replace("{dir}", scratch) for x in cmd]
        try:
            rc, txt = _run(c, scratch)
        except (OSError, subprocess.TimeoutExpired) as e:
            rc, txt = -1, repr(e)
        opath = os.path.join(scratch, oname)
        if rc != 0 or not os.path.exists(opath):
            if res is not None:
                res.dropped["toolchain cannot build %s" % label] += 1
            continue
        with open(opath, "rb") as f:
            data = f.read()
        os.unlink(opath)
        out.append((label, kind, data, src))
    return out


REPO_SAMPLES = [("repo-md5_arm", "exec", "md5_arm"), ("repo-md5_aarch64l", "exec", "md5_aarch64l"),
                ("repo-md5_ppc32b", "exec", "md5_ppc32b"), ("repo-dse_crackme", "dyn", "dse_crackme")]


def repo_elf_sample(k):
    """k-th linked ELF shipped in the repository's example/samples (dynamic executables for ARM, AArch64,
    big-endian PowerPC, x86-64 PIE): the only big-endian *executable* available in the sandbox.
    -> (label, kind, bytes, "") | None"""
    from vlib.runner import REPO
    if not 0 <= k < len(REPO_SAMPLES):
        return None
    label, kind, name = REPO_SAMPLES[k]
    path = os.path.join(REPO, "example", "samples", name)
    if not os.path.exists(path):
        return None
    with open(path, "rb") as f:
        return (label, kind, f.read(), "")
