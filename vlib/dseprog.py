"""dseprog — small C functions with input-dependent branches, compiled with the host gcc (-m32) into raw x86_32 code.

    unsigned fN(unsigned a, unsigned b, unsigned char *buf)          buf: 8 bytes

Every memory access goes through `buf` with a *constant* index (or through the stack frame), so addresses are never
input-dependent; the data read, the branch conditions, loop trip counts (<= 4), variable shift counts and the values
written back into buf are.  Programs are total: no division by zero (divisor forced odd), bounded loops, no calls.

Compilation: one translation unit per (batch, optimisation level) with
`gcc -m32 -ffreestanding -fno-builtin -fno-pic -fno-jump-tables -ffunction-sections -mno-sse -mno-mmx ... -c`;
each `.text.fN` section is read with vlib.ccorpus.extract (a function with a relocation is dropped).
Nothing here imports miasm.
"""
import os
import subprocess

from vlib import ccorpus

BUF_LEN = 8

FLAGS = ["-m32", "-march=i686", "-ffreestanding", "-fno-builtin", "-fno-pic", "-fno-jump-tables",
         "-ffunction-sections", "-fno-asynchronous-unwind-tables", "-fno-stack-protector", "-fcf-protection=none",
         "-fno-tree-vectorize", "-mno-sse", "-mno-mmx", "-fno-unroll-loops", "-fwrapv", "-w"]

PRELUDE = "typedef unsigned W;\ntypedef int SW;\ntypedef unsigned char B;\ntypedef unsigned short H;\n"

# hand-written programs, identical at every seed
FIXED = [
    ("cmp_chain", "W {f}(W a, W b, B *buf) { if (a * 3 + 1 == b) { if (buf[0] == 'x' && buf[1] > 5) return 1; "
                  "return 2; } if ((SW)a < -5) return 3; return 4; }"),
    ("inplace_xor", "W {f}(W a, W b, B *buf) { buf[0] ^= 0x55; buf[1] = (B)(buf[1] + 3); if (buf[0] == 'x') "
                    "{ if (buf[1] == 'y') return 1; return 2; } return 3; }"),
    ("decode_loop", "W {f}(W a, W b, B *buf) { W i; W s = 0; for (i = 0; i < 4; i++) { buf[i] = (B)(buf[i] ^ (B)(0x21 + i)); "
                    "s += buf[i]; } if (s == 0x1a0) return 1; if (buf[2] == 'k') return 2; return 3; }"),
    ("arg_loop", "W {f}(W a, W b, B *buf) { W n = (a & 3) + 1; W r = b; W i; for (i = 0; i < n; i++) { if (r & 1) "
                 "r = r * 3 + 1; else r >>= 1; } if (r == 5) return 1; return r & 0xff; }"),
    ("shift_var", "W {f}(W a, W b, B *buf) { W r = a << (b & 31); if (r == 0x80000000u) return 1; r = (W)((SW)a >> (buf[0] & 31)); "
                  "if (r == 0xffffffffu) return 2; if ((b >> (a & 31)) == 3) return 3; return 4; }"),
    ("signed_cmp", "W {f}(W a, W b, B *buf) { SW x = (SW)a, y = (SW)b; if (x < y) { if (x + 100 > y) return 1; return 2; } "
                   "if (x == y) return 3; if ((signed char)buf[3] < 0) return 4; return 5; }"),
    ("halfword", "W {f}(W a, W b, B *buf) { H h = *(H *)(buf + 2); if (h == 0x1234) return 1; *(H *)(buf + 4) = (H)(h + a); "
                 "if (buf[4] == 0x10 && buf[5] == 0x20) return 2; return 3; }"),
    ("muldiv", "W {f}(W a, W b, B *buf) { W d = (b & 0xff) | 1; W q = a / d; W m = a % d; if (q == 7 && m == 2) return 1; "
               "if (a * b == 0x1000) return 2; return 3; }"),
    ("switch3", "W {f}(W a, W b, B *buf) { switch (buf[0] & 3) { case 0: if (a == 11) return 1; break; case 1: "
                "if (b == 22) return 2; break; case 2: return 3; default: break; } return 4; }"),
    ("store_then_test", "W {f}(W a, W b, B *buf) { buf[7] = (B)a; buf[6] = (B)(a >> 8); if (buf[7] == 0x41) "
                        "{ if (buf[6] == 0x42) return 1; return 2; } return 3; }"),
]


class Gen(object):
    def __init__(self, rng):
        self.rng = rng
        self.loopvars = []
        self.nloop = 0
        self.nret = 0

    CONSTS = [0, 1, 2, 3, 5, 7, 8, 0x10, 0x1f, 0x20, 0x41, 0x55, 0x7f, 0x80, 0xff, 0x100, 0x1234, 0x7fff, 0x8000, 0xffff,
              0x10000, 0x7fffffff, 0x80000000, 0xfffffffe, 0xffffffff, 0xdeadbeef]

    def const(self):
        r = self.rng
        if r.random() < 0.8:
            return "%du" % r.choice(self.CONSTS)
        return "%du" % r.getrandbits(32)

    def load(self):
        r = self.rng
        k = r.random()
        if k < 0.75:
            return "(W)buf[%d]" % r.randrange(BUF_LEN)
        if k < 0.85:
            return "(W)(SW)(signed char)buf[%d]" % r.randrange(BUF_LEN)
        if k < 0.95:
            return "(W)*(H *)(buf + %d)" % r.randrange(BUF_LEN - 1)
        return "*(W *)(buf + %d)" % r.randrange(BUF_LEN - 3)

    def leaf(self):
        r = self.rng
        k = r.random()
        if k < 0.5:
            return r.choice(["a", "b", "r", "t"] + self.loopvars)
        if k < 0.7:
            return self.const()
        return self.load()

    def expr(self, depth):
        r = self.rng
        if depth <= 0 or r.random() < 0.3:
            return self.leaf()
        op = r.choice(["+", "-", "^", "&", "|", "+", "-", "^", "shlc", "shrc", "sarc", "*", "neg", "not", "ext",
                       "shl", "shr", "sar", "div", "mod", "cmp", "sel", "rot"])
        x = self.expr(depth - 1)
        if op in ("+", "-", "^", "&", "|", "*"):
            return "(%s %s %s)" % (x, op, self.expr(depth - 1))
        if op == "shlc":
            return "(%s << %d)" % (x, r.choice([1, 2, 3, 4, 7, 8, 16, 24, 31]))
        if op == "shrc":
            return "(%s >> %d)" % (x, r.choice([1, 2, 3, 4, 7, 8, 16, 24, 31]))
        if op == "sarc":
            return "(W)((SW)%s >> %d)" % (x, r.choice([1, 2, 7, 8, 16, 31]))
        if op == "shl":
            return "(%s << (%s & 31))" % (x, self.expr(depth - 1))
        if op == "shr":
            return "(%s >> (%s & 31))" % (x, self.expr(depth - 1))
        if op == "sar":
            return "(W)((SW)%s >> (%s & 31))" % (x, self.expr(depth - 1))
        if op == "rot":
            k = r.choice([1, 3, 8, 13])
            return "((%s << %d) | (%s >> %d))" % (x, k, x, 32 - k)
        if op == "div":
            return "(%s / ((%s & 0xff) | 1))" % (x, self.expr(depth - 1))
        if op == "mod":
            return "(%s %% ((%s & 0xff) | 1))" % (x, self.expr(depth - 1))
        if op == "neg":
            return "(0u - %s)" % x
        if op == "not":
            return "(~%s)" % x
        if op == "ext":
            return r.choice(["(W)(B)%s", "(W)(SW)(signed char)%s", "(W)(H)%s", "(W)(SW)(short)%s"]) % x
        if op == "cmp":
            return "(W)(%s)" % self.cond(depth - 1)
        if op == "sel":
            return "((%s) ? %s : %s)" % (self.cond(depth - 1), x, self.expr(depth - 1))
        raise AssertionError(op)

    def cond(self, depth):
        r = self.rng
        x = self.expr(depth)
        k = r.random()
        if k < 0.3:
            return "%s == %s" % (x, self.const())
        if k < 0.55:
            return "%s %s %s" % (x, r.choice(["<", "<=", "==", "!=", ">", ">="]), self.expr(depth))
        if k < 0.8:
            return "(SW)%s %s (SW)%s" % (x, r.choice(["<", "<=", ">", ">="]), self.expr(depth))
        if k < 0.9:
            return "(%s & %s) != 0" % (x, self.const())
        return "(B)%s == %d" % (x, r.randrange(256))

    def store(self):
        r = self.rng
        e = self.expr(2)
        k = r.random()
        if k < 0.8:
            return "buf[%d] = (B)%s;" % (r.randrange(BUF_LEN), e)
        return "*(H *)(buf + %d) = (H)%s;" % (r.randrange(BUF_LEN - 1), e)

    def stmt(self, depth):
        r = self.rng
        k = r.random()
        if depth <= 0 or k < 0.3:
            return "%s = %s;" % (r.choice(["r", "t", "r"]), self.expr(2))
        if k < 0.42:
            return self.store()
        if k < 0.75:
            body = self.block(depth - 1, r.randint(1, 2))
            if r.random() < 0.5:
                return "if (%s) { %s }" % (self.cond(1), body)
            return "if (%s) { %s } else { %s }" % (self.cond(1), body, self.block(depth - 1, r.randint(1, 2)))
        if k < 0.83:
            self.nret += 1
            return "if (%s) return %du;" % (self.cond(1), 1000 + self.nret)
        if k < 0.95 and self.nloop < 2:
            self.nloop += 1
            v = "i%d" % self.nloop
            bound = r.choice(["%du" % r.randint(1, 4), "((%s & 3) + 1)" % self.expr(1)])
            self.loopvars.append(v)
            body = self.block(depth - 1, r.randint(1, 2))
            self.loopvars.pop()
            return "{ W n_%s = %s; W %s; for (%s = 0; %s < n_%s; %s++) { %s } }" % (v, bound, v, v, v, v, v, body)
        n = r.randint(2, 3)
        arms = []
        for i in range(n):
            arms.append("case %d: %s break;" % (i, self.block(depth - 1, 1)))
        arms.append("default: %s break;" % self.block(depth - 1, 1))
        return "switch (%s & 3) { %s }" % (self.expr(1), " ".join(arms))

    def block(self, depth, n):
        return " ".join(self.stmt(depth) for _ in range(n))

    def function(self):
        body = self.block(2, self.rng.randint(2, 4))
        return "W {f}(W a, W b, B *buf) { W r = a; W t = b; %s return r + t; }" % body


def render(funcs):
    parts = [PRELUDE]
    for k, (_tag, tmpl) in enumerate(funcs):
        parts.append(tmpl.replace("{f}", "f%d" % k))
    return "\n".join(parts) + "\n"


def compile_batch(funcs, opt, workdir, load_addr, tag="d"):
    """funcs: list of (tag, template).  -> list of dict(tag, src, code (bytes|None), reason)"""
    src = os.path.join(workdir, "%s%s.c" % (tag, opt))
    objp = src[:-2] + ".o"
    with open(src, "w") as f:
        f.write(render(funcs))
    env = dict(os.environ)
    env["TMPDIR"] = workdir
    p = subprocess.run(["gcc", opt] + FLAGS + ["-c", src, "-o", objp], stdout=subprocess.PIPE,
                       stderr=subprocess.STDOUT, env=env)
    if p.returncode != 0:
        raise RuntimeError("gcc failed: " + p.stdout.decode("utf8", "replace")[-3000:])
    with open(objp, "rb") as f:
        data = f.read()
    res = ccorpus.extract(data, len(funcs), load_addr)
    os.unlink(objp)
    os.unlink(src)
    return [dict(tag=funcs[k][0], src=funcs[k][1], code=res[k][0], reason=res[k][1]) for k in range(len(funcs))]
