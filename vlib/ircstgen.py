"""Hazard-directed strata of IR graphs for the constant propagation (C40).

vlib.irgraphgen.graph draws cells, constants and pointer registers independently, so two situations the
constant propagation (cst_propag over the symbolic engine's memory model) must get right are rare there:

const_cells_graph(voc, rnd)   "stored constants re-read at other offsets / widths"
    2..4 stores of distinct byte-patterned CONSTANTS to adjacent cells  @w[base + o]  (widths 8/16/32, one base:
    ESP, a data register, ESI or an absolute address; the region may cross offset 0), in address / reverse / random
    order, optionally with: a gap (one cell left unknown), a narrower constant overwriting part of a cell, one cell
    holding a register instead of a constant, one cell stored twice.  Then 1..3 loads of width 8/16/32 (64 through a
    slice) whose start is, three times out of four, chosen so that the load strictly spans a boundary between two
    stored cells (unaligned w.r.t. both) -- the symbolic memory (MemArray.read) has to glue slices of two constants;
    otherwise anywhere from 2 bytes below to the end of the region.  Loaded registers are used through copies,
    arithmetic, selections, and stored to absolute sink cells (0x3000..).  When every load is entirely made of stored
    constants, the cells may be overwritten afterwards with other constants and the loaded registers used again (the
    forwarded value is a snapshot).  No cell is stored after a load that reads bytes no constant covers: that
    would be the known weakness (memory read propagated across a later store), not this hazard.

path_pointer_graph(voc, rnd)  "load through a pointer that is not a constant expression"
    A pointer register P (ESI / EDI / EBP / ECX) is made path dependent: set to  base + o1 | base + o2  (or another
    register) in the two arms of a diamond, modified in one arm of an if-then, or walked in a counted loop; controls:
    same value in both arms, P never assigned (P_init: constant pointers).  At the join / in the loop body:
        r = @w[P + o]  ;  P = P + d | base + o3 | Q | r   (possibly in ONE AssignBlock, lods-like; or P = @32[P + o]:
        list walk)  ;  optionally a second load through the new P  ;  uses of the loaded registers: copy, sink store,
        arithmetic with a register, selection, difference of two loaded values, store through the loaded value.
    The loaded value must keep denoting the cell addressed by the OLD pointer.  Nothing is stored on the base of
    the loads (sinks are absolute cells 0x3000..), so the known weakness cannot trigger.

Both are pure functions of a random.Random (callers seed it with runner.derive_seed); raw graph form of
vlib.irgen / vlib.irgraphgen (same serialisation, same shrinker).  meta["shapes"] holds coverage tags
("cstmem", "cstmem:<layout>", "cstmem:span", ... / "pathptr", "pathptr:<kind>", ...).
"""
from vlib import irgraphgen as gg
from vlib import iraliasgen as ag

SINK = 0x3000


def _const(rnd, w):
    """constant of width w whose bytes are pairwise distinct and non-zero"""
    bs = rnd.sample(range(1, 256), w // 8)
    return gg._int(int.from_bytes(bytes(bs), "little"), w)


def _cond_of(b, voc, rnd, t, f, avoid=()):
    m = gg._m()
    ch = rnd.choice
    data = [v for v in voc.data if v not in avoid] or list(voc.data)
    k = rnd.randrange(5)
    if k < 2 and voc.flags:
        c = ch(voc.flags)
    elif k < 3:
        c = ch(data)
    elif k < 4:
        c = m.ExprOp('&', ch(data), gg._int(ch([1, 2, 0x80000000, 0xff]), 32))
    else:
        c = m.ExprOp(ch(gg.CMPS), ch(data), gg._int(ch(gg.SMALL_CONSTS), 32))
    return m.ExprCond(c, b.loc(t), b.loc(f)) if rnd.random() < 0.5 else m.ExprCond(c, b.loc(f), b.loc(t))


def _exit(b, voc, rnd, last, tags, observe_p=3):
    m = gg._m()
    ch = rnd.choice
    kind = ch(list(voc.exits) + (["ret"] if "ret" in voc.exits else []))
    pre = [gg.observer_blk(voc)] if rnd.randrange(observe_p) == 0 else []
    tags.append("exit:" + kind)
    if kind == "ret":
        b.blocks[last] = pre + [[(voc.sp, m.ExprOp('+', voc.sp, gg._int(4, 32))), (voc.irdst, m.ExprMem(voc.sp, 32))]]
        b.order.append(last)
    elif kind == "reg":
        b.emit(last, pre, ch(voc.data))
    elif kind == "loc":
        b.emit(last, pre, b.loc(b.new_loc()))
    else:
        b.emit(last, pre, gg._int(ch([0x1000, 0x401000, 0xdead0000]), 32))


class _Sinks(object):
    def __init__(self):
        self.n = 0

    def __call__(self):
        i = self.n
        self.n += 1
        return gg._m().ExprMem(gg._int(SINK + 4 * i, 32), 32)


def _uses(voc, rnd, loaded, sink, ret_free=True, through=False, avoid=()):
    """AssignBlocks using every loaded register (32-bit view); copies never go to a register of `avoid`"""
    m = gg._m()
    ch = rnd.choice
    data = list(voc.data)
    wide = [r if r.size == 32 else m.ExprOp("zeroExt_32", r) for r in loaded]
    out = []
    if len(wide) >= 2 and rnd.randrange(2) == 0:
        out.append([(sink(), m.ExprOp(ch(['-', '^']), wide[0], wide[1]))])
    for r, e in zip(loaded, wide):
        k = rnd.randrange(11)
        if k < 3:
            out.append([(sink(), e)])
        elif k < 5:
            free = [v for v in data if v not in loaded and v not in avoid]
            if free and ret_free:
                d = ch(free)
                out.append([(d, e)])
                out.append([(sink(), d)])
            else:
                out.append([(sink(), e)])
        elif k < 7:
            out.append([(sink(), m.ExprOp(ch(['+', '^', '-']), e, ch(data)))])
        elif k < 8:
            out.append([(sink(), m.ExprCond(e, gg._int(1, 32), gg._int(2, 32)))])
        elif k < 9:
            out.append([(sink(), m.ExprOp('+', e, gg._int(ch([1, 4, 0x100, 0xffffffff]), 32)))])
        elif k < 10 and through and r.size == 32:
            out.append([(m.ExprMem(r, 32), gg._int(0x600df00d, 32))])
            out.append([(sink(), e)])
        else:
            out.append([(sink(), e)])
            out.append([(sink(), m.ExprOp('-', e))])
    return out


# ----------------------------------------------------------------------------------------------
# (a) adjacent constant cells re-read at other offsets / widths

def const_cells_graph(voc, rnd):
    m = gg._m()
    b = ag._B(voc, rnd)
    ch = rnd.choice
    p = lambda num, den: rnd.randrange(den) < num
    data = list(voc.data)
    base = ch([("reg", "ESP")] * 2 + [("reg", v.name) for v in data[1:]] + [("reg", "ESI"), ("abs", 0x1000)])
    base_ids = set([m.ExprId(base[1], 32)]) if base[0] == "reg" else set()
    layout = ch(["straight"] * 4 + ["diamond", "diamond", "ifthen", "loop"])
    tags = ["cstmem", "cstmem:" + layout, "cstmem:base-" + (base[1] if base[0] == "reg" else "abs")]
    # ---- stores
    o0 = ch([0, 0, 0, 4, 8, -4, -8, -2, 1])
    ns = ch([2, 2, 2, 3, 3, 4])
    cells, o = [], o0
    for _ in range(ns):
        w = ch([32, 32, 32, 16, 8])
        cells.append((o, w))
        o += w // 8
    hi = o
    bounds = [c[0] for c in cells[1:]]
    stores = [(c, _const(rnd, c[1])) for c in cells]
    k = rnd.randrange(3)
    if k == 1:
        stores.reverse()
    elif k == 2:
        rnd.shuffle(stores)
    k = rnd.randrange(7)
    if k == 0 and ns >= 3:
        del stores[rnd.randrange(len(stores))]
        tags.append("cstmem:gap")
    elif k == 1:
        w = ch([8, 8, 16])
        c = (rnd.randrange(o0, hi - w // 8 + 1), w)
        stores.append((c, _const(rnd, w)))
        tags.append("cstmem:overwrite-part")
    elif k == 2:
        i = rnd.randrange(len(stores))
        c = stores[i][0]
        if c[1] == 32:
            v = ch([v for v in data if v not in base_ids])
        elif voc.by_size(c[1]):
            v = ch(voc.by_size(c[1]))
        else:
            v = m.ExprSlice(ch(data), 0, c[1])
        stores[i] = (c, v)
        tags.append("cstmem:register-cell")
    elif k == 3:
        c = ch(stores)[0]
        stores.append((c, _const(rnd, c[1])))
        tags.append("cstmem:stored-twice")
    cover = {}
    for (co, cw), v in stores:
        for j in range(cw // 8):
            cover[co + j] = v.is_int()
    items = [("S", [(ag.mem(base, c), v)]) for c, v in stores]
    # ---- loads
    loaded = []
    all_const = True
    for _ in range(ch([1, 1, 2, 2, 3])):
        free = [v for v in data if v not in base_ids and v not in loaded]
        if not free:
            break
        w = ch([32, 32, 32, 32, 16, 16, 8, 64])
        nb = w // 8
        if nb > 1 and p(3, 4):
            start = ch(bounds) - rnd.randrange(1, nb)
            tags.append("cstmem:span")
        else:
            start = rnd.randrange(o0 - 2, hi + 1)
        tags.append("cstmem:w%d" % w)
        n_const = sum(1 for j in range(nb) if cover.get(start + j))
        if n_const == nb:
            tags.append("cstmem:load-all-const")
            if any(start < bd < start + nb for bd in bounds):
                tags.append("cstmem:load-const-span")
        else:
            all_const = False
            tags.append("cstmem:load-part-const" if n_const else "cstmem:load-unknown")
        cell = ag.mem(base, (start, w))
        kk = rnd.randrange(8)
        smalls = [v for v in voc.by_size(w) if v not in loaded] if w < 32 else []
        if w == 64:
            s = ch([0, 32, 16])
            r, src = ch(free), m.ExprSlice(cell, s, s + 32)
        elif smalls and kk < 2:
            r, src = smalls[0], cell
        else:
            r = ch(free)
            if w < 32:
                src = m.ExprOp(ch(["zeroExt_32", "signExt_32"]), cell)
            elif kk < 6:
                src = cell
            else:
                src = m.ExprOp(ch(['+', '^']), cell, ch(data + [gg._int(4, 32)]))
        loaded.append(r)
        items.append(("L", [(r, src)]))
    # ---- uses
    sink = _Sinks()
    ret_free = voc.ret not in base_ids
    for ab in _uses(voc, rnd, loaded, sink, ret_free, avoid=base_ids):
        items.append(("U", ab))
    alt_store = layout == "diamond" and p(1, 2)
    if all_const and layout == "straight" and p(1, 2):
        # snapshot: the cells change afterwards, the loaded registers are used again
        tags.append("cstmem:restore-after-load")
        for _ in range(rnd.randrange(1, 3)):
            w = ch([32, 32, 16, 8])
            c = (rnd.randrange(o0 - 1, hi), w)
            items.append(("S", [(ag.mem(base, c), _const(rnd, w))]))
        for ab in _uses(voc, rnd, loaded, sink, False):
            items.append(("U", ab))
    # a load and the use/store next to it never share an AssignBlock here; two consecutive stores may
    seq = []
    for kind, ab in items:
        if seq and kind == "S" and seq[-1][0] == "S" and p(1, 5) and len(seq[-1][1]) == 1 and \
                not _overlap_dst(seq[-1][1][0][0], ab[0][0]):
            seq[-1] = ("SS", seq[-1][1] + ab)
            tags.append("cstmem:parallel-stores")
        else:
            seq.append((kind, ab))
    seq = [ab for _, ab in seq]
    # ---- three groups
    n = len(seq)
    c1 = rnd.randrange(n + 1)
    c2 = rnd.randrange(c1, n + 1)
    g0, g1, g2 = seq[:c1], seq[c1:c2], seq[c2:]
    head, last = b.new_loc(), b.new_loc()
    if layout == "straight":
        if p(1, 2):
            b.emit(head, seq, b.loc(last))
        else:
            x, y = b.new_loc(), b.new_loc()
            b.emit(head, g0, b.loc(x))
            b.emit(x, g1, b.loc(y))
            b.emit(y, g2, b.loc(last))
    elif layout in ("diamond", "ifthen"):
        t, join = b.new_loc(), b.new_loc()
        f = b.new_loc() if layout == "diamond" else join
        b.emit(head, g0, _cond_of(b, voc, rnd, t, f, avoid=loaded))
        b.emit(t, g1, b.loc(join))
        if layout == "diamond":
            alt = []
            if alt_store:
                c = ch(cells)
                alt = [[(ag.mem(base, c), _const(rnd, c[1]))]]
                tags.append("cstmem:alt-store")
            elif p(1, 2) and loaded:
                r = ch(loaded)
                alt = [[(r, gg._int(ch([0, 1, 0x7f]), r.size))]]
            b.emit(f, alt, b.loc(join))
        b.emit(join, g2, b.loc(last))
    else:
        cnt = [c for c in voc.counters if c not in base_ids][-1]
        turns = rnd.randrange(1, 4)
        h, post = b.new_loc(), b.new_loc()
        dec = m.ExprOp('+', cnt, gg._int(-1, 32))
        back = m.ExprCond(dec, b.loc(h), b.loc(post))
        b.emit(head, g0 + [[(cnt, gg._int(turns, 32))]], b.loc(h))
        b.emit(h, g1 + [[(cnt, dec)]], back, merge=True)
        b.emit(post, g2, b.loc(last))
    _exit(b, voc, rnd, last, tags)
    return b.finish(head, tags)


def _overlap_dst(d1, d2):
    """two store destinations of one AssignBlock must not overlap (order of parallel stores is unspecified)"""
    return True if d1 == d2 else _ptr_off(d1) is None or _ptr_off(d2) is None or bool(
        set(range(_ptr_off(d1), _ptr_off(d1) + d1.size // 8)) & set(range(_ptr_off(d2), _ptr_off(d2) + d2.size // 8)))


def _ptr_off(cell):
    ptr = cell.ptr
    if ptr.is_int():
        return int(ptr) - 0x1000
    if ptr.is_id():
        return 0
    if ptr.is_op('+') and len(ptr.args) == 2 and ptr.args[1].is_int():
        v = int(ptr.args[1])
        return v - (1 << 32) if v >= 0x80000000 else v
    return None


# ----------------------------------------------------------------------------------------------
# (b) loads through a path-dependent pointer that is redefined before the loaded value is used

P_OFFS = [0, 0, 4, 8, 0x10, 0x40, -4, 1, 2]
P_STEPS = [4, 4, -4, 1, 2, 8, 0x10]


def path_pointer_graph(voc, rnd):
    m = gg._m()
    b = ag._B(voc, rnd)
    ch = rnd.choice
    p = lambda num, den: rnd.randrange(den) < num
    data = list(voc.data)
    base = ch([("reg", "EBX")] * 3 + [("reg", "ESP"), ("reg", "EDX"), ("abs", 0x1000)])
    base_ids = set([m.ExprId(base[1], 32)]) if base[0] == "reg" else set()
    P = m.ExprId(ch(["ESI", "ESI", "ESI", "EDI", "EBP", "ECX"]), 32)
    kind = ch(["diamond"] * 4 + ["ifthen"] * 2 + ["loop"] * 3 + ["same", "uninit"])
    tags = ["pathptr", "pathptr:" + kind, "pathptr:ptr-" + P.name,
            "pathptr:base-" + (base[1] if base[0] == "reg" else "abs")]
    protected = set(base_ids) | set([P])
    counters = [c for c in voc.counters if c != P]
    cnt = counters[-1]
    if kind == "loop":
        protected.add(cnt)
    sink = _Sinks()

    def bptr(off):
        return ag.pointer(base, off)

    def pcell(w):
        o = ch([0, 0, 0, 4, -4, 1, 8])
        ptr = P if o == 0 else m.ExprOp('+', P, gg._int(o, 32))
        return m.ExprMem(ptr, w)

    loaded = []

    def load():
        free = [v for v in data if v not in protected and v not in loaded]
        if not free:
            return None
        w = ch([32, 32, 32, 32, 16, 8])
        cell = pcell(w)
        kk = rnd.randrange(8)
        smalls = [v for v in voc.by_size(w) if v not in loaded] if w < 32 else []
        if smalls and kk < 2:
            r, src = smalls[0], cell
        else:
            r = ch(free)
            if w < 32:
                src = m.ExprOp(ch(["zeroExt_32", "signExt_32"]), cell)
            elif kk < 6:
                src = cell
            else:
                src = m.ExprOp(ch(['+', '^']), cell, gg._int(ch([1, 4, 0xff]), 32))
        loaded.append(r)
        return [(r, src)]

    def redef(last_loaded):
        k = rnd.randrange(10)
        if k < 5:
            tags.append("pathptr:redef-step")
            return [(P, m.ExprOp('+', P, gg._int(ch(P_STEPS), 32)))]
        if k < 6:
            tags.append("pathptr:redef-base")
            return [(P, bptr(ch(P_OFFS)))]
        if k < 7:
            others = [v for v in data if v not in loaded and v != P]
            if others:
                tags.append("pathptr:redef-reg")
                return [(P, ch(others))]
        if k < 8 and last_loaded is not None and last_loaded.size == 32:
            tags.append("pathptr:redef-loaded")
            return [(P, last_loaded)]
        if k < 9:
            tags.append("pathptr:redef-walk")
            return [(P, pcell(32))]
        tags.append("pathptr:redef-step")
        return [(P, m.ExprOp('+', P, gg._int(-ch([4, 1, 8]), 32)))]

    # ---- the section: load ; redefine ; (load) ; (redefine) ; uses
    section = []
    walk_first = p(1, 8)
    if walk_first:
        # list walk: the pointer itself is the loaded value
        section.append([(P, pcell(32))])
        tags.append("pathptr:walk-first")
        section.append(redef(None))
    else:
        l1 = load()
        r1 = redef(loaded[-1])
        if p(1, 4) and r1[0][1] != loaded[-1]:
            section.append(l1 + r1)
            tags.append("pathptr:parallel-load-redef")
        else:
            section.append(l1)
            if p(1, 6):
                nb = _noise(voc, rnd, protected | set(loaded))
                if nb:
                    section.append(nb)
            section.append(r1)
    if p(1, 3):
        l2 = load()
        if l2:
            section.append(l2)
            tags.append("pathptr:second-load")
            if p(1, 2):
                section.append(redef(loaded[-1]))
    acc = None
    if kind == "loop" and p(1, 2):
        free = [v for v in data if v not in protected and v not in loaded]
        if free and loaded:
            acc = ch(free)
            e = loaded[0] if loaded[0].size == 32 else m.ExprOp("zeroExt_32", loaded[0])
            section.append([(acc, m.ExprOp(ch(['+', '^']), acc, e))])
            tags.append("pathptr:accumulate")
    used = list(loaded) + ([P] if walk_first or p(1, 4) else [])
    uses = _uses(voc, rnd, used, sink, ret_free=True, through=True, avoid=protected)
    cut = rnd.randrange(len(uses) + 1) if p(1, 3) else len(uses)
    section += uses[:cut]
    later = uses[cut:]
    if acc is not None:
        later.append([(sink(), acc)])
    if later:
        tags.append("pathptr:use-in-later-block")

    def pre():
        nb = _noise(voc, rnd, protected) if p(1, 3) else None
        return [nb] if nb else []

    head, last = b.new_loc(), b.new_loc()
    after = b.new_loc() if later else last
    if kind in ("diamond", "same"):
        t, f, join = b.new_loc(), b.new_loc(), b.new_loc()
        o1 = ch(P_OFFS)
        o2 = o1 if kind == "same" else ch([o for o in P_OFFS if o != o1])
        v1, v2 = bptr(o1), bptr(o2)
        if kind == "diamond" and p(1, 5):
            others = [v for v in data if v not in base_ids and v != P]
            v2 = ch(others)
            tags.append("pathptr:arm-reg")
        b.emit(head, pre(), _cond_of(b, voc, rnd, t, f))
        b.emit(t, [[(P, v1)]] + pre(), b.loc(join))
        b.emit(f, pre() + [[(P, v2)]], b.loc(join))
        b.emit(join, section, b.loc(after))
    elif kind == "ifthen":
        t, join = b.new_loc(), b.new_loc()
        init = [[(P, bptr(ch(P_OFFS)))]] if p(3, 4) else []
        b.emit(head, pre() + init, _cond_of(b, voc, rnd, t, join))
        mod = m.ExprOp('+', P, gg._int(ch(P_STEPS), 32)) if p(1, 2) else bptr(ch(P_OFFS))
        b.emit(t, [[(P, mod)]], b.loc(join))
        b.emit(join, section, b.loc(after))
    elif kind == "loop":
        turns = rnd.randrange(1, 4)
        h = b.new_loc()
        dec = m.ExprOp('+', cnt, gg._int(-1, 32))
        back = m.ExprCond(dec, b.loc(h), b.loc(after))
        init = [[(P, bptr(ch(P_OFFS)))]] if p(3, 4) else []
        b.emit(head, pre() + init + [[(cnt, gg._int(turns, 32))]], b.loc(h))
        if p(1, 2):
            b.emit(h, section + [[(cnt, dec)]], back, merge=True)
        else:
            latch = b.new_loc()
            b.emit(h, section, b.loc(latch))
            b.emit(latch, [[(cnt, dec)]], back, merge=True)
    else:
        b.emit(head, pre() + section, b.loc(after))
    if later:
        b.emit(after, later, b.loc(last))
    _exit(b, voc, rnd, last, tags)
    return b.finish(head, tags)


def _noise(voc, rnd, protected):
    m = gg._m()
    ch = rnd.choice
    data = list(voc.data)
    free = [v for v in data if v not in protected]
    if not free:
        return None
    d = ch(free)
    k = rnd.randrange(3)
    if k == 0:
        src = m.ExprCond(ch(data), ch(data), gg._int(ch(gg.SMALL_CONSTS), 32))
    elif k == 1:
        src = gg._int(ch(gg.SMALL_CONSTS), 32)
    else:
        src = m.ExprOp(ch(gg.BINOPS[:5]), ch(data), ch(data + [gg._int(ch(gg.SMALL_CONSTS), 32)]))
    return [(d, src)]
