"""isamodels -- instruction-level reference models for ARM (A32), Thumb-2, AArch64, MIPS32r2 and PowerPC (32-bit),
written from the architecture manuals (ARM DDI 0406C / DDI 0487, MIPS32 Vol. II rev 6, Power ISA 2.06 Book I), plus the
llvm-mc glue that turns template texts into bytes.  Nothing here imports miasm.

A template (`Tpl`) = llvm-mc text (one instruction; an IT block for Thumb), the input slots (resources that receive
generated values), and a model: function(state dict) -> dict of updated resources.  Resources are named like miasm's
jitter.cpu attributes (R0.., X0.., nf zf cf of, R_HI/R_LO, XER_CA, CR0_LT ...) so that the check can copy values both
ways without a mapping table; the model itself never sees miasm.

Value classes (boundary-biased lists): w32/w64 words, 'amt' shift amounts held in a register.
"""
import os
import re
import subprocess


def M(n):
    return (1 << n) - 1


def sx(v, n):
    v &= M(n)
    return v - (1 << n) if v >> (n - 1) else v


def ror(v, k, n):
    k %= n
    v &= M(n)
    return ((v >> k) | (v << (n - k))) & M(n) if k else v


def rol(v, k, n):
    return ror(v, (n - k % n) % n, n)


def awc(x, y, c, n):
    """AddWithCarry(x, y, carry_in) -> (result, N, Z, C, V)"""
    x &= M(n)
    y &= M(n)
    us = x + y + c
    r = us & M(n)
    ss = sx(x, n) + sx(y, n) + c
    return r, r >> (n - 1), int(r == 0), us >> n, int(sx(r, n) != ss)


def clz(v, n):
    v &= M(n)
    return n - v.bit_length()


def rbit(v, n):
    return int(("{:0%db}" % n).format(v & M(n))[::-1], 2)


def bswap(v, nbytes):
    return int.from_bytes((v & M(8 * nbytes)).to_bytes(nbytes, "little"), "big")


class Tpl(object):
    def __init__(self, arch, text, mn, slots, model, flagsets="01", cap=None, group="", note=""):
        self.arch = arch
        self.text = text            # llvm-mc text; "\n" separates the lines of an IT block
        self.mn = mn                # mnemonic used in bucket keys / evidence
        self.slots = slots          # [(resource, value class)]
        self.model = model          # state -> updates ; or None result = out of domain (dropped)
        self.flagsets = flagsets    # name of the flag-set table entry
        self.cap = cap
        self.group = group
        self.form = ""              # operand-form tag appended to the mnemonic in bucket keys ("ADDS:sh32", ...)
        self.key = "%s|%s" % (arch, text)
        self.code = None
        self.nlines = text.count("\n") + 1


# ---------------------------------------------------------------------------------------------
# boundary values

W32 = [0, 1, 2, 0x7f, 0x80, 0xff, 0x100, 0x7fff, 0x8000, 0xffff, 0x10000, 0x7ffffffe, 0x7fffffff, 0x80000000,
       0x80000001, 0xfffffffe, 0xffffffff, 0x55555555, 0xaaaaaaaa, 0x12345678, 0xdeadbeef, 0x0000ff00, 0x00ff00ff,
       0xffff0000, 0x40000000, 0xc0000000]
W32_SHORT = [0, 1, 0x7fffffff, 0x80000000, 0xffffffff, 0x12345678, 0xdeadbeef, 0xaaaaaaaa]
W64 = [0, 1, 2, 0xff, 0x7fffffff, 0x80000000, 0xffffffff, 0x100000000, 0x7fffffffffffffff, 0x8000000000000000,
       0x8000000000000001, 0xfffffffffffffffe, 0xffffffffffffffff, 0x5555555555555555, 0xaaaaaaaaaaaaaaaa,
       0x123456789abcdef0, 0xdeadbeefcafef00d, 0xffffffff00000000, 0x00000000ffff0000, 0x4000000000000000,
       0xffffffff80000000, 0x000000017fffffff]
W64_SHORT = [0, 1, 0x7fffffffffffffff, 0x8000000000000000, 0xffffffffffffffff, 0x123456789abcdef0,
             0xdeadbeefcafef00d, 0xffffffff, 0x80000000, 0xffffffff80000000]
AMT = [0, 1, 2, 7, 8, 15, 16, 30, 31, 32, 33, 63, 64, 65, 127, 128, 255, 256, 0x11f, 0x120, 0xffffffff, 0x80000020]


def values(vclass, depth=0):
    """depth 0: full list, 1: short list"""
    if vclass == "w32":
        return W32_SHORT if depth else W32
    if vclass == "w64":
        return W64_SHORT if depth else W64
    if vclass == "amt":
        return AMT[::2] if depth else AMT
    if vclass == "bit":
        return [0, 1]
    raise ValueError(vclass)


def vbits(vclass):
    return {"w32": 32, "w64": 64, "amt": 32, "bit": 1}[vclass]


# ---------------------------------------------------------------------------------------------
# llvm-mc

LLVM = {
    "arml": (["-triple=armv7", "-mattr=+hwdiv-arm,+hwdiv"], ""),
    "armtl": (["-triple=thumbv7", "-mattr=+hwdiv"], ".syntax unified\n"),
    "aarch64l": (["-triple=aarch64"], ""),
    "mips32l": (["-triple=mipsel", "-mcpu=mips32r2"], ".set noreorder\n.set nomacro\n.set noat\n"),
    "mips32b": (["-triple=mips", "-mcpu=mips32r2"], ".set noreorder\n.set nomacro\n.set noat\n"),
    "ppc32b": (["-triple=powerpc"], ""),
}

_ENC = re.compile(r"encoding: \[([0-9a-fx,A-F]+)\]")


def assemble(arch, texts):
    """texts: list of template texts (possibly multi-line) -> list of bytes | None (llvm-mc rejects the text).
    One llvm-mc run for the whole list; rejected lines are found from the diagnostics and retried without them."""
    args, prelude = LLVM[arch]
    pre_n = prelude.count("\n")
    alive = [True] * len(texts)
    for _attempt in range(8):
        lines = []
        owner = []
        for i, t in enumerate(texts):
            if not alive[i]:
                continue
            for ln in t.split("\n"):
                lines.append(ln)
                owner.append(i)
        src = prelude + "\n".join(lines) + "\n"
        p = subprocess.run(["llvm-mc"] + args + ["-show-encoding"], input=src.encode(), stdout=subprocess.PIPE,
                           stderr=subprocess.PIPE)
        err = p.stderr.decode("utf8", "replace")
        bad = set()
        for m in re.finditer(r"<stdin>:(\d+):\d+: (error|warning)", err):
            ln = int(m.group(1)) - 1 - pre_n
            if 0 <= ln < len(owner):
                bad.add(owner[ln])
        if bad:
            for i in bad:
                alive[i] = False
            continue
        if p.returncode != 0:
            raise RuntimeError("llvm-mc failed: " + err[:500])
        encs = [bytes(int(x, 16) for x in m.group(1).split(",")) for m in _ENC.finditer(p.stdout.decode())]
        if len(encs) != len(lines):
            raise RuntimeError("llvm-mc: %d encodings for %d lines" % (len(encs), len(lines)))
        out = [None] * len(texts)
        for k, i in enumerate(owner):
            out[i] = (out[i] or b"") + encs[k]
        return out
    raise RuntimeError("llvm-mc keeps rejecting lines")


def llvm_disasm(arch, code):
    """text of the first instruction of `code` according to llvm-mc --disassemble (used for evidence only)"""
    args, _ = LLVM[arch]
    src = " ".join("0x%02x" % b for b in code)
    p = subprocess.run(["llvm-mc"] + args + ["--disassemble"], input=src.encode(), stdout=subprocess.PIPE,
                       stderr=subprocess.PIPE)
    for ln in p.stdout.decode("utf8", "replace").splitlines():
        ln = ln.strip()
        if ln and not ln.startswith("."):
            return " ".join(ln.split())
    return "?"


# ---------------------------------------------------------------------------------------------
# flag sets (initial NZCV / XER / CR0 values)

def flagsets(arch, name):
    """-> list of dicts resource -> bit"""
    if arch in ("arml", "armtl", "aarch64l"):
        names = ("nf", "zf", "cf", "of")
        if name == "all":
            return [dict(zip(names, ((k >> 3) & 1, (k >> 2) & 1, (k >> 1) & 1, k & 1))) for k in range(16)]
        if name == "c":
            return [dict(nf=0, zf=1, cf=0, of=1), dict(nf=1, zf=0, cf=1, of=0)]
        return [dict(nf=0, zf=0, cf=0, of=0), dict(nf=1, zf=1, cf=1, of=1)]
    if arch == "ppc32b":
        base = {"CR0_LT": 0, "CR0_GT": 0, "CR0_EQ": 0, "CR0_SO": 0}
        out = []
        if name == "all":
            combos = [(k >> 2 & 1, k >> 1 & 1, k & 1) for k in range(8)]
        elif name == "ca":
            combos = [(0, 0, 0), (1, 0, 0), (0, 0, 1), (1, 1, 1)]
        else:
            combos = [(0, 0, 0), (1, 1, 1)]
        for ca, ov, so in combos:
            d = dict(base, XER_CA=ca, XER_OV=ov, XER_SO=so)
            if ca:
                d.update(CR0_LT=1, CR0_GT=1, CR0_EQ=1, CR0_SO=1)
            out.append(d)
        return out
    return [{}]


# =============================================================================================
# ARM (A32) and Thumb-2  -- ARM DDI 0406C: A2.2.1 (shifts), A5.2.4/A6.3.2 (modified immediates), A8.8 (instructions)

CONDS = ["eq", "ne", "cs", "cc", "mi", "pl", "vs", "vc", "hi", "ls", "ge", "lt", "gt", "le"]


def cond_holds(c, n, z, cf, v):
    c = c.lower()
    base = {"eq": z == 1, "cs": cf == 1, "hs": cf == 1, "mi": n == 1, "vs": v == 1, "hi": cf == 1 and z == 0,
            "ge": n == v, "gt": z == 0 and n == v, "al": True}
    inv = {"ne": "eq", "cc": "cs", "lo": "cs", "pl": "mi", "vc": "vs", "ls": "hi", "lt": "ge", "le": "gt"}
    if c in base:
        return bool(base[c])
    return not base[inv[c]]


def inv_cond(c):
    pairs = [("eq", "ne"), ("cs", "cc"), ("mi", "pl"), ("vs", "vc"), ("hi", "ls"), ("ge", "lt"), ("gt", "le")]
    for a, b in pairs:
        if c == a:
            return b
        if c == b:
            return a
    raise ValueError(c)


def shift_c(v, typ, n, cin):
    """ARM Shift_C on 32 bits with an amount that is already the architectural one (imm form: LSR/ASR 32 allowed)
    -> (result, carry)"""
    v &= M(32)
    if typ == "rrx":
        return (cin << 31) | (v >> 1), v & 1
    if n == 0:
        return v, cin
    if typ == "lsl":
        if n > 32:
            return 0, 0
        return (v << n) & M(32), (v >> (32 - n)) & 1
    if typ == "lsr":
        if n > 32:
            return 0, 0
        return v >> n, (v >> (n - 1)) & 1
    if typ == "asr":
        if n >= 32:
            return (M(32) if v >> 31 else 0), v >> 31
        return (sx(v, 32) >> n) & M(32), (v >> (n - 1)) & 1
    if typ == "ror":
        r = ror(v, n % 32, 32)
        return r, r >> 31
    raise ValueError(typ)


def arm_imm_carry(arch, code, imm32, cin):
    """carry-out of the (modified) immediate actually encoded in `code`"""
    if arch == "arml":
        w = int.from_bytes(code[:4], "little")
        rot = (w >> 8) & 0xf
        return cin if rot == 0 else (imm32 >> 31) & 1
    if len(code) < 4:
        return cin
    hw1 = int.from_bytes(code[0:2], "little")
    hw2 = int.from_bytes(code[2:4], "little")
    imm12 = ((hw1 >> 10) & 1) << 11 | ((hw2 >> 12) & 7) << 8 | (hw2 & 0xff)
    return cin if (imm12 >> 10) == 0 else (imm32 >> 31) & 1


ARITH = {"add": lambda x, y, c: awc(x, y, 0, 32), "adc": lambda x, y, c: awc(x, y, c, 32),
         "sub": lambda x, y, c: awc(x, ~y, 1, 32), "sbc": lambda x, y, c: awc(x, ~y, c, 32),
         "rsb": lambda x, y, c: awc(~x, y, 1, 32), "rsc": lambda x, y, c: awc(~x, y, c, 32),
         "cmp": lambda x, y, c: awc(x, ~y, 1, 32), "cmn": lambda x, y, c: awc(x, y, 0, 32)}
LOGIC = {"and": lambda x, y: x & y, "eor": lambda x, y: x ^ y, "orr": lambda x, y: x | y,
         "bic": lambda x, y: x & ~y, "orn": lambda x, y: x | ~y, "tst": lambda x, y: x & y,
         "teq": lambda x, y: x ^ y, "mov": lambda x, y: y, "mvn": lambda x, y: ~y}
NO_RD = ("cmp", "cmn", "tst", "teq")
NO_RN = ("mov", "mvn")


def arm_dp(arch, op, s, cond, op2, regs=("R0", "R1", "R2", "R3"), wide=False, it=True, cap=None, fl=None, group="dp"):
    """One data-processing template.  op2: ('imm', v) | ('reg',) | ('sh', typ, n) | ('rrx',) | ('rsr', typ)"""
    rd, rn, rm, rs = regs
    thumb = arch == "armtl"
    setflags = bool(s) or op in NO_RD
    mn = op + ("s" if s and op not in NO_RD else "")
    suffix = (cond or "") + (".w" if wide else "")
    ops = []
    if op not in NO_RD:
        ops.append(rd.lower())
    if op not in NO_RN:
        ops.append(rn.lower())
    slots = []
    if op not in NO_RN:
        slots.append((rn, "w32"))
    kind = op2[0]
    if kind == "imm":
        ops.append("#0x%x" % op2[1])
    else:
        slots.append((rm, "w32"))
        if kind == "reg":
            ops.append(rm.lower())
        elif kind == "sh":
            ops.append("%s, %s #%d" % (rm.lower(), op2[1], op2[2]))
        elif kind == "rrx":
            ops.append("%s, rrx" % rm.lower())
        elif kind == "rsr":
            ops.append("%s, %s %s" % (rm.lower(), op2[1], rs.lower()))
            slots.append((rs, "amt"))
    text = "%s%s %s" % (mn, suffix, ", ".join(ops))
    if thumb and cond and it:
        text = "it %s\n%s" % (cond, text)
    tpl = Tpl(arch, text, mn.upper(), slots, None, group=group, cap=cap)
    parts = []
    if group in ("hireg", "dp16", "it16"):
        parts.append(group)
    if kind == "imm" and op2[1] > 0xff and not (thumb and op2[1] in (0x00ff00ff, 0xff00ff00, 0xabababab)):
        parts.append("imm-rot")
    elif kind == "sh" and op2[2] == 32:
        parts.append("sh32")
    elif kind in ("rrx", "rsr"):
        parts.append(kind)
    if cond:
        parts.append(("it" if thumb and it else "cond") + ("-S" if s and thumb and op not in NO_RD else "")
                     + ("-vsvc" if cond in ("vs", "vc") else ""))
    tpl.form = "/".join(parts)
    if fl:
        tpl.flagsets = fl
    elif cond:
        tpl.flagsets = "all"
    elif op in ("adc", "sbc", "rsc") or kind == "rrx" or (setflags and op in LOGIC):
        tpl.flagsets = "c"

    def model(st, tpl=tpl):
        n, z, c, v = st["nf"], st["zf"], st["cf"], st["of"]
        if cond and not cond_holds(cond, n, z, c, v):
            return {}
        if kind == "imm":
            y = op2[1]
            co = arm_imm_carry(arch, tpl.code[-4:] if len(tpl.code) >= 4 else tpl.code, y, c)
        elif kind == "reg":
            y, co = st[rm], c
        elif kind == "sh":
            y, co = shift_c(st[rm], op2[1], op2[2], c)
        elif kind == "rrx":
            y, co = shift_c(st[rm], "rrx", 1, c)
        else:
            y, co = shift_c(st[rm], op2[1], st[rs] & 0xff, c)
        x = st.get(rn, 0)
        up = {}
        if op in ARITH:
            r, fn, fz, fc, fv = ARITH[op](x, y, c)
        else:
            r = LOGIC[op](x, y) & M(32)
            fn, fz, fc, fv = r >> 31, int(r == 0), co, v
        if op not in NO_RD:
            up[rd] = r
        if setflags:
            up.update(nf=fn, zf=fz, cf=fc, of=fv)
        return up
    tpl.model = model
    return tpl


def arm_shift_ins(arch, typ, s, form, regs=("R0", "R1", "R2"), wide=False, cond=None):
    """LSL/LSR/ASR/ROR instructions (aliases of MOV with shifted operand).  form: ('imm', n) | ('reg',) |
    ('reg2',) (two-operand Thumb form Rdn, Rm)"""
    rd, rm, rs = regs
    mn = typ + ("s" if s else "")
    suffix = (cond or "") + (".w" if wide else "")
    if form[0] == "imm":
        text = "%s%s %s, %s, #%d" % (mn, suffix, rd.lower(), rm.lower(), form[1])
        slots = [(rm, "w32")]
    elif form[0] == "reg":
        text = "%s%s %s, %s, %s" % (mn, suffix, rd.lower(), rm.lower(), rs.lower())
        slots = [(rm, "w32"), (rs, "amt")]
    else:
        rm = rd
        text = "%s%s %s, %s" % (mn, suffix, rd.lower(), rs.lower())
        slots = [(rd, "w32"), (rs, "amt")]
    if arch == "armtl" and cond:
        text = "it %s\n%s" % (cond, text)
    tpl = Tpl(arch, text, mn.upper(), slots, None, group="shift", flagsets="all" if cond else "c")
    if form[0] == "imm":
        tpl.form = "imm32" if form[1] == 32 else ""
    else:
        tpl.form = "by-reg" if form[0] == "reg" else "by-reg/rd=rm"
    if cond:
        tpl.form = (tpl.form + "/" if tpl.form else "") + "it"

    def model(st):
        n, z, c, v = st["nf"], st["zf"], st["cf"], st["of"]
        if cond and not cond_holds(cond, n, z, c, v):
            return {}
        amount = form[1] if form[0] == "imm" else st[rs] & 0xff
        r, co = shift_c(st[rm], typ, amount, c)
        up = {rd: r}
        if s:
            up.update(nf=r >> 31, zf=int(r == 0), cf=co)
        return up
    tpl.model = model
    return tpl


def _simple(arch, text, mn, slots, fn, group, flagsets="01", cap=None):
    """fn(st) -> updates"""
    return Tpl(arch, text, mn, slots, fn, flagsets=flagsets, group=group, cap=cap)


def arm_misc(arch):
    out = []
    R = ("R0", "R1", "R2", "R3")

    def add(text, mn, slots, fn, fl="01", cap=None, group="misc"):
        out.append(_simple(arch, text, mn, slots, fn, group, fl, cap))
    w = ".w" if arch == "armtl" else ""
    # multiply family
    add("mul r0, r1, r2", "MUL", [("R1", "w32"), ("R2", "w32")], lambda st: {"R0": (st["R1"] * st["R2"]) & M(32)})
    add("muls r0, r1, r0" if arch == "armtl" else "muls r0, r1, r2", "MULS",
        [("R1", "w32"), ("R0" if arch == "armtl" else "R2", "w32")],
        (lambda st: (lambda r: {"R0": r, "nf": r >> 31, "zf": int(r == 0)})((st["R1"] * st["R0"]) & M(32)))
        if arch == "armtl" else
        (lambda st: (lambda r: {"R0": r, "nf": r >> 31, "zf": int(r == 0)})((st["R1"] * st["R2"]) & M(32))))
    add("mla r0, r1, r2, r3", "MLA", [("R1", "w32"), ("R2", "w32"), ("R3", "w32")],
        lambda st: {"R0": (st["R1"] * st["R2"] + st["R3"]) & M(32)}, cap=80)
    add("mls r0, r1, r2, r3", "MLS", [("R1", "w32"), ("R2", "w32"), ("R3", "w32")],
        lambda st: {"R0": (st["R3"] - st["R1"] * st["R2"]) & M(32)}, cap=80)

    def long_mul(signed, acc):
        def fn(st):
            a, b = st["R2"], st["R3"]
            if signed:
                a, b = sx(a, 32), sx(b, 32)
            p = a * b
            if acc:
                p += (st["R1"] << 32) | st["R0"]
            p &= M(64)
            return {"R0": p & M(32), "R1": p >> 32}
        return fn
    add("umull r0, r1, r2, r3", "UMULL", [("R2", "w32"), ("R3", "w32")], long_mul(False, False))
    add("smull r0, r1, r2, r3", "SMULL", [("R2", "w32"), ("R3", "w32")], long_mul(True, False))
    add("umlal r0, r1, r2, r3", "UMLAL", [("R0", "w32"), ("R1", "w32"), ("R2", "w32"), ("R3", "w32")],
        long_mul(False, True), cap=100)
    add("smlal r0, r1, r2, r3", "SMLAL", [("R0", "w32"), ("R1", "w32"), ("R2", "w32"), ("R3", "w32")],
        long_mul(True, True), cap=100)

    def div(signed):
        def fn(st):
            a, b = st["R1"], st["R2"]
            if b == 0:
                return {"R0": 0}
            if signed:
                a, b = sx(a, 32), sx(b, 32)
                q = abs(a) // abs(b)
                if (a < 0) != (b < 0):
                    q = -q
            else:
                q = a // b
            return {"R0": q & M(32)}
        return fn
    add("udiv r0, r1, r2", "UDIV", [("R1", "w32"), ("R2", "w32")], div(False))
    add("sdiv r0, r1, r2", "SDIV", [("R1", "w32"), ("R2", "w32")], div(True))
    # bit manipulation
    add("clz r0, r1", "CLZ", [("R1", "w32")], lambda st: {"R0": clz(st["R1"], 32)})
    add("rbit r0, r1", "RBIT", [("R1", "w32")], lambda st: {"R0": rbit(st["R1"], 32)})
    add("rev r0, r1", "REV", [("R1", "w32")], lambda st: {"R0": bswap(st["R1"], 4)})
    add("rev%s r0, r1" % w, "REV", [("R1", "w32")], lambda st: {"R0": bswap(st["R1"], 4)})
    add("rev16 r0, r1", "REV16", [("R1", "w32")],
        lambda st: {"R0": bswap(st["R1"] >> 16, 2) << 16 | bswap(st["R1"] & 0xffff, 2)})
    add("revsh r0, r1", "REVSH", [("R1", "w32")], lambda st: {"R0": sx(bswap(st["R1"] & 0xffff, 2), 16) & M(32)})
    for mn, bits, signed in (("uxtb", 8, 0), ("uxth", 16, 0), ("sxtb", 8, 1), ("sxth", 16, 1)):
        for rot in (0, 8, 16, 24):
            txt = "%s r0, r1" % mn + (", ror #%d" % rot if rot else "")
            add(txt, mn.upper(), [("R1", "w32")],
                (lambda st, bits=bits, signed=signed, rot=rot:
                 {"R0": (sx(ror(st["R1"], rot, 32), bits) if signed else ror(st["R1"], rot, 32) & M(bits)) & M(32)}))
        add("%s r0, r2, r1, ror #8" % mn.replace("xt", "xta"), mn.upper().replace("XT", "XTA"),
            [("R1", "w32"), ("R2", "w32")],
            (lambda st, bits=bits, signed=signed:
             {"R0": (st["R2"] + (sx(ror(st["R1"], 8, 32), bits) if signed else ror(st["R1"], 8, 32) & M(bits))) & M(32)}))
    for lsb, width in ((0, 1), (0, 32), (31, 1), (4, 8), (7, 17), (16, 16), (1, 31)):
        add("ubfx r0, r1, #%d, #%d" % (lsb, width), "UBFX", [("R1", "w32")],
            lambda st, lsb=lsb, width=width: {"R0": (st["R1"] >> lsb) & M(width)})
        add("sbfx r0, r1, #%d, #%d" % (lsb, width), "SBFX", [("R1", "w32")],
            lambda st, lsb=lsb, width=width: {"R0": sx((st["R1"] >> lsb) & M(width), width) & M(32)})
        add("bfi r0, r1, #%d, #%d" % (lsb, width), "BFI", [("R0", "w32"), ("R1", "w32")],
            lambda st, lsb=lsb, width=width: {"R0": (st["R0"] & ~(M(width) << lsb) | (st["R1"] & M(width)) << lsb) & M(32)},
            cap=40)
        add("bfc r0, #%d, #%d" % (lsb, width), "BFC", [("R0", "w32")],
            lambda st, lsb=lsb, width=width: {"R0": st["R0"] & ~(M(width) << lsb) & M(32)})
    for v in (0, 1, 0xffff, 0x8000, 0x1234):
        add("movw r0, #0x%x" % v, "MOVW", [("R0", "w32")], lambda st, v=v: {"R0": v}, cap=4)
        add("movt r0, #0x%x" % v, "MOVT", [("R0", "w32")], lambda st, v=v: {"R0": (st["R0"] & 0xffff) | v << 16})
    # saturating / misc arithmetic rarely produced by compilers
    return out


def arm_templates(arch, thorough=False):
    thumb = arch == "armtl"
    out = []
    ops = ["and", "eor", "sub", "rsb", "add", "adc", "sbc", "orr", "bic", "mov", "mvn", "cmp", "cmn", "tst", "teq"]
    ops += ["orn"] if thumb else ["rsc"]
    imms_arm = [0, 1, 0xff, 0xff000000, 0x3fc, 0xf000000f, 0x80000000]
    imms_thumb = [0, 1, 0xff, 0x00ff00ff, 0xff00ff00, 0xabababab, 0xff000000, 0x1fe, 0x80000000, 0x7f800000]
    shs = [("lsl", 0), ("lsl", 1), ("lsl", 31), ("lsr", 1), ("lsr", 31), ("lsr", 32), ("asr", 1), ("asr", 31),
           ("asr", 32), ("ror", 1), ("ror", 31), ("lsl", 3), ("ror", 16)]
    if not thorough:
        shs = [("lsl", 0), ("lsl", 1), ("lsl", 31), ("lsr", 1), ("lsr", 32), ("asr", 7), ("asr", 32), ("ror", 1),
               ("ror", 31)]
    for op in ops:
        for s in ((1,) if op in NO_RD else (0, 1)):
            if thumb and op == "rsb":
                imms = [0, 1, 0xff, 0xff000000]
            else:
                imms = imms_thumb if thumb else imms_arm
            for v in imms:
                out.append(arm_dp(arch, op, s, None, ("imm", v), cap=24))
            out.append(arm_dp(arch, op, s, None, ("reg",), wide=thumb))
            for typ, n in shs:
                if typ == "lsl" and n == 0:
                    continue
                out.append(arm_dp(arch, op, s, None, ("sh", typ, n), cap=40))
            out.append(arm_dp(arch, op, s, None, ("rrx",), cap=40))
            if not thumb:
                for typ in ("lsl", "lsr", "asr", "ror"):
                    out.append(arm_dp(arch, op, s, None, ("rsr", typ), cap=120))
        # operand aliasing
        if op not in NO_RD and op not in NO_RN:
            out.append(arm_dp(arch, op, 1, None, ("reg",), regs=("R1", "R1", "R2", "R3"), wide=thumb))
            out.append(arm_dp(arch, op, 1, None, ("sh", "lsr", 3), regs=("R2", "R1", "R2", "R3")))
            out.append(arm_dp(arch, op, 1, None, ("reg",), regs=("R1", "R1", "R1", "R3"), wide=thumb, cap=40))
    # conditional execution: every condition x every NZCV
    for c in CONDS:
        out.append(arm_dp(arch, "add", 0, c, ("reg",), cap=64))
        out.append(arm_dp(arch, "sub", 1, c, ("sh", "lsl", 2), cap=64))
        out.append(arm_dp(arch, "mov", 0, c, ("imm", 0x55), cap=32))
        out.append(arm_dp(arch, "cmp", 1, c, ("reg",), cap=64))
        out.append(arm_dp(arch, "orr", 1, c, ("sh", "lsr", 1), wide=thumb, cap=64))
    if thumb:
        # 16-bit encodings (outside an IT block the S forms are the narrow ones)
        lo = ("R0", "R0", "R2", "R3")
        for op in ("and", "eor", "orr", "bic", "adc", "sbc"):
            out.append(arm_dp(arch, op, 1, None, ("reg",), regs=lo, group="dp16"))
        for op in ("tst", "cmp", "cmn"):
            out.append(arm_dp(arch, op, 1, None, ("reg",), regs=("R0", "R1", "R2", "R3"), group="dp16"))
        out.append(arm_dp(arch, "mvn", 1, None, ("reg",), regs=("R0", "R1", "R2", "R3"), group="dp16"))
        out.append(arm_dp(arch, "add", 1, None, ("reg",), group="dp16"))
        out.append(arm_dp(arch, "sub", 1, None, ("reg",), group="dp16"))
        out.append(arm_dp(arch, "add", 1, None, ("imm", 7), group="dp16"))
        out.append(arm_dp(arch, "sub", 1, None, ("imm", 7), group="dp16"))
        out.append(arm_dp(arch, "add", 1, None, ("imm", 0xff), regs=("R1", "R1", "R2", "R3"), group="dp16"))
        out.append(arm_dp(arch, "sub", 1, None, ("imm", 0xff), regs=("R1", "R1", "R2", "R3"), group="dp16"))
        out.append(arm_dp(arch, "mov", 1, None, ("imm", 0xff), group="dp16"))
        out.append(arm_dp(arch, "mov", 1, None, ("imm", 0), group="dp16"))
        out.append(arm_dp(arch, "cmp", 1, None, ("imm", 0xff), group="dp16"))
        out.append(arm_dp(arch, "rsb", 1, None, ("imm", 0), group="dp16"))
        # high-register forms: ADD/MOV do not set flags, CMP does
        for regs in (("R4", "R4", "LR", "R3"), ("R8", "R8", "R1", "R3"), ("R1", "R1", "R2", "R3"), ("R9", "R9", "R10", "R3")):
            out.append(arm_dp(arch, "add", 0, None, ("reg",), regs=regs, group="hireg"))
            out.append(arm_dp(arch, "mov", 0, None, ("reg",), regs=regs, group="hireg"))
            out.append(arm_dp(arch, "cmp", 1, None, ("reg",), regs=(regs[0], regs[0], regs[2], "R3"), group="hireg"))
        # 16-bit forms inside IT blocks: no flag update
        for c in ("eq", "ne", "hi", "lt"):
            for op in ("and", "eor", "adc", "sbc", "orr", "bic"):
                out.append(arm_dp(arch, op, 0, c, ("reg",), regs=lo, cap=32, group="it16"))
            out.append(arm_dp(arch, "add", 0, c, ("imm", 5), cap=32, group="it16"))
            out.append(arm_dp(arch, "mov", 0, c, ("imm", 9), cap=16, group="it16"))
            out.append(arm_dp(arch, "cmp", 1, c, ("imm", 9), cap=32, group="it16"))
            out.append(arm_shift_ins(arch, "lsl", 0, ("imm", 3), cond=c))
        out += it_blocks(arch)
    for typ in ("lsl", "lsr", "asr", "ror"):
        for s in (0, 1):
            amts = [1, 31] + ([32] if typ in ("lsr", "asr") else []) + ([5] if thorough else [])
            for n in amts:
                out.append(arm_shift_ins(arch, typ, s, ("imm", n)))
                if thumb:
                    out.append(arm_shift_ins(arch, typ, s, ("imm", n), wide=True))
            out.append(arm_shift_ins(arch, typ, s, ("reg",), wide=thumb))
            if thumb and s:
                out.append(arm_shift_ins(arch, typ, s, ("reg2",)))
    out += arm_misc(arch)
    return out


def it_blocks(arch):
    """Thumb IT blocks with several instructions: ITE / ITT / ITTE / ITETE patterns"""
    out = []
    for c in ("eq", "ne", "cs", "ge", "le", "hi"):
        ic = inv_cond(c)
        for pat in ("te", "tt", "tee", "tet", "ttt"):
            conds = [c] + [c if ch == "t" else ic for ch in pat]
            lines = ["it%s %s" % (pat, c)]
            lines.append("add%s r0, r1, r2" % conds[0])
            lines.append("mov%s r4, #0x21" % conds[1])
            if len(conds) > 2:
                lines.append("eor%s r5, r5, r1" % conds[2])
            if len(conds) > 3:
                lines.append("sub%s r6, r2, #1" % conds[3])
            text = "\n".join(lines)
            tpl = Tpl(arch, text, "IT" + pat.upper(), [("R1", "w32"), ("R2", "w32"), ("R5", "w32")], None,
                      flagsets="all", group="itblock", cap=48)

            def model(st, conds=conds):
                n, z, cf, v = st["nf"], st["zf"], st["cf"], st["of"]
                up = {}
                acts = [lambda: up.update(R0=(st["R1"] + st["R2"]) & M(32)),
                        lambda: up.update(R4=0x21),
                        lambda: up.update(R5=st["R5"] ^ st["R1"]),
                        lambda: up.update(R6=(st["R2"] - 1) & M(32))]
                for cd, act in zip(conds, acts):
                    if cond_holds(cd, n, z, cf, v):
                        act()
                return up
            tpl.model = model
            out.append(tpl)
    return out



# =============================================================================================
# AArch64 -- ARM DDI 0487 C6.2 (A64 base instructions), shared pseudo-code (AddWithCarry, DecodeBitMasks, ...)

def a64_templates(thorough=False):
    out = []
    arch = "aarch64l"

    def add(text, mn, slots, fn, fl="01", cap=None, group="a64"):
        t = Tpl(arch, text, mn, slots, fn, flagsets=fl, cap=cap, group=group)
        last = text.rsplit(",", 1)[-1].strip()
        if fl == "all" and last in ("nv", "vs", "vc"):
            t.form = "cond-" + ("nv" if last == "nv" else "vsvc")
        out.append(t)

    def rn(p, i):
        return "%s%d" % (p, i)

    def setd(sf, v):
        """write of a W or X destination (a W write zeroes the upper half)"""
        return v & M(64 if sf else 32)

    def nzcv(t):
        return dict(nf=t[1], zf=t[2], cf=t[3], of=t[4])

    for sf in (1, 0):
        p = "x" if sf else "w"
        n = 64 if sf else 32
        wc = "w64" if sf else "w32"
        d, a, b, c3 = rn(p, 0), rn(p, 1), rn(p, 2), rn(p, 3)
        sh_amts = [1, n - 1, 3, n // 2] if not thorough else [1, 2, 3, 7, n // 2, n - 2, n - 1]

        def op2_shift(st, typ, k, n=n):
            v = st["X2"] & M(n)
            if typ == "lsl":
                return (v << k) & M(n)
            if typ == "lsr":
                return v >> k
            if typ == "asr":
                return (sx(v, n) >> k) & M(n)
            return ror(v, k, n)

        # --- add/sub (shifted register / immediate / extended register), with and without flags
        for op in ("add", "adds", "sub", "subs", "cmp", "cmn"):
            sub = op in ("sub", "subs", "cmp")
            setf = op in ("adds", "subs", "cmp", "cmn")
            nod = op in ("cmp", "cmn")

            def mk(y_of, sub=sub, setf=setf, nod=nod, n=n, sf=sf):
                def fn(st):
                    x = st["X1"] & M(n)
                    y = y_of(st) & M(n)
                    t = awc(x, (~y) & M(n), 1, n) if sub else awc(x, y, 0, n)
                    up = {}
                    if not nod:
                        up["X0"] = setd(sf, t[0])
                    if setf:
                        up.update(nzcv(t))
                    return up
                return fn
            dst = "" if nod else d + ", "
            add("%s %s%s, %s" % (op, dst, a, b), op.upper(), [("X1", wc), ("X2", wc)], mk(lambda st: st["X2"]))
            for typ in ("lsl", "lsr", "asr"):
                for k in sh_amts:
                    add("%s %s%s, %s, %s #%d" % (op, dst, a, b, typ, k), op.upper(), [("X1", wc), ("X2", wc)],
                        mk(lambda st, typ=typ, k=k, f=op2_shift: f(st, typ, k)), cap=32)
            for imm, sh in ((0, 0), (1, 0), (0xfff, 0), (0xfff, 12), (1, 12), (0x800, 0)):
                add("%s %s%s, #%d%s" % (op, dst, a, imm, ", lsl #12" if sh else ""), op.upper(), [("X1", wc)],
                    mk(lambda st, v=imm << sh: v), cap=26)
            for ext, bits, signed in (("uxtb", 8, 0), ("uxth", 16, 0), ("uxtw", 32, 0), ("sxtb", 8, 1), ("sxth", 16, 1),
                                      ("sxtw", 32, 1), ("uxtx", 64, 0), ("sxtx", 64, 1)):
                if not sf and bits == 64:
                    continue
                for k in (0, 2, 4):
                    if k and not thorough and ext not in ("uxtb", "sxtw", "sxth"):
                        continue
                    src = "x2" if bits == 64 else "w2"
                    add("%s %s%s, %s, %s%s" % (op, dst, a, src, ext, " #%d" % k if k else ""), op.upper(),
                        [("X1", wc), ("X2", "w64")],
                        mk(lambda st, bits=bits, signed=signed, k=k:
                           ((sx(st["X2"], bits) if signed else st["X2"] & M(bits)) << k)), cap=32, group="a64-ext")
        # --- adc / sbc / ngc
        for op in ("adc", "adcs", "sbc", "sbcs"):
            def fn(st, op=op, n=n, sf=sf):
                x, y, cin = st["X1"] & M(n), st["X2"] & M(n), st["cf"]
                t = awc(x, (~y) & M(n), cin, n) if op.startswith("sbc") else awc(x, y, cin, n)
                up = {"X0": setd(sf, t[0])}
                if op.endswith("s"):
                    up.update(nzcv(t))
                return up
            add("%s %s, %s, %s" % (op, d, a, b), op.upper(), [("X1", wc), ("X2", wc)], fn, fl="c", cap=120)
        for op in ("ngc", "ngcs"):
            def fn(st, op=op, n=n, sf=sf):
                t = awc(0, (~st["X2"]) & M(n), st["cf"], n)
                up = {"X0": setd(sf, t[0])}
                if op.endswith("s"):
                    up.update(nzcv(t))
                return up
            add("%s %s, %s" % (op, d, b), op.upper(), [("X2", wc)], fn, fl="c")
        # --- logical (shifted register / bitmask immediate)
        LOG = {"and": (lambda x, y: x & y, 0), "ands": (lambda x, y: x & y, 1), "orr": (lambda x, y: x | y, 0),
               "eor": (lambda x, y: x ^ y, 0), "bic": (lambda x, y: x & ~y, 0), "bics": (lambda x, y: x & ~y, 1),
               "orn": (lambda x, y: x | ~y, 0), "eon": (lambda x, y: x ^ ~y, 0), "tst": (lambda x, y: x & y, 1)}
        for op, (f, setf) in LOG.items():
            nod = op == "tst"

            def mk(y_of, f=f, setf=setf, nod=nod, n=n, sf=sf):
                def fn(st):
                    r = f(st["X1"] & M(n), y_of(st) & M(n)) & M(n)
                    up = {}
                    if not nod:
                        up["X0"] = setd(sf, r)
                    if setf:
                        up.update(nf=r >> (n - 1), zf=int(r == 0), cf=0, of=0)
                    return up
                return fn
            dst = "" if nod else d + ", "
            add("%s %s%s, %s" % (op, dst, a, b), op.upper(), [("X1", wc), ("X2", wc)], mk(lambda st: st["X2"]))
            for typ in ("lsl", "lsr", "asr", "ror"):
                for k in sh_amts[:3]:
                    add("%s %s%s, %s, %s #%d" % (op, dst, a, b, typ, k), op.upper(), [("X1", wc), ("X2", wc)],
                        mk(lambda st, typ=typ, k=k, f2=op2_shift: f2(st, typ, k)), cap=32)
            if op in ("and", "ands", "orr", "eor", "tst"):
                imms = [1, 0xff, 0x80000000, 0x7fffffff, 0x55555555, 0xff00ff00, 0xfffffffe, 0x0003fffc]
                if sf:
                    imms = [1, 0xff, 0x8000000000000000, 0x7fffffffffffffff, 0x5555555555555555, 0xff00ff00ff00ff00,
                            0xfffffffffffffffe, 0x00000000ffffffff, 0xffffffff00000000, 0x0000fffffffff000]
                for v in imms:
                    add("%s %s%s, #0x%x" % (op, dst, a, v), op.upper(), [("X1", wc)], mk(lambda st, v=v: v), cap=26,
                        group="a64-bitmask")
        # --- moves
        add("mvn %s, %s" % (d, b), "MVN", [("X2", wc)], lambda st, n=n, sf=sf: {"X0": setd(sf, ~st["X2"] & M(n))})
        add("neg %s, %s" % (d, b), "NEG", [("X2", wc)], lambda st, n=n, sf=sf: {"X0": setd(sf, -st["X2"] & M(n))})

        def negs(st, n=n, sf=sf):
            t = awc(0, ~st["X2"] & M(n), 1, n)
            return dict(nzcv(t), X0=setd(sf, t[0]))
        add("negs %s, %s" % (d, b), "NEGS", [("X2", wc)], negs)
        for hw in range(4 if sf else 2):
            for v in (0, 1, 0xffff, 0x8000, 0x1234):
                sh = 16 * hw
                add("movz %s, #0x%x, lsl #%d" % (d, v, sh), "MOVZ", [("X0", "w64")],
                    lambda st, v=v, sh=sh, sf=sf: {"X0": setd(sf, v << sh)}, cap=3)
                add("movn %s, #0x%x, lsl #%d" % (d, v, sh), "MOVN", [("X0", "w64")],
                    lambda st, v=v, sh=sh, sf=sf, n=n: {"X0": setd(sf, ~(v << sh) & M(n))}, cap=3)
                add("movk %s, #0x%x, lsl #%d" % (d, v, sh), "MOVK", [("X0", "w64")],
                    lambda st, v=v, sh=sh, sf=sf, n=n: {"X0": setd(sf, (st["X0"] & M(n) & ~(0xffff << sh)) | v << sh)},
                    cap=12)
        # --- bit-field: generic UBFM/SBFM/BFM over (immr, imms) and the aliases
        pairs = [(0, 0), (0, n - 1), (n - 1, n - 1), (1, 0), (n - 1, 0), (4, 11), (11, 4), (n // 2, n // 2 - 1), (0, 7),
                 (0, 15), (n - 8, n - 9), (1, n - 1), (n - 1, n - 2), (3, 3), (n - 4, 2)]
        if sf:
            pairs += [(0, 31), (32, 31), (32, 63), (31, 32)]

        def bfm_model(kind, immr, imms, n=n, sf=sf):
            def fn(st):
                src = st["X1"] & M(n)
                dst = st["X0"] & M(n) if kind == "bfm" else 0
                dd = (imms - immr) % n
                wmask = ror(M(imms + 1), immr, n)
                tmask = M(dd + 1)
                bot = (dst & ~wmask & M(n)) | (ror(src, immr, n) & wmask)
                top = (M(n) if (src >> imms) & 1 else 0) if kind == "sbfm" else dst
                return {"X0": setd(sf, (top & ~tmask & M(n)) | (bot & tmask))}
            return fn
        for kind in ("ubfm", "sbfm", "bfm"):
            for immr, imms in pairs:
                slots = [("X1", wc)] + ([("X0", wc)] if kind == "bfm" else [])
                add("%s %s, %s, #%d, #%d" % (kind, d, a, immr, imms), kind.upper(), slots, bfm_model(kind, immr, imms),
                    cap=30, group="a64-bitfield")
        for k in (1, 7, n - 1):
            add("lsl %s, %s, #%d" % (d, a, k), "LSL", [("X1", wc)], lambda st, k=k, n=n, sf=sf: {"X0": setd(sf, (st["X1"] << k) & M(n))})
            add("lsr %s, %s, #%d" % (d, a, k), "LSR", [("X1", wc)], lambda st, k=k, n=n, sf=sf: {"X0": setd(sf, (st["X1"] & M(n)) >> k)})
            add("asr %s, %s, #%d" % (d, a, k), "ASR", [("X1", wc)], lambda st, k=k, n=n, sf=sf: {"X0": setd(sf, (sx(st["X1"], n) >> k) & M(n))})
            add("ror %s, %s, #%d" % (d, a, k), "ROR", [("X1", wc)], lambda st, k=k, n=n, sf=sf: {"X0": setd(sf, ror(st["X1"], k, n))})
        for lsb, w in ((0, 1), (3, 5), (n - 1, 1), (8, n - 8), (0, n), (n // 2, n // 2), (7, 9)):
            add("ubfx %s, %s, #%d, #%d" % (d, a, lsb, w), "UBFX", [("X1", wc)],
                lambda st, lsb=lsb, w=w, n=n, sf=sf: {"X0": setd(sf, ((st["X1"] & M(n)) >> lsb) & M(w))})
            add("sbfx %s, %s, #%d, #%d" % (d, a, lsb, w), "SBFX", [("X1", wc)],
                lambda st, lsb=lsb, w=w, n=n, sf=sf: {"X0": setd(sf, sx(((st["X1"] & M(n)) >> lsb) & M(w), w) & M(n))})
            add("ubfiz %s, %s, #%d, #%d" % (d, a, lsb, w), "UBFIZ", [("X1", wc)],
                lambda st, lsb=lsb, w=w, n=n, sf=sf: {"X0": setd(sf, ((st["X1"] & M(w)) << lsb) & M(n))})
            add("sbfiz %s, %s, #%d, #%d" % (d, a, lsb, w), "SBFIZ", [("X1", wc)],
                lambda st, lsb=lsb, w=w, n=n, sf=sf: {"X0": setd(sf, (sx(st["X1"] & M(w), w) << lsb) & M(n))})
            add("bfi %s, %s, #%d, #%d" % (d, a, lsb, w), "BFI", [("X0", wc), ("X1", wc)],
                lambda st, lsb=lsb, w=w, n=n, sf=sf:
                {"X0": setd(sf, (st["X0"] & M(n) & ~(M(w) << lsb)) | ((st["X1"] & M(w)) << lsb))}, cap=40)
            add("bfxil %s, %s, #%d, #%d" % (d, a, lsb, w), "BFXIL", [("X0", wc), ("X1", wc)],
                lambda st, lsb=lsb, w=w, n=n, sf=sf:
                {"X0": setd(sf, (st["X0"] & M(n) & ~M(w)) | (((st["X1"] & M(n)) >> lsb) & M(w)))}, cap=40)
        for mn, bits, signed in (("uxtb", 8, 0), ("uxth", 16, 0), ("sxtb", 8, 1), ("sxth", 16, 1), ("sxtw", 32, 1)):
            if mn.startswith("u") and sf:
                continue        # uxtb/uxth only exist with W destinations
            if mn == "sxtw" and not sf:
                continue
            add("%s %s, w1" % (mn, d), mn.upper(), [("X1", "w64")],
                lambda st, bits=bits, signed=signed, n=n, sf=sf:
                {"X0": setd(sf, (sx(st["X1"], bits) if signed else st["X1"] & M(bits)) & M(n))})
        # --- extr
        for lsb in (0, 1, n // 2, n - 1, 13):
            add("extr %s, %s, %s, #%d" % (d, a, b, lsb), "EXTR", [("X1", wc), ("X2", wc)],
                lambda st, lsb=lsb, n=n, sf=sf:
                {"X0": setd(sf, ((((st["X1"] & M(n)) << n) | (st["X2"] & M(n))) >> lsb) & M(n))}, cap=60)
        # --- conditional select family / conditional compare: every condition x every NZCV
        conds = CONDS + ["al", "nv", "hs", "lo"]
        for cnd in conds:
            def holds(st, cnd=cnd):
                return True if cnd in ("al", "nv") else cond_holds(cnd, st["nf"], st["zf"], st["cf"], st["of"])
            for op, alt in (("csel", lambda y, n: y), ("csinc", lambda y, n: (y + 1) & M(n)),
                            ("csinv", lambda y, n: ~y & M(n)), ("csneg", lambda y, n: -y & M(n))):
                add("%s %s, %s, %s, %s" % (op, d, a, b, cnd), op.upper(), [("X1", wc), ("X2", wc)],
                    lambda st, holds=holds, alt=alt, n=n, sf=sf:
                    {"X0": setd(sf, st["X1"] & M(n) if holds(st) else alt(st["X2"] & M(n), n))}, fl="all", cap=48,
                    group="a64-csel")
            if cnd not in ("al", "nv"):
                add("cset %s, %s" % (d, cnd), "CSET", [], lambda st, holds=holds: {"X0": int(holds(st))}, fl="all")
                add("csetm %s, %s" % (d, cnd), "CSETM", [], lambda st, holds=holds, n=n: {"X0": M(n) if holds(st) else 0},
                    fl="all")
                add("cinc %s, %s, %s" % (d, a, cnd), "CINC", [("X1", wc)],
                    lambda st, holds=holds, n=n, sf=sf: {"X0": setd(sf, (st["X1"] + int(holds(st))) & M(n))}, fl="all", cap=48)
                add("cneg %s, %s, %s" % (d, a, cnd), "CNEG", [("X1", wc)],
                    lambda st, holds=holds, n=n, sf=sf:
                    {"X0": setd(sf, (-st["X1"] if holds(st) else st["X1"]) & M(n))}, fl="all", cap=48)
            for op in ("ccmp", "ccmn"):
                for flags in (0, 15, 5, 10):
                    if flags in (5, 10) and not thorough and cnd not in ("eq", "ge", "hi", "vs"):
                        continue

                    def fn(st, holds=holds, op=op, flags=flags, n=n, y_of=None):
                        if holds(st):
                            x, y = st["X1"] & M(n), y_of(st) & M(n)
                            t = awc(x, ~y & M(n), 1, n) if op == "ccmp" else awc(x, y, 0, n)
                            return nzcv(t)
                        return dict(nf=flags >> 3 & 1, zf=flags >> 2 & 1, cf=flags >> 1 & 1, of=flags & 1)
                    add("%s %s, %s, #%d, %s" % (op, a, b, flags, cnd), op.upper(), [("X1", wc), ("X2", wc)],
                        (lambda st, fn=fn: fn(st, y_of=lambda s: s["X2"])), fl="all", cap=48, group="a64-ccmp")
                    add("%s %s, #%d, #%d, %s" % (op, a, 31 if flags else 0, flags, cnd), op.upper(), [("X1", wc)],
                        (lambda st, fn=fn, v=(31 if flags else 0): fn(st, y_of=lambda s: v)), fl="all", cap=32,
                        group="a64-ccmp")
        # --- variable shifts
        for mn, typ in (("lsl", "lsl"), ("lsr", "lsr"), ("asr", "asr"), ("ror", "ror")):
            def fn(st, typ=typ, n=n, sf=sf):
                k = st["X2"] % n
                v = st["X1"] & M(n)
                r = {"lsl": (v << k) & M(n), "lsr": v >> k, "asr": (sx(v, n) >> k) & M(n), "ror": ror(v, k, n)}[typ]
                return {"X0": setd(sf, r)}
            add("%s %s, %s, %s" % (mn, d, a, b), mn.upper() + "V", [("X1", wc), ("X2", "amt")], fn, cap=120)
        # --- multiply / divide
        add("mul %s, %s, %s" % (d, a, b), "MUL", [("X1", wc), ("X2", wc)],
            lambda st, n=n, sf=sf: {"X0": setd(sf, (st["X1"] * st["X2"]) & M(n))})
        add("madd %s, %s, %s, %s" % (d, a, b, c3), "MADD", [("X1", wc), ("X2", wc), ("X3", wc)],
            lambda st, n=n, sf=sf: {"X0": setd(sf, (st["X3"] + st["X1"] * st["X2"]) & M(n))}, cap=80)
        add("msub %s, %s, %s, %s" % (d, a, b, c3), "MSUB", [("X1", wc), ("X2", wc), ("X3", wc)],
            lambda st, n=n, sf=sf: {"X0": setd(sf, (st["X3"] - st["X1"] * st["X2"]) & M(n))}, cap=80)
        add("mneg %s, %s, %s" % (d, a, b), "MNEG", [("X1", wc), ("X2", wc)],
            lambda st, n=n, sf=sf: {"X0": setd(sf, (-(st["X1"] * st["X2"])) & M(n))})

        def div(signed, n=n, sf=sf):
            def fn(st):
                x, y = st["X1"] & M(n), st["X2"] & M(n)
                if y == 0:
                    return {"X0": 0}
                if signed:
                    x, y = sx(x, n), sx(y, n)
                    q = abs(x) // abs(y)
                    if (x < 0) != (y < 0):
                        q = -q
                else:
                    q = x // y
                return {"X0": setd(sf, q & M(n))}
            return fn
        add("udiv %s, %s, %s" % (d, a, b), "UDIV", [("X1", wc), ("X2", wc)], div(False), cap=120)
        add("sdiv %s, %s, %s" % (d, a, b), "SDIV", [("X1", wc), ("X2", wc)], div(True), cap=120)
        # --- bit counting / reversal
        add("clz %s, %s" % (d, a), "CLZ", [("X1", wc)], lambda st, n=n: {"X0": clz(st["X1"], n)})

        def cls(st, n=n):
            v = st["X1"] & M(n)
            return {"X0": clz((v ^ (v >> 1)) & M(n - 1), n - 1)}
        add("cls %s, %s" % (d, a), "CLS", [("X1", wc)], cls)
        add("rbit %s, %s" % (d, a), "RBIT", [("X1", wc)], lambda st, n=n: {"X0": rbit(st["X1"], n)})
        add("rev %s, %s" % (d, a), "REV", [("X1", wc)], lambda st, n=n: {"X0": bswap(st["X1"], n // 8)})

        def rev16(st, n=n):
            v = st["X1"] & M(n)
            return {"X0": sum(bswap((v >> s) & 0xffff, 2) << s for s in range(0, n, 16))}
        add("rev16 %s, %s" % (d, a), "REV16", [("X1", wc)], rev16)
    add("rev32 x0, x1", "REV32", [("X1", "w64")],
        lambda st: {"X0": bswap(st["X1"] >> 32, 4) << 32 | bswap(st["X1"] & M(32), 4)})
    for mn, signed in (("smull", 1), ("umull", 0), ("smnegl", 1), ("umnegl", 0)):
        def fn(st, mn=mn, signed=signed):
            x, y = st["X1"] & M(32), st["X2"] & M(32)
            if signed:
                x, y = sx(x, 32), sx(y, 32)
            r = x * y
            return {"X0": (-r if "neg" in mn else r) & M(64)}
        add("%s x0, w1, w2" % mn, mn.upper(), [("X1", "w64"), ("X2", "w64")], fn, cap=100)
    for mn, signed in (("smaddl", 1), ("umaddl", 0), ("smsubl", 1), ("umsubl", 0)):
        def fn(st, mn=mn, signed=signed):
            x, y = st["X1"] & M(32), st["X2"] & M(32)
            if signed:
                x, y = sx(x, 32), sx(y, 32)
            r = x * y
            return {"X0": (st["X3"] - r if "sub" in mn else st["X3"] + r) & M(64)}
        add("%s x0, w1, w2, x3" % mn, mn.upper(), [("X1", "w64"), ("X2", "w64"), ("X3", "w64")], fn, cap=100)
    add("smulh x0, x1, x2", "SMULH", [("X1", "w64"), ("X2", "w64")],
        lambda st: {"X0": ((sx(st["X1"], 64) * sx(st["X2"], 64)) >> 64) & M(64)}, cap=150)
    add("umulh x0, x1, x2", "UMULH", [("X1", "w64"), ("X2", "w64")],
        lambda st: {"X0": (st["X1"] * st["X2"]) >> 64}, cap=150)
    return out



# =============================================================================================
# MIPS32 release 2 -- MIPS Architecture for Programmers Vol. II (MD00086)

def mips_templates(thorough=False):
    out = []
    for arch in ("mips32l", "mips32b"):
        sub = []

        def add(text, mn, slots, fn, cap=None, group="mips", sub=sub, arch=arch):
            t = Tpl(arch, text, mn, slots, fn, cap=cap, group=group)
            if " $zero," in text and mn not in ("DIV", "DIVU"):
                t.form = "rd-zero"
            sub.append(t)
        A, B = "A0", "A1"
        two = [(A, "w32"), (B, "w32")]
        R3 = {"addu": lambda x, y: x + y, "subu": lambda x, y: x - y, "and": lambda x, y: x & y,
              "or": lambda x, y: x | y, "xor": lambda x, y: x ^ y, "nor": lambda x, y: ~(x | y),
              "slt": lambda x, y: int(sx(x, 32) < sx(y, 32)), "sltu": lambda x, y: int(x < y),
              "mul": lambda x, y: sx(x, 32) * sx(y, 32),
              "movn": None, "movz": None}
        for mn, f in R3.items():
            if f is None:
                add("%s $v0, $a0, $a1" % mn, mn.upper(), [("V0", "w32")] + two,
                    lambda st, mn=mn: ({"V0": st["A0"]} if (st["A1"] != 0) == (mn == "movn") else {}), cap=100)
            else:
                und = ("R_HI", "R_LO") if mn == "mul" else ()       # MUL leaves HI/LO UNPREDICTABLE
                add("%s $v0, $a0, $a1" % mn, mn.upper(), two,
                    lambda st, f=f, und=und: {"V0": f(st["A0"], st["A1"]) & M(32), "_undef": und})
                add("%s $a0, $a0, $a1" % mn, mn.upper(), two,
                    lambda st, f=f, und=und: {"A0": f(st["A0"], st["A1"]) & M(32), "_undef": und}, cap=40)
        # destination $zero is discarded
        add("addu $zero, $a0, $a1", "ADDU", two, lambda st: {}, cap=8)
        IMM = {"addiu": (lambda x, i: x + sx(i, 16)), "andi": (lambda x, i: x & i), "ori": (lambda x, i: x | i),
               "xori": (lambda x, i: x ^ i), "slti": (lambda x, i: int(sx(x, 32) < sx(i, 16))),
               "sltiu": (lambda x, i: int(x < (sx(i, 16) & M(32))))}
        for mn, f in IMM.items():
            for i in (0, 1, 0x7fff, 0x8000, 0xffff, 0x1234):
                txt = i if mn in ("andi", "ori", "xori") else sx(i, 16)
                add("%s $v0, $a0, %d" % (mn, txt), mn.upper(), [(A, "w32")],
                    lambda st, f=f, i=i: {"V0": f(st["A0"], i) & M(32)})
        for i in (0, 1, 0x7fff, 0x8000, 0xffff):
            add("lui $v0, 0x%x" % i, "LUI", [], lambda st, i=i: {"V0": i << 16})
        for mn, f in (("sll", lambda x, k: x << k), ("srl", lambda x, k: x >> k),
                      ("sra", lambda x, k: sx(x, 32) >> k), ("rotr", lambda x, k: ror(x, k, 32))):
            for k in (0, 1, 5, 16, 31):
                if mn == "sll" and k == 0:
                    continue            # sll $0,$0,0 family = nop encodings
                add("%s $v0, $a0, %d" % (mn, k), mn.upper(), [(A, "w32")], lambda st, f=f, k=k: {"V0": f(st["A0"], k) & M(32)})
            add("%sv $v0, $a0, $a1" % mn, mn.upper() + "V", [(A, "w32"), (B, "amt")],
                lambda st, f=f: {"V0": f(st["A0"], st["A1"] & 31) & M(32)}, cap=120)

        def mult(signed, acc):
            def fn(st):
                x, y = st["A0"], st["A1"]
                if signed:
                    x, y = sx(x, 32), sx(y, 32)
                p = x * y
                if acc:
                    cur = st["R_HI"] << 32 | st["R_LO"]
                    p = cur + p if acc > 0 else cur - p
                p &= M(64)
                return {"R_HI": p >> 32, "R_LO": p & M(32)}
            return fn
        add("mult $a0, $a1", "MULT", two, mult(True, 0))
        add("multu $a0, $a1", "MULTU", two, mult(False, 0))
        hl = [("R_HI", "w32"), ("R_LO", "w32")]
        add("madd $a0, $a1", "MADD", two + hl, mult(True, 1), cap=150)
        add("maddu $a0, $a1", "MADDU", two + hl, mult(False, 1), cap=150)
        add("msub $a0, $a1", "MSUB", two + hl, mult(True, -1), cap=150)
        add("msubu $a0, $a1", "MSUBU", two + hl, mult(False, -1), cap=150)

        def div(signed):
            def fn(st):
                x, y = st["A0"], st["A1"]
                if y == 0:
                    return None             # UNPREDICTABLE
                if signed:
                    x, y = sx(x, 32), sx(y, 32)
                    if x == -(1 << 31) and y == -1:
                        return None         # quotient not representable: not defined by the manual
                    q = abs(x) // abs(y)
                    if (x < 0) != (y < 0):
                        q = -q
                    r = x - q * y
                else:
                    q, r = x // y, x % y
                return {"R_LO": q & M(32), "R_HI": r & M(32)}
            return fn
        add("div $zero, $a0, $a1", "DIV", two, div(True), cap=200)
        add("divu $zero, $a0, $a1", "DIVU", two, div(False), cap=200)
        add("mfhi $v0", "MFHI", [("R_HI", "w32")], lambda st: {"V0": st["R_HI"]})
        add("mflo $v0", "MFLO", [("R_LO", "w32")], lambda st: {"V0": st["R_LO"]})
        add("mthi $a0", "MTHI", [(A, "w32")], lambda st: {"R_HI": st["A0"]})
        add("mtlo $a0", "MTLO", [(A, "w32")], lambda st: {"R_LO": st["A0"]})
        add("clz $v0, $a0", "CLZ", [(A, "w32")], lambda st: {"V0": clz(st["A0"], 32)})
        add("clo $v0, $a0", "CLO", [(A, "w32")], lambda st: {"V0": clz(~st["A0"], 32)})
        add("seb $v0, $a0", "SEB", [(A, "w32")], lambda st: {"V0": sx(st["A0"], 8) & M(32)})
        add("seh $v0, $a0", "SEH", [(A, "w32")], lambda st: {"V0": sx(st["A0"], 16) & M(32)})
        add("wsbh $v0, $a0", "WSBH", [(A, "w32")],
            lambda st: {"V0": bswap(st["A0"] >> 16, 2) << 16 | bswap(st["A0"] & 0xffff, 2)})
        for pos, size in ((0, 1), (0, 32), (31, 1), (4, 8), (7, 17), (16, 16), (1, 31)):
            add("ext $v0, $a0, %d, %d" % (pos, size), "EXT", [(A, "w32")],
                lambda st, pos=pos, size=size: {"V0": (st["A0"] >> pos) & M(size)})
            add("ins $v0, $a0, %d, %d" % (pos, size), "INS", [("V0", "w32"), (A, "w32")],
                lambda st, pos=pos, size=size:
                {"V0": (st["V0"] & ~(M(size) << pos) & M(32)) | (st["A0"] & M(size)) << pos}, cap=40)
        if arch == "mips32b" and not thorough:
            # the big-endian decoder shares the semantics: a thinner slice in the quick tier
            for t in sub:
                t.cap = min(t.cap or 64, 12)
        out += sub
    return out


# =============================================================================================
# PowerPC 32-bit -- Power ISA Book I chapter 3 (fixed-point facility)

def ppc_mask(mb, me):
    """MASK(mb, me) in IBM numbering (bit 0 = most significant of 32)"""
    def bit(i):
        return 1 << (31 - i)
    m = 0
    i = mb
    while True:
        m |= bit(i)
        if i == me:
            break
        i = (i + 1) % 32
    return m


def ppc_templates(thorough=False):
    out = []
    arch = "ppc32b"

    def add(text, mn, slots, fn, fl="01", cap=None, group="ppc"):
        out.append(Tpl(arch, text, mn, slots, fn, flagsets=fl, cap=cap, group=group))

    def cr_of(r, so, f=0):
        s = sx(r, 32)
        return {"CR%d_LT" % f: int(s < 0), "CR%d_GT" % f: int(s > 0), "CR%d_EQ" % f: int(s == 0), "CR%d_SO" % f: so}

    def arith(name, a_of, b_of, c_of, ca_out, regs):
        """rt = a + b + c ; variants: '' / '.' / 'o' / 'o.'"""
        for oe in ("", "o"):
            for rc in ("", "."):
                def fn(st, oe=oe, rc=rc):
                    a, b, c = a_of(st) & M(32), b_of(st) & M(32), c_of(st)
                    r, _n, _z, co, ov = awc(a, b, c, 32)
                    up = {"R3": r}
                    if ca_out:
                        up["XER_CA"] = co
                    so = st["XER_SO"]
                    if oe:
                        up["XER_OV"] = ov
                        so = so | ov
                        up["XER_SO"] = so
                    if rc:
                        up.update(cr_of(r, so))
                    return up
                uses_ca = "ca"
                add("%s%s%s %s" % (name, oe, rc, regs), (name + oe + rc).upper(),
                    [(r, "w32") for r in ("R4", "R5") if r.lower()[1:] in [x.strip() for x in regs.split(",")[1:]]],
                    fn, fl=uses_ca, cap=160 if regs.count(",") == 2 else None)
    ra, rb, ca = (lambda st: st["R4"]), (lambda st: st["R5"]), (lambda st: st["XER_CA"])
    zero, one, m1 = (lambda st: 0), (lambda st: 1), (lambda st: M(32))
    nra = lambda st: ~st["R4"]
    arith("add", ra, rb, zero, False, "3, 4, 5")
    arith("addc", ra, rb, zero, True, "3, 4, 5")
    arith("adde", ra, rb, ca, True, "3, 4, 5")
    arith("addze", ra, zero, ca, True, "3, 4")
    arith("addme", ra, m1, ca, True, "3, 4")
    arith("subf", nra, rb, one, False, "3, 4, 5")
    arith("subfc", nra, rb, one, True, "3, 4, 5")
    arith("subfe", nra, rb, ca, True, "3, 4, 5")
    arith("subfze", nra, zero, ca, True, "3, 4")
    arith("subfme", nra, m1, ca, True, "3, 4")
    arith("neg", nra, zero, one, False, "3, 4")
    for si in (0, 1, -1, 0x7fff, -0x8000, 0x1234):
        v = si & M(32)
        add("addi 3, 4, %d" % si, "ADDI", [("R4", "w32")], lambda st, v=v: {"R3": (st["R4"] + v) & M(32)}, cap=26)
        add("addis 3, 4, %d" % si, "ADDIS", [("R4", "w32")], lambda st, v=v: {"R3": (st["R4"] + (v << 16)) & M(32)}, cap=26)
        add("addi 3, 0, %d" % si, "ADDI", [("R0", "w32")], lambda st, v=v: {"R3": v}, cap=4)       # RA=0 reads as zero

        def addic(st, v=v, rc=False):
            r, _n, _z, co, _v = awc(st["R4"], v, 0, 32)
            up = {"R3": r, "XER_CA": co}
            if rc:
                up.update(cr_of(r, st["XER_SO"]))
            return up
        add("addic 3, 4, %d" % si, "ADDIC", [("R4", "w32")], addic, fl="ca", cap=52)
        add("addic. 3, 4, %d" % si, "ADDIC.", [("R4", "w32")], lambda st, f=addic: f(st, rc=True), fl="ca", cap=52)

        def subfic(st, v=v):
            r, _n, _z, co, _v = awc(~st["R4"], v, 1, 32)
            return {"R3": r, "XER_CA": co}
        add("subfic 3, 4, %d" % si, "SUBFIC", [("R4", "w32")], subfic, fl="ca", cap=52)
        add("mulli 3, 4, %d" % si, "MULLI", [("R4", "w32")], lambda st, si=si: {"R3": (sx(st["R4"], 32) * si) & M(32)}, cap=26)
    two = [("R4", "w32"), ("R5", "w32")]
    for rc in ("", "."):
        def rcw(fn, rc=rc):
            def g(st):
                up = fn(st)
                if rc and up is not None:
                    up.update(cr_of(up["R3"], st["XER_SO"]))
                return up
            return g
        add("mullw%s 3, 4, 5" % rc, "MULLW" + rc, two, rcw(lambda st: {"R3": (st["R4"] * st["R5"]) & M(32)}), cap=160)
        add("mulhw%s 3, 4, 5" % rc, "MULHW" + rc, two,
            rcw(lambda st: {"R3": ((sx(st["R4"], 32) * sx(st["R5"], 32)) >> 32) & M(32)}), cap=160)
        add("mulhwu%s 3, 4, 5" % rc, "MULHWU" + rc, two, rcw(lambda st: {"R3": (st["R4"] * st["R5"]) >> 32}), cap=160)

        def divw(st):
            x, y = sx(st["R4"], 32), sx(st["R5"], 32)
            if y == 0 or (x == -(1 << 31) and y == -1):
                return None                 # RT (and CR0) undefined
            q = abs(x) // abs(y)
            if (x < 0) != (y < 0):
                q = -q
            return {"R3": q & M(32)}

        def divwu(st):
            if st["R5"] == 0:
                return None
            return {"R3": st["R4"] // st["R5"]}
        add("divw%s 3, 4, 5" % rc, "DIVW" + rc, two, rcw(divw), cap=200)
        add("divwu%s 3, 4, 5" % rc, "DIVWU" + rc, two, rcw(divwu), cap=200)
        # logical (destination RA = r3, sources RS = r4, RB = r5)
        for mn, f in (("and", lambda x, y: x & y), ("or", lambda x, y: x | y), ("xor", lambda x, y: x ^ y),
                      ("nand", lambda x, y: ~(x & y)), ("nor", lambda x, y: ~(x | y)), ("andc", lambda x, y: x & ~y),
                      ("orc", lambda x, y: x | ~y), ("eqv", lambda x, y: ~(x ^ y))):
            add("%s%s 3, 4, 5" % (mn, rc), (mn + rc).upper(), two, rcw(lambda st, f=f: {"R3": f(st["R4"], st["R5"]) & M(32)}))
        add("extsb%s 3, 4" % rc, "EXTSB" + rc, two[:1], rcw(lambda st: {"R3": sx(st["R4"], 8) & M(32)}))
        add("extsh%s 3, 4" % rc, "EXTSH" + rc, two[:1], rcw(lambda st: {"R3": sx(st["R4"], 16) & M(32)}))
        add("cntlzw%s 3, 4" % rc, "CNTLZW" + rc, two[:1], rcw(lambda st: {"R3": clz(st["R4"], 32)}))

        def slw(st):
            n = st["R5"] & 0x3f
            return {"R3": (st["R4"] << n) & M(32) if n < 32 else 0}

        def srw(st):
            n = st["R5"] & 0x3f
            return {"R3": st["R4"] >> n if n < 32 else 0}

        def sraw_n(v, n):
            s = v >> 31
            if n > 31:
                return (M(32) if s else 0), s
            r = (sx(v, 32) >> n) & M(32)
            return r, int(bool(s and (v & M(n))))

        def sraw(st):
            r, c = sraw_n(st["R4"], st["R5"] & 0x3f)
            return {"R3": r, "XER_CA": c}
        amt2 = [("R4", "w32"), ("R5", "amt")]
        add("slw%s 3, 4, 5" % rc, "SLW" + rc, amt2, rcw(slw), cap=120)
        add("srw%s 3, 4, 5" % rc, "SRW" + rc, amt2, rcw(srw), cap=120)
        add("sraw%s 3, 4, 5" % rc, "SRAW" + rc, amt2, rcw(sraw), fl="ca", cap=160)
        for n in (0, 1, 16, 31):
            add("srawi%s 3, 4, %d" % (rc, n), "SRAWI" + rc, two[:1],
                rcw(lambda st, n=n: (lambda t: {"R3": t[0], "XER_CA": t[1]})(sraw_n(st["R4"], n))), fl="ca", cap=52)
        # rotate and mask
        mbme = [(0, 31), (0, 0), (31, 31), (8, 23), (24, 7), (16, 15), (1, 0), (31, 0), (0, 30), (5, 5), (28, 3)]
        shs = [0, 1, 8, 31] if not thorough else [0, 1, 4, 8, 15, 16, 24, 31]
        for mb, me in mbme:
            m = ppc_mask(mb, me)
            for sh in shs:
                add("rlwinm%s 3, 4, %d, %d, %d" % (rc, sh, mb, me), "RLWINM" + rc, two[:1],
                    rcw(lambda st, sh=sh, m=m: {"R3": rol(st["R4"], sh, 32) & m}), cap=16)
                add("rlwimi%s 3, 4, %d, %d, %d" % (rc, sh, mb, me), "RLWIMI" + rc, [("R3", "w32"), ("R4", "w32")],
                    rcw(lambda st, sh=sh, m=m: {"R3": (rol(st["R4"], sh, 32) & m) | (st["R3"] & ~m & M(32))}), cap=24)
            add("rlwnm%s 3, 4, 5, %d, %d" % (rc, mb, me), "RLWNM" + rc, amt2,
                rcw(lambda st, m=m: {"R3": rol(st["R4"], st["R5"] & 31, 32) & m}), cap=60)
    for ui in (0, 1, 0x7fff, 0x8000, 0xffff):
        add("andi. 3, 4, %d" % ui, "ANDI.", two[:1],
            lambda st, ui=ui: (lambda r: dict(cr_of(r, st["XER_SO"]), R3=r))(st["R4"] & ui))
        add("andis. 3, 4, %d" % ui, "ANDIS.", two[:1],
            lambda st, ui=ui: (lambda r: dict(cr_of(r, st["XER_SO"]), R3=r))(st["R4"] & (ui << 16)))
        add("ori 3, 4, %d" % ui, "ORI", two[:1], lambda st, ui=ui: {"R3": st["R4"] | ui}, cap=26)
        add("oris 3, 4, %d" % ui, "ORIS", two[:1], lambda st, ui=ui: {"R3": st["R4"] | ui << 16}, cap=26)
        add("xori 3, 4, %d" % ui, "XORI", two[:1], lambda st, ui=ui: {"R3": st["R4"] ^ ui}, cap=26)
        add("xoris 3, 4, %d" % ui, "XORIS", two[:1], lambda st, ui=ui: {"R3": st["R4"] ^ ui << 16}, cap=26)
    # compares into every CR field
    for f in (0, 1, 7):
        def cmpf(st, f=f, signed=True, y_of=None):
            x, y = st["R4"], y_of(st) & M(32)
            if signed:
                x, y = sx(x, 32), sx(y, 32)
            return {"CR%d_LT" % f: int(x < y), "CR%d_GT" % f: int(x > y), "CR%d_EQ" % f: int(x == y),
                    "CR%d_SO" % f: st["XER_SO"]}
        add("cmpw %d, 4, 5" % f, "CMPW", two, lambda st, g=cmpf: g(st, y_of=lambda s: s["R5"]), cap=200)
        add("cmplw %d, 4, 5" % f, "CMPLW", two, lambda st, g=cmpf: g(st, signed=False, y_of=lambda s: s["R5"]), cap=200)
        for si in (0, 1, -1, 0x7fff, -0x8000):
            add("cmpwi %d, 4, %d" % (f, si), "CMPWI", two[:1], lambda st, g=cmpf, si=si: g(st, y_of=lambda s: si), cap=52)
            add("cmplwi %d, 4, %d" % (f, si & 0xffff), "CMPLWI", two[:1],
                lambda st, g=cmpf, si=si: g(st, signed=False, y_of=lambda s: si & 0xffff), cap=52)
    return out


def all_templates(thorough=False):
    out = []
    for arch in ("arml", "armtl"):
        out += arm_templates(arch, thorough)
    for fn in ("a64_templates", "mips_templates", "ppc_templates"):
        f = globals().get(fn)
        if f:
            out += f(thorough)
    # interleave architectures so that every shard sees all of them
    return out
