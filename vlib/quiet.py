"""Silence file descriptor 2 around calls into miasm's C extensions / stubs that print warnings
(VmMngr prints one line per unmapped access).  Python-level tracebacks of the harness are not
affected: workers return them as values."""
import contextlib
import os
import sys


@contextlib.contextmanager
def quiet_stderr():
    sys.stderr.flush()
    saved = os.dup(2)
    null = os.open(os.devnull, os.O_WRONLY)
    try:
        os.dup2(null, 2)
        yield
    finally:
        sys.stderr.flush()
        os.dup2(saved, 2)
        os.close(saved)
        os.close(null)


@contextlib.contextmanager
def quiet_stdout():
    """Some stubs print on fd 1 (puts / printf emulation)."""
    sys.stdout.flush()
    saved = os.dup(1)
    null = os.open(os.devnull, os.O_WRONLY)
    try:
        os.dup2(null, 1)
        yield
    finally:
        sys.stdout.flush()
        os.dup2(saved, 1)
        os.close(saved)
        os.close(null)
