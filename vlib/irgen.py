"""Hypothesis strategies for miasm IR: AssignBlocks, IR blocks and small IR graphs over the registers
of a lifter.

Everything generated is a *raw* description (plain lists of (dst, src) expression pairs, no
miasm IR object), so that a check can (i) build the miasm objects itself with `build_assignblk` /
`build_irblock` / `build_ircfg`, (ii) give the very same raw pairs to the concrete interpreter
(vlib.irinterp accepts raw pair lists, including sliced destinations), and (iii) serialise the case
with `ser_blocks` / `deser_blocks` for replay.

Vocabulary
----------
RegPool(lifter)        the registers the generator draws from, grouped by width; `ptr_regs` are the
                       registers of the lifter's address size (used as memory bases / indexes).
mem_operand(pool, w)   @w[base (+ index [* scale]) (+ const)]   with base/index in pool.ptr_regs,
                       scale in {1, 2, 4, 8}, |const| small and biased to overlap neighbouring cells.
src_expr(pool, w, d)   source expression of width w: vlib.exprgen.free_expr whose identifier leaves are
                       registers (or slices / extensions of registers when no register has width w)
                       and whose memory reads are mem_operand()s.
assignblk(pool, ...)   one AssignBlock as a list of (dst, src) pairs with distinct destinations, built
                       from *hazard templates*: swap (a = b, b = a), rotation of three registers,
                       read-after-write (a destination register read by the other sources and by
                       destination pointers), several disjoint slices of one register, memory store
                       whose pointer register is reassigned in the same block, load from the cell stored
                       in the same block, plus free assignments.
irblock(pool, ...)     list of AssignBlocks + final destination (see dst_expr).
chain(pool, ...)       straight-line list of blocks b0 -> b1 -> ... (unconditional ExprLoc jumps), the last
                       one leaving the graph (ExprLoc without block, ExprCond of two such, register, int).
counted_loop(pool,...) head: counter := const (1..4); body: ...; counter := counter - 1;
                       IRDst := counter ? body : exit   -- control flow an engine resolves concretely.
memcopy_program(pool)  memory traffic over small windows of 2..3 symbolic bases: piecewise memory-to-memory copies,
                       copies through a register, partial overwrites, loads at arbitrary byte offsets.

Location keys are small integers i (rendered as LocKey(i) in a fresh LocationDB, see `build_ircfg`);
by convention the blocks of a graph are 0..n-1 and keys >= n are exits without block.

Another module may extend this one with structured *graphs* (diamonds, multi-way, irreducible loops):
keep new strategies producing the same raw form {"blocks": [{"loc": i, "assignblks": [[(dst, src)..]..]}..],
"head": i}.
"""
import re

from hypothesis import strategies as st

from vlib import exprgen

SCALES = [1, 2, 4, 8]
CONSTS = [0, 1, 2, 3, 4, 5, 7, 8, 12, 16, 0x20, 0x7f, 0x80, 0xff, 0x100, 0xffc, -1, -2, -3, -4, -8, -16, -0x80]


def _m():
    import miasm.expression.expression as m
    return m


class RegPool(object):
    """Registers of `lifter` used by the generator.  by_size: {width: [ExprId]}, at most `per_size`
    per width (the first ones of arch.regs.all_regs_ids, special ones removed); ptr_regs: the
    registers of the address size; irdst, pc, sp."""

    SKIP = ("exception_flags", "interrupt_num", "IRDst")

    def __init__(self, lifter, per_size=6, nptr=6):
        self.lifter = lifter
        self.addrsize = lifter.addrsize
        self.irdst = lifter.IRDst
        self.pc = lifter.pc
        self.sp = lifter.sp
        self.by_size = {}
        seen = set()
        for r in lifter.arch.regs.all_regs_ids:
            if r.name in self.SKIP or r == self.irdst or r == self.pc or r.name in seen:
                continue
            seen.add(r.name)
            lst = self.by_size.setdefault(r.size, [])
            limit = nptr if r.size == self.addrsize else per_size
            if len(lst) < limit:
                lst.append(r)
        self.ptr_regs = list(self.by_size.get(self.addrsize, []))
        assert len(self.ptr_regs) >= 3, "not enough pointer registers"
        self.sizes = sorted(self.by_size)

    def all_regs(self):
        return [r for s in self.sizes for r in self.by_size[s]]


def pool_x86_32():
    """RegPool of a fresh x86_32 lifter (the default vocabulary of the random IR strata)"""
    from miasm.analysis.machine import Machine
    from miasm.core.locationdb import LocationDB
    return RegPool(Machine("x86_32").lifter(LocationDB()))


# ----------------------------------------------------------------------------------------------
# expressions

def reg_leaf(pool, w):
    """expression of width w made of one register: the register itself, a slice of a wider one, or an
    extension of a narrower one"""
    m = _m()
    if w in pool.by_size:
        return st.sampled_from(pool.by_size[w])
    wider = [s for s in pool.sizes if s > w]
    narrower = [s for s in pool.sizes if s < w]

    @st.composite
    def build(draw):
        use_wide = wider and (not narrower or draw(st.booleans()))
        if use_wide:
            s = draw(st.sampled_from(wider[:3]))
            r = draw(st.sampled_from(pool.by_size[s]))
            start = draw(st.sampled_from(sorted({0, s - w, (s - w) // 2, min(8, s - w)})))
            return m.ExprSlice(r, start, start + w)
        if narrower:
            s = draw(st.sampled_from(narrower[-3:]))
            r = draw(st.sampled_from(pool.by_size[s]))
            return m.ExprOp(draw(st.sampled_from(["zeroExt_%d", "signExt_%d"])) % w, r)
        return m.ExprInt(draw(exprgen.const_values(w)), w)
    return build()


@st.composite
def pointer(draw, pool, bases=None):
    """base (+ index [* scale]) (+ const) over pointer registers"""
    m = _m()
    n = pool.addrsize
    regs = bases or pool.ptr_regs
    base = draw(st.sampled_from(regs))
    args = [base]
    if draw(st.integers(0, 3)) == 0:
        idx = draw(st.sampled_from(pool.ptr_regs))
        sc = draw(st.sampled_from(SCALES))
        args.append(idx if sc == 1 else m.ExprOp('*', idx, m.ExprInt(sc, n)))
    c = draw(st.sampled_from(CONSTS))
    if c != 0 or draw(st.integers(0, 7)) == 0:
        args.append(m.ExprInt(c & ((1 << n) - 1), n))
    if len(args) == 1:
        return base
    return m.ExprOp('+', *args)


@st.composite
def mem_operand(draw, pool, w, bases=None):
    """@w[pointer] for w multiple of 8; other widths: a slice of the enclosing bytes"""
    m = _m()
    ptr = draw(pointer(pool, bases))
    if w % 8 == 0:
        return m.ExprMem(ptr, w)
    wb = (w + 7) // 8 * 8
    start = draw(st.sampled_from([0, wb - w]))
    return m.ExprSlice(m.ExprMem(ptr, wb), start, start + w)


def expr_cfg(pool, mem=True, maxw=128):
    return {"id_leaf": lambda w: reg_leaf(pool, w), "mem_leaf": lambda w: mem_operand(pool, w),
            "mem": mem, "maxw": maxw}


def src_expr(pool, w, depth=2, mem=True):
    """source expression of width w over the pool (operators of exprgen.free_expr)"""
    return exprgen.free_expr(w, depth, expr_cfg(pool, mem))


def simple_src(pool, w, mem=True):
    """shallow source: register / constant / memory operand / one binary op"""
    m = _m()

    @st.composite
    def build(draw):
        k = draw(st.integers(0, 9))
        if k < 3:
            return draw(reg_leaf(pool, w))
        if k < 4:
            return m.ExprInt(draw(exprgen.const_values(w)), w)
        if k < 6 and mem and w <= 128:
            return draw(mem_operand(pool, w))
        op = draw(st.sampled_from(['+', '-', '^', '&', '|', '*', '<<', '>>']))
        a = draw(reg_leaf(pool, w))
        b = draw(st.one_of(reg_leaf(pool, w), st.builds(lambda v: m.ExprInt(v, w), exprgen.const_values(w))))
        return m.ExprOp(op, a, b)
    return build()


# ----------------------------------------------------------------------------------------------
# AssignBlocks

HAZARDS = ["swap", "rotate3", "raw-chain", "slices", "store-ptr-reassigned", "load-stored-cell", "two-stores",
           "free"]


@st.composite
def assignblk(draw, pool, hazard=None, depth=2, mem=True, max_free=3):
    """-> (hazard name, [(dst, src), ...]) with pairwise distinct destinations (disjoint slices of one
    register are allowed; two memory destinations use the same base register with constants >= 16 bytes
    apart, so they cannot overlap whatever the state)."""
    m = _m()
    n = pool.addrsize
    if hazard is None:
        hazard = draw(st.sampled_from(HAZARDS if mem else [h for h in HAZARDS if "store" not in h and "two" not in h]))
    pairs = []
    used = set()       # register names already assigned

    def fresh_reg(w=None):
        cands = [r for r in (pool.by_size[w] if w else pool.all_regs()) if r.name not in used]
        if not cands:
            return None
        r = draw(st.sampled_from(cands))
        used.add(r.name)
        return r

    w = draw(st.sampled_from([s for s in pool.sizes if len(pool.by_size[s]) >= 3] or pool.sizes))
    if hazard == "swap":
        a, b = fresh_reg(w), fresh_reg(w)
        pairs += [(a, b), (b, a)]
    elif hazard == "rotate3":
        a, b, c = fresh_reg(w), fresh_reg(w), fresh_reg(w)
        pairs += [(a, b), (b, m.ExprOp('+', c, m.ExprInt(1, w))), (c, m.ExprOp('^', a, b))]
    elif hazard == "raw-chain":
        # a is assigned and read by every other source: all must see its old value
        a, b, c = fresh_reg(w), fresh_reg(w), fresh_reg(w)
        pairs += [(a, draw(src_expr(pool, w, depth, mem))), (b, m.ExprOp('+', a, m.ExprInt(draw(st.integers(0, 5)), w))),
                  (c, m.ExprOp('-', a, b))]
    elif hazard == "slices":
        ws = draw(st.sampled_from([s for s in pool.sizes if s >= 16] or pool.sizes))
        r = fresh_reg(ws)
        cuts = sorted(draw(st.lists(st.integers(1, ws - 1), min_size=1, max_size=3, unique=True)))
        bounds = [0] + cuts + [ws]
        ivs = [(bounds[i], bounds[i + 1]) for i in range(len(bounds) - 1)]
        keep = draw(st.lists(st.booleans(), min_size=len(ivs), max_size=len(ivs)))
        if not any(keep):
            keep[0] = True
        for (s0, s1), k in zip(ivs, keep):
            if k:
                # the source may read the register being partially assigned (old value)
                src = draw(st.one_of(simple_src(pool, s1 - s0, mem=False),
                                     st.just(m.ExprSlice(r, ws - (s1 - s0), ws))))
                pairs.append((m.ExprSlice(r, s0, s1), src))
    elif hazard == "store-ptr-reassigned":
        p = draw(st.sampled_from(pool.ptr_regs))
        used.add(p.name)
        wm = draw(st.sampled_from([8, 16, 32, 64]))
        c = draw(st.sampled_from(CONSTS)) & ((1 << n) - 1)
        dst = m.ExprMem(m.ExprOp('+', p, m.ExprInt(c, n)) if c else p, wm)
        pairs += [(dst, draw(simple_src(pool, wm, mem))),
                  (p, m.ExprOp('+', p, m.ExprInt(draw(st.sampled_from([4, 8, 1, (1 << n) - 4])), n)))]
    elif hazard == "load-stored-cell":
        p = draw(st.sampled_from(pool.ptr_regs))
        wm = draw(st.sampled_from([8, 16, 32]))
        c = draw(st.sampled_from(CONSTS)) & ((1 << n) - 1)
        ptr = m.ExprOp('+', p, m.ExprInt(c, n)) if c else p
        r = fresh_reg(wm) if wm in pool.by_size else None
        pairs.append((m.ExprMem(ptr, wm), draw(simple_src(pool, wm, mem=False))))
        if r is not None:
            # overlapping load (same cell or shifted by one byte): must read the memory before the store
            sh = draw(st.sampled_from([0, 0, 1, (1 << n) - 1]))
            ptr2 = m.ExprOp('+', p, m.ExprInt((c + sh) & ((1 << n) - 1), n)) if (c + sh) & ((1 << n) - 1) else p
            pairs.append((r, m.ExprMem(ptr2, wm)))
    elif hazard == "two-stores":
        p = draw(st.sampled_from(pool.ptr_regs))
        c = draw(st.sampled_from(CONSTS))
        gap = draw(st.sampled_from([16, 24, 64]))
        for k in range(2):
            wm = draw(st.sampled_from([8, 16, 32, 64]))
            cc = (c + k * gap) & ((1 << n) - 1)
            pairs.append((m.ExprMem(m.ExprOp('+', p, m.ExprInt(cc, n)) if cc else p, wm),
                          draw(simple_src(pool, wm, mem))))
    # free assignments
    nfree = draw(st.integers(1 if not pairs else 0, max_free))
    has_store = any(d.is_mem() for d, _ in pairs)
    for _ in range(nfree):
        k = draw(st.integers(0, 5))
        if k == 0 and mem and not has_store:
            wm = draw(st.sampled_from([8, 16, 32, 64, 128]))
            dst = draw(mem_operand(pool, wm))
            has_store = True
        else:
            dst = fresh_reg(draw(st.sampled_from(pool.sizes)))
            if dst is None:
                continue
        pairs.append((dst, draw(src_expr(pool, dst.size, depth, mem))))
    return hazard, pairs


# ----------------------------------------------------------------------------------------------
# blocks and graphs (raw form)

def loc(i, size):
    """ExprLoc for location index i"""
    m = _m()
    return m.ExprLoc(m.LocKey(i), size)


@st.composite
def dst_expr(draw, pool, exits, allow_cond=True):
    """final destination of a block: ExprLoc / ExprCond of ExprLocs / register / int"""
    m = _m()
    sz = pool.irdst.size
    k = draw(st.integers(0, 9))
    if k < 4 or (k < 7 and not allow_cond):
        return loc(draw(st.sampled_from(exits)), sz)
    if k < 7:
        cond = draw(st.one_of(reg_leaf(pool, 1), src_expr(pool, draw(st.sampled_from([1, 8, 32])), 1, mem=False)))
        a, b = draw(st.sampled_from(exits)), draw(st.sampled_from(exits))
        return m.ExprCond(cond, loc(a, sz), loc(b, sz))
    if k < 9:
        return draw(simple_src(pool, sz))
    return m.ExprInt(draw(st.sampled_from([0x1000, 0x401000, 0xdead0000])) & ((1 << sz) - 1), sz)


@st.composite
def irblock(draw, pool, nblk=(1, 4), depth=2, mem=True):
    """-> list of AssignBlocks (each a list of pairs) without destination assignment"""
    n = draw(st.integers(*nblk))
    return [draw(assignblk(pool, depth=depth, mem=mem))[1] for _ in range(n)]


@st.composite
def chain(draw, pool, nblocks=(1, 3), depth=2, mem=True):
    """straight-line graph: -> {"blocks": [{"loc": i, "assignblks": [...]}], "head": 0}"""
    n = draw(st.integers(*nblocks))
    sz = pool.irdst.size
    blocks = []
    for i in range(n):
        abs_ = draw(irblock(pool, depth=depth, mem=mem))
        if i + 1 < n:
            d = loc(i + 1, sz)
        else:
            d = draw(dst_expr(pool, exits=[n, n + 1]))
        # the destination is assigned in the last AssignBlock, possibly together with other assignments
        if draw(st.booleans()):
            abs_[-1] = abs_[-1] + [(pool.irdst, d)]
        else:
            abs_.append([(pool.irdst, d)])
        blocks.append({"loc": i, "assignblks": abs_})
    return {"blocks": blocks, "head": 0, "nlocs": n + 2}


@st.composite
def counted_loop(draw, pool, depth=1, mem=True):
    """0: counter := k ; -> 1      1: body ; counter := counter - 1 ; IRDst := counter ? 1 : 2      2: exit block
    -> 3 (no block).  The counter register is never touched by the body."""
    m = _m()
    sz = pool.irdst.size
    w = draw(st.sampled_from([s for s in pool.sizes if s >= 8]))
    cnt = draw(st.sampled_from(pool.by_size[w]))
    sub = RegPoolView(pool, exclude=[cnt.name])
    k = draw(st.integers(1, 4))
    b0 = draw(irblock(sub, nblk=(0, 1), depth=depth, mem=mem))
    b0.append([(cnt, m.ExprInt(k, w)), (pool.irdst, loc(1, sz))])
    body = draw(irblock(sub, nblk=(1, 2), depth=depth, mem=mem))
    dec = m.ExprOp('+', cnt, m.ExprInt((1 << w) - 1, w))
    body.append([(cnt, dec), (pool.irdst, m.ExprCond(dec, loc(1, sz), loc(2, sz)))])
    b2 = draw(irblock(sub, nblk=(0, 1), depth=depth, mem=mem))
    b2.append([(pool.irdst, draw(dst_expr(pool, exits=[3, 4])))])
    return {"blocks": [{"loc": 0, "assignblks": b0}, {"loc": 1, "assignblks": body}, {"loc": 2, "assignblks": b2}],
            "head": 0, "nlocs": 5}


MEMCOPY_ORIGINS = [0, 0, 0x10, 0x100, 0x7f8, -8, -3, -0x20]
PIECES = [1, 1, 2, 2, 4, 4, 8]


@st.composite
def memcopy_program(draw, pool, nblocks=(1, 2)):
    """Memory traffic over small windows of two or three symbolic bases (pointer registers that are never
    assigned): memory-to-memory copies done in several pieces (sizes 1/2/4/8 bytes, in any order, one
    AssignBlock each or all in one), copies through a register, stores of constants / registers that
    partially overwrite what was copied, loads at arbitrary byte offsets (overlapping several stored
    pieces), then final loads of the windows into registers.  Offsets are `origin + k`, origin a
    (possibly negative, i.e. wrapping) constant per base, k in a window of ~24 bytes, biased towards the
    boundaries of earlier accesses +-3.
    -> graph (raw form) of 1..2 blocks; block i jumps to block i+1, the last one to an exit."""
    m = _m()
    n = pool.addrsize
    amask = (1 << n) - 1
    sz = pool.irdst.size
    nb = draw(st.integers(2, 3))
    idx = draw(st.lists(st.integers(0, len(pool.ptr_regs) - 1), min_size=nb, max_size=nb, unique=True))
    bases = [pool.ptr_regs[i] for i in idx]
    origin = [draw(st.sampled_from(MEMCOPY_ORIGINS)) for _ in bases]
    marks = [[0] for _ in bases]                  # interesting window offsets per base
    data_regs = [r for r in pool.all_regs() if r not in bases and r.size >= 8 and r.size % 8 == 0]
    WIN = 24

    def ptr(b, k):
        c = (origin[b] + k) & amask
        return m.ExprOp('+', bases[b], m.ExprInt(c, n)) if c else bases[b]

    def mem(b, k, nbytes):
        marks[b] += [k, k + nbytes]
        return m.ExprMem(ptr(b, k), nbytes * 8)

    def off(b, nbytes=1):
        if draw(st.integers(0, 2)):
            k = draw(st.sampled_from(marks[b])) + draw(st.integers(-3, 3))
        else:
            k = draw(st.integers(0, WIN))
        return max(0, min(WIN, k))

    def base(other_than=None):
        cands = [i for i in range(len(bases)) if i != other_than]
        return draw(st.sampled_from(cands))

    def load_pair(b, k, nbytes, r):
        """r := the nbytes at (b, k): extended / sliced to the register's width"""
        x = mem(b, k, nbytes)
        if x.size == r.size:
            return (r, x)
        if x.size < r.size:
            return (r, m.ExprOp("zeroExt_%d" % r.size, x))
        start = 8 * draw(st.integers(0, (x.size - r.size) // 8))
        return (r, m.ExprSlice(x, start, start + r.size))

    def value(nbytes):
        w = nbytes * 8
        k = draw(st.integers(0, 3))
        if k == 0:
            return m.ExprInt(draw(exprgen.const_values(w)), w)
        return draw(simple_src(pool_nobase, w, mem=False))

    pool_nobase = RegPoolView(pool, exclude=[b.name for b in bases])
    if not pool_nobase.sizes:
        pool_nobase = pool
    abs_ = []
    for _ in range(draw(st.integers(2, 6))):
        kind = draw(st.sampled_from(["pieces", "pieces", "store", "store", "load", "via-reg"]))
        if kind == "pieces":
            d = base()
            s = d if draw(st.integers(0, 4)) == 0 else base(other_than=d)
            sizes = draw(st.lists(st.sampled_from(PIECES), min_size=1, max_size=4))
            kd, ks = off(d), off(s)
            group = []
            pos = 0
            for nbytes in sizes:
                group.append((mem(d, kd + pos, nbytes), mem(s, ks + pos, nbytes)))
                pos += nbytes
            group = draw(st.permutations(group))
            if draw(st.integers(0, 3)) == 0:
                abs_.append(list(group))                # one parallel AssignBlock (destinations are disjoint)
            else:
                abs_ += [[p] for p in group]
        elif kind == "store":
            d = base()
            nbytes = draw(st.sampled_from(PIECES))
            abs_.append([(mem(d, off(d), nbytes), value(nbytes))])
        elif kind == "load" and data_regs:
            b = base()
            abs_.append([load_pair(b, off(b), draw(st.sampled_from(PIECES)), draw(st.sampled_from(data_regs)))])
        elif data_regs:
            s = base()
            d = base()
            nbytes = draw(st.sampled_from(PIECES))
            r = draw(st.sampled_from(data_regs))
            nb_st = min(nbytes, r.size // 8)
            abs_.append([load_pair(s, off(s), nbytes, r)])
            src = r if r.size == nb_st * 8 else m.ExprSlice(r, 0, nb_st * 8)
            abs_.append([(mem(d, off(d), nb_st), src)])
    # final loads: distinct registers, any byte offset of the windows
    regs = list(draw(st.permutations(data_regs)))[:draw(st.integers(2, 4))]
    for r in regs:
        b = base()
        abs_.append([load_pair(b, off(b), draw(st.sampled_from(PIECES[2:])), r)])
    nblk = min(draw(st.integers(*nblocks)), len(abs_))
    cuts = sorted(draw(st.lists(st.integers(1, len(abs_) - 1), min_size=nblk - 1, max_size=nblk - 1, unique=True))) \
        if nblk > 1 else []
    bounds = [0] + cuts + [len(abs_)]
    blocks = []
    for i in range(nblk):
        part = abs_[bounds[i]:bounds[i + 1]]
        part.append([(pool.irdst, loc(i + 1, sz))])
        blocks.append({"loc": i, "assignblks": part})
    return {"blocks": blocks, "head": 0, "nlocs": nblk + 1}


class RegPoolView(RegPool):
    """a RegPool without some registers"""

    def __init__(self, pool, exclude):
        self.lifter = pool.lifter
        self.addrsize = pool.addrsize
        self.irdst, self.pc, self.sp = pool.irdst, pool.pc, pool.sp
        self.by_size = {}
        for s, lst in pool.by_size.items():
            keep = [r for r in lst if r.name not in exclude]
            if keep:
                self.by_size[s] = keep
        self.ptr_regs = list(self.by_size.get(self.addrsize, []))
        self.sizes = sorted(self.by_size)


# ----------------------------------------------------------------------------------------------
# building miasm objects, (de)serialisation

def build_assignblk(pairs):
    """miasm AssignBlock from raw pairs (through ExprAssign, so that sliced destinations are expanded by
    miasm's own constructor)"""
    m = _m()
    from miasm.ir.ir import AssignBlock
    return AssignBlock([m.ExprAssign(d, s) for d, s in pairs])


def build_ircfg(lifter_factory, graph):
    """-> (lifter, ircfg, [LocKey by index]).  A fresh LocationDB is created and locations 0..nlocs-1 are
    added in order, so that LocKey(i) is location index i.  lifter_factory(loc_db) -> lifter."""
    from miasm.core.locationdb import LocationDB
    from miasm.ir.ir import IRBlock
    loc_db = LocationDB()
    keys = [loc_db.add_location() for _ in range(graph["nlocs"])]
    for i, k in enumerate(keys):
        assert k.key == i
    lifter = lifter_factory(loc_db)
    ircfg = lifter.new_ircfg()
    for b in graph["blocks"]:
        ircfg.add_irblock(IRBlock(loc_db, keys[b["loc"]], [build_assignblk(p) for p in b["assignblks"]]))
    return lifter, ircfg, keys


_LOCKEY = re.compile(r"<LocKey (\d+)>")


def ser_expr(e):
    return _LOCKEY.sub(r"LocKey(\1)", repr(e))


def deser_expr(s):
    from vlib.simplab import expr_ns
    return eval(s, expr_ns())


def ser_graph(graph):
    return {"head": graph["head"], "nlocs": graph["nlocs"],
            "blocks": [{"loc": b["loc"], "assignblks": [[[ser_expr(d), ser_expr(s)] for d, s in ab]
                                                        for ab in b["assignblks"]]} for b in graph["blocks"]]}


def deser_graph(js):
    return {"head": js["head"], "nlocs": js["nlocs"],
            "blocks": [{"loc": b["loc"], "assignblks": [[(deser_expr(d), deser_expr(s)) for d, s in ab]
                                                        for ab in b["assignblks"]]} for b in js["blocks"]]}
