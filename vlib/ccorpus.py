"""ccorpus — small random C functions, cross-compiled with clang into raw code bytes.

Every generated function has the signature

    W fN(W a, W b, W c, W *arr)          W = uint32_t (uint16_t for msp430), arr = 8 words

and is *total* by construction: array indices are masked, shift counts are masked, divisors are
forced odd (non-zero), loops run at most 8 iterations, only unsigned arithmetic is performed
(signed views are used for comparisons and arithmetic right shifts only).  The same text can
therefore be compiled with the host compiler and run natively (`native_eval`), which gives an
expected result that does not depend on miasm.

Compilation: one translation unit per (batch of functions, target, optimisation level) with
`clang --target=<triple> -ffreestanding -fno-builtin -fno-pic -fno-jump-tables -ffunction-sections -c`;
each function's `.text.fN` section is read with a small independent ELF reader (below); a function is
kept only if its section has no relocation (exception: MIPS `R_MIPS_26` against its own section, which
is resolved here for the chosen load address).  Everything else is dropped and counted by reason.

Nothing here imports miasm.
"""
import ctypes
import os
import random
import struct
import subprocess

ARR_WORDS = 8

# arch name (miasm Machine name) -> compilation parameters
TARGETS = {
    "x86_32":   dict(triple="i386-unknown-linux-gnu", flags=["-mno-sse", "-mno-mmx"], wbits=32, ptr=32, be=False),
    "x86_64":   dict(triple="x86_64-unknown-linux-gnu", flags=[], wbits=32, ptr=64, be=False),
    "arml":     dict(triple="armv7a-unknown-linux-gnueabi", flags=["-marm", "-mcpu=cortex-a15"], wbits=32, ptr=32, be=False),
    "armtl":    dict(triple="thumbv7a-unknown-linux-gnueabi", flags=["-mthumb", "-mcpu=cortex-a15"], wbits=32, ptr=32, be=False),
    "aarch64l": dict(triple="aarch64-unknown-linux-gnu", flags=[], wbits=32, ptr=64, be=False),
    "mips32l":  dict(triple="mipsel-unknown-linux-gnu", flags=["-mno-abicalls", "-mips32r2"], wbits=32, ptr=32,
                     be=False),
    "mips32b":  dict(triple="mips-unknown-linux-gnu", flags=["-mno-abicalls", "-mips32r2"], wbits=32, ptr=32,
                     be=True),
    "ppc32b":   dict(triple="powerpc-unknown-linux-gnu", flags=[], wbits=32, ptr=32, be=True),
    "msp430":   dict(triple="msp430-unknown-elf", flags=[], wbits=16, ptr=16, be=False),
}

COMMON_FLAGS = ["-ffreestanding", "-fno-builtin", "-fno-pic", "-fno-jump-tables", "-ffunction-sections",
                "-fno-asynchronous-unwind-tables", "-fno-vectorize", "-fno-slp-vectorize", "-fno-stack-protector",
                "-fno-unroll-loops", "-w"]

PRELUDE = """#include <stdint.h>
typedef uint%(wb)d_t W;
typedef int%(wb)d_t SW;
#define WB %(wb)d
"""

# ---------------------------------------------------------------------------------------------
# fixed, hand-written functions (identical at every seed).  {f} is replaced by the function name.

FIXED_FUNCS = [
    # straight-line arithmetic and one store
    ("arith_store", "W {f}(W a, W b, W c, W *arr) { W r = (W)(a + b); r = (W)(r ^ (W)(c << 3)); arr[1] = r; "
                    "r = (W)(r - (W)(b >> 2)); arr[2] = (W)(r | a); return (W)(r + arr[1]); }", set()),
    # load-modify-store on every element
    ("arr_loop", "W {f}(W a, W b, W c, W *arr) { W r = a; for (W i = 0; i < 8; i++) { arr[i] = (W)(arr[i] + r); "
                 "r = (W)(r ^ arr[i]); r = (W)(r + b); } return (W)(r + c); }", set()),
    # bounded loop whose trip count depends on an argument, conditional in the body
    ("loop_cond", "W {f}(W a, W b, W c, W *arr) { W r = b; W n = (W)((a & 7) + 1); for (W i = 0; i < n; i++) { "
                  "if ((r & 1) != 0) { r = (W)(r + c); arr[i & 7] = r; } else { r = (W)(r >> 1); } } return r; }",
     set()),
    # switch with four arms, each storing
    ("switch4", "W {f}(W a, W b, W c, W *arr) { W r = c; switch (a & 3) { case 0: r = (W)(r + b); arr[0] = r; break; "
                "case 1: r = (W)(r ^ b); arr[1] = r; break; case 2: r = (W)(r - b); arr[2] = r; break; "
                "default: r = (W)(r & b); arr[3] = r; break; } return (W)(r + arr[a & 3]); }", set()),
    # signed comparisons and arithmetic shift
    ("signed_ops", "W {f}(W a, W b, W c, W *arr) { W r = 0; if ((SW)a < (SW)b) r = (W)(r + 1); "
                   "if ((SW)b <= (SW)c) r = (W)(r + 2); if (a < c) r = (W)(r + 4); "
                   "r = (W)(r + (W)((SW)a >> (b & 7))); arr[r & 7] = (W)((SW)c >> 1); return r; }", set()),
    # byte and half-word views of the array
    ("subword", "W {f}(W a, W b, W c, W *arr) { uint8_t *p = (uint8_t *)arr; uint16_t *h = (uint16_t *)arr; "
                "p[a & 7] = (uint8_t)b; h[(c & 3) + 4] = (uint16_t)(b >> 3); W r = (W)(p[(a + 1) & 7]); "
                "r = (W)(r + h[b & 7]); r = (W)(r + (W)(SW)(int8_t)p[c & 15]); return r; }", set()),
    # variable shifts both ways and rotate idiom
    ("shifts", "W {f}(W a, W b, W c, W *arr) { W k = (W)(c & (WB - 1)); W r = (W)(a << k); r = (W)(r ^ (W)(b >> k)); "
               "r = (W)(r + (W)((W)(a << ((k + 1) & (WB - 1))) | (W)(a >> ((WB - 1 - k) & (WB - 1))))); "
               "arr[k & 7] = r; return r; }", {"varshift"}),
    # multiplication, high half, guarded division and remainder
    ("muldiv", "W {f}(W a, W b, W c, W *arr) { W r = (W)(a * b); W d = (W)((c & 0xff) | 1); "
               "arr[0] = (W)(r / d); arr[1] = (W)(r % d); r = (W)(r + (W)(((uint64_t)a * (uint64_t)c) >> 32)); "
               "return (W)(r + arr[0] + arr[1]); }", {"mul", "div", "mulhi"}),
    # nested loops
    ("nested", "W {f}(W a, W b, W c, W *arr) { W r = a; for (W i = 0; i < (W)((b & 3) + 1); i++) { "
               "for (W j = 0; j < (W)((c & 3) + 1); j++) { r = (W)(r + arr[(i + j) & 7]); arr[(i ^ j) & 7] = r; } "
               "r = (W)(r ^ b); } return r; }", set()),
    # conditional select chain (cmov / csel / movn candidates)
    ("selects", "W {f}(W a, W b, W c, W *arr) { W r = (a > b) ? a : b; r = (r > c) ? r : c; W m = (a < b) ? a : b; "
                "m = ((SW)m < (SW)c) ? m : c; arr[0] = r; arr[7] = m; return (W)(r - m); }", set()),
    # store first, then load through a different index (memory dependency through the array)
    ("mem_dep", "W {f}(W a, W b, W c, W *arr) { arr[a & 7] = b; arr[(a + 1) & 7] = c; W r = arr[b & 7]; "
                "arr[r & 7] = (W)(r + 1); return (W)(r + arr[c & 7]); }", set()),
    # only reads the array (useful with a read-only data page)
    ("read_only", "W {f}(W a, W b, W c, W *arr) { W r = 0; for (W i = 0; i < 8; i++) { r = (W)(r + arr[i]); "
                  "r = (W)(r ^ (W)(r << 1)); } return (W)(r + a + b + c); }", set()),
    # does not touch memory through arr at all
    ("no_mem", "W {f}(W a, W b, W c, W *arr) { W r = a; for (W i = 0; i < (W)((c & 7) + 2); i++) { "
               "r = (W)(r + b); r = (W)(r ^ (W)(r >> 3)); if (r & 4) r = (W)(r - c); } return r; }", set()),
]


class Gen(object):
    """Random function body generator.  rng: random.Random.  feats: allowed optional features among
    {"mul","div","mulhi","varshift"}."""

    def __init__(self, rng, feats):
        self.rng = rng
        self.feats = set(feats)
        self.loopvars = []
        self.nloop = 0

    CONSTS = [0, 1, 2, 3, 5, 7, 8, 15, 16, 31, 32, 0x55, 0x7f, 0x80, 0xff, 0x100, 0x7fff, 0x8000, 0xffff]
    CONSTS32 = [0x10000, 0x12345678, 0x7fffffff, 0x80000000, 0xfffffffe, 0xffffffff, 0xdeadbeef]

    def const(self):
        r = self.rng
        k = r.random()
        if k < 0.6:
            v = r.choice(self.CONSTS)
        elif k < 0.85:
            v = r.choice(self.CONSTS + self.CONSTS32)
        else:
            v = r.getrandbits(32)
        return "(W)0x%xu" % v

    def leaf(self):
        r = self.rng
        k = r.random()
        if k < 0.55:
            return r.choice(["a", "b", "c", "r", "t"] + self.loopvars)
        if k < 0.75:
            return self.const()
        return self.load()

    def idx(self, mask):
        return "((%s) & %d)" % (self.expr(1), mask)

    def load(self):
        r = self.rng
        k = r.random()
        if k < 0.7:
            return "arr[%s]" % self.idx(ARR_WORDS - 1)
        if k < 0.8:
            return "(W)((uint8_t *)arr)[%s]" % self.idx(15)
        if k < 0.9:
            return "(W)((uint16_t *)arr)[%s]" % self.idx(7)
        if k < 0.95:
            return "(W)(SW)((int8_t *)arr)[%s]" % self.idx(15)
        return "(W)(SW)((int16_t *)arr)[%s]" % self.idx(7)

    def expr(self, depth):
        r = self.rng
        if depth <= 0 or r.random() < 0.25:
            return self.leaf()
        ops = ["+", "-", "^", "&", "|", "shlc", "shrc", "sarc", "cmp", "scmp", "neg", "not", "ext", "sel"]
        if "mul" in self.feats:
            ops += ["*", "*"]
        if "div" in self.feats:
            ops += ["/", "%"]
        if "mulhi" in self.feats:
            ops += ["mulhi"]
        if "varshift" in self.feats:
            ops += ["shl", "shr", "sar", "rot"]
        op = r.choice(ops)
        x = self.expr(depth - 1)
        if op in ("+", "-", "^", "&", "|", "*"):
            return "(W)(%s %s %s)" % (x, op, self.expr(depth - 1))
        if op in ("/", "%"):
            return "(W)(%s %s (W)((%s & 0xff) | 1))" % (x, op, self.expr(depth - 1))
        if op == "mulhi":
            return "(W)(((uint64_t)%s * (uint64_t)%s) >> 32)" % (x, self.expr(depth - 1))
        if op == "shlc":
            return "(W)(%s << %d)" % (x, r.choice([1, 2, 3, 4, 7, 8, 15]))
        if op == "shrc":
            return "(W)(%s >> %d)" % (x, r.choice([1, 2, 3, 4, 7, 8, 15]))
        if op == "sarc":
            return "(W)((SW)%s >> %d)" % (x, r.choice([1, 2, 3, 7, 8, 15]))
        if op == "shl":
            return "(W)(%s << (%s & (WB - 1)))" % (x, self.expr(depth - 1))
        if op == "shr":
            return "(W)(%s >> (%s & (WB - 1)))" % (x, self.expr(depth - 1))
        if op == "sar":
            return "(W)((SW)%s >> (%s & (WB - 1)))" % (x, self.expr(depth - 1))
        if op == "rot":
            k = r.choice([1, 3, 5, 8, 13])
            return "(W)((W)(%s << %d) | (W)(%s >> (WB - %d)))" % (x, k, x, k)
        if op == "cmp":
            return "(W)(%s %s %s)" % (x, r.choice(["<", "<=", "==", "!=", ">", ">="]), self.expr(depth - 1))
        if op == "scmp":
            return "(W)((SW)%s %s (SW)%s)" % (x, r.choice(["<", "<=", ">", ">="]), self.expr(depth - 1))
        if op == "neg":
            return "(W)(0 - %s)" % x
        if op == "not":
            return "(W)(~%s)" % x
        if op == "ext":
            return r.choice(["(W)(uint8_t)%s", "(W)(SW)(int8_t)%s", "(W)(uint16_t)%s", "(W)(SW)(int16_t)%s"]) % x
        if op == "sel":
            return "((%s) ? %s : %s)" % (self.cond(depth - 1), x, self.expr(depth - 1))
        raise AssertionError(op)

    def cond(self, depth):
        r = self.rng
        x = self.expr(depth)
        y = self.expr(depth)
        k = r.random()
        if k < 0.5:
            return "%s %s %s" % (x, r.choice(["<", "<=", "==", "!=", ">", ">="]), y)
        if k < 0.8:
            return "(SW)%s %s (SW)%s" % (x, r.choice(["<", "<=", ">", ">="]), y)
        return "(%s & %s) != 0" % (x, self.const())

    def store(self):
        r = self.rng
        k = r.random()
        e = self.expr(2)
        if k < 0.7:
            return "arr[%s] = %s;" % (self.idx(ARR_WORDS - 1), e)
        if k < 0.85:
            return "((uint8_t *)arr)[%s] = (uint8_t)%s;" % (self.idx(15), e)
        return "((uint16_t *)arr)[%s] = (uint16_t)%s;" % (self.idx(7), e)

    def stmt(self, depth):
        r = self.rng
        k = r.random()
        if depth <= 0 or k < 0.35:
            return "%s = %s;" % (r.choice(["r", "t", "r"]), self.expr(2))
        if k < 0.55:
            return self.store()
        if k < 0.70:
            body = self.block(depth - 1, r.randint(1, 2))
            if r.random() < 0.5:
                return "if (%s) { %s }" % (self.cond(1), body)
            return "if (%s) { %s } else { %s }" % (self.cond(1), body, self.block(depth - 1, r.randint(1, 2)))
        if k < 0.88 and self.nloop < 3:
            self.nloop += 1
            v = "i%d" % self.nloop
            bound = "(W)((%s & 7) + 1)" % self.expr(1)
            self.loopvars.append(v)
            body = self.block(depth - 1, r.randint(1, 3))
            self.loopvars.pop()
            return "{ W n_%s = %s; for (W %s = 0; %s < n_%s; %s++) { %s } }" % (v, bound, v, v, v, v, body)
        n = r.randint(2, 4)
        arms = []
        for i in range(n - 1):
            arms.append("case %d: %s break;" % (i, self.block(depth - 1, r.randint(1, 2))))
        arms.append("default: %s break;" % self.block(depth - 1, 1))
        return "switch (%s & 3) { %s }" % (self.expr(1), " ".join(arms))

    def block(self, depth, n):
        return " ".join(self.stmt(depth) for _ in range(n))

    def function(self):
        body = self.block(2, self.rng.randint(2, 5))
        # make sure the array is written at least once and the result depends on r and t
        return ("W {f}(W a, W b, W c, W *arr) { W r = a; W t = b; %s %s return (W)(r + t); }"
                % (body, self.store()))


def feats_for(arch):
    if arch == "msp430":
        return set()          # multiplication, division and variable shifts are library calls there
    return {"mul", "div", "mulhi", "varshift"}


def gen_functions(seed, n, arch):
    """-> list of (tag, template) deterministic in (seed, n, arch-feature-class)."""
    feats = feats_for(arch)
    out = []
    for i in range(n):
        rng = random.Random("%d/%d/%s" % (seed, i, "16" if arch == "msp430" else "32"))
        out.append(("gen%d_%d" % (seed, i), Gen(rng, feats).function()))
    return out


def fixed_functions(arch):
    feats = feats_for(arch)
    return [(name, tmpl) for name, tmpl, need in FIXED_FUNCS if need <= feats]


def render(funcs, wbits):
    """funcs: list of (tag, template) -> C text; function k is named f<k>."""
    parts = [PRELUDE % {"wb": wbits}]
    for k, (_tag, tmpl) in enumerate(funcs):
        parts.append(tmpl.replace("{f}", "f%d" % k))
    return "\n".join(parts) + "\n"


# ---------------------------------------------------------------------------------------------
# minimal ELF relocatable-object reader (independent of miasm's loader)

SHT_SYMTAB, SHT_RELA, SHT_REL = 2, 4, 9
R_MIPS_26 = 4
EM_MIPS = 8


class Obj(object):
    def __init__(self, data):
        self.data = data
        if data[:4] != b"\x7fELF":
            raise ValueError("not ELF")
        self.is64 = data[4] == 2
        self.en = "<" if data[5] == 1 else ">"
        en = self.en
        if self.is64:
            (self.machine,) = struct.unpack_from(en + "H", data, 18)
            shoff, = struct.unpack_from(en + "Q", data, 0x28)
            shentsize, shnum, shstrndx = struct.unpack_from(en + "HHH", data, 0x3A)
        else:
            (self.machine,) = struct.unpack_from(en + "H", data, 18)
            shoff, = struct.unpack_from(en + "I", data, 0x20)
            shentsize, shnum, shstrndx = struct.unpack_from(en + "HHH", data, 0x2E)
        self.sections = []
        for i in range(shnum):
            off = shoff + i * shentsize
            if self.is64:
                name, typ, flags, addr, offset, size, link, info, align, entsize = struct.unpack_from(
                    en + "IIQQQQIIQQ", data, off)
            else:
                name, typ, flags, addr, offset, size, link, info, align, entsize = struct.unpack_from(
                    en + "IIIIIIIIII", data, off)
            self.sections.append(dict(name_off=name, type=typ, flags=flags, offset=offset, size=size, link=link,
                                      info=info, entsize=entsize, index=i))
        strtab = self.sections[shstrndx]
        for s in self.sections:
            s["name"] = self._cstr(strtab["offset"] + s["name_off"])

    def _cstr(self, off):
        end = self.data.index(b"\0", off)
        return self.data[off:end].decode("latin1")

    def content(self, sec):
        if sec["type"] == 8:  # NOBITS
            return b"\0" * sec["size"]
        return self.data[sec["offset"]:sec["offset"] + sec["size"]]

    def symbols(self):
        out = []
        for s in self.sections:
            if s["type"] != SHT_SYMTAB:
                continue
            strsec = self.sections[s["link"]]
            n = s["size"] // s["entsize"]
            for i in range(n):
                off = s["offset"] + i * s["entsize"]
                if self.is64:
                    name, info, other, shndx, value, size = struct.unpack_from(self.en + "IBBHQQ", self.data, off)
                else:
                    name, value, size, info, other, shndx = struct.unpack_from(self.en + "IIIBBH", self.data, off)
                out.append(dict(name=self._cstr(strsec["offset"] + name), info=info, shndx=shndx, value=value,
                                size=size))
        return out

    def relocs_for(self, sec_index):
        """-> list of (offset, type, symbol index, addend or None)"""
        out = []
        for s in self.sections:
            if s["type"] not in (SHT_REL, SHT_RELA) or s["info"] != sec_index or s["size"] == 0:
                continue
            n = s["size"] // s["entsize"]
            for i in range(n):
                off = s["offset"] + i * s["entsize"]
                if self.is64:
                    if s["type"] == SHT_RELA:
                        r_off, r_info, r_add = struct.unpack_from(self.en + "QQq", self.data, off)
                    else:
                        r_off, r_info = struct.unpack_from(self.en + "QQ", self.data, off)
                        r_add = None
                    out.append((r_off, r_info & 0xffffffff, r_info >> 32, r_add))
                else:
                    if s["type"] == SHT_RELA:
                        r_off, r_info, r_add = struct.unpack_from(self.en + "IIi", self.data, off)
                    else:
                        r_off, r_info = struct.unpack_from(self.en + "II", self.data, off)
                        r_add = None
                    out.append((r_off, r_info & 0xff, r_info >> 8, r_add))
        return out


def extract(objdata, nfuncs, load_addr):
    """-> list (per function index) of (code bytes | None, reason)"""
    obj = Obj(objdata)
    syms = None
    out = []
    byname = {s["name"]: s for s in obj.sections}
    for k in range(nfuncs):
        sec = byname.get(".text.f%d" % k)
        if sec is None or sec["size"] == 0:
            out.append((None, "no-section"))
            continue
        code = bytearray(obj.content(sec))
        rels = obj.relocs_for(sec["index"])
        reason = None
        for r_off, r_type, r_sym, r_add in rels:
            if obj.machine == EM_MIPS and r_type == R_MIPS_26 and not obj.is64:
                if syms is None:
                    syms = obj.symbols()
                sym = syms[r_sym]
                if sym["shndx"] == sec["index"] and (sym["info"] & 0xf) == 3 and (load_addr & 0xf0000000) == (
                        (load_addr + len(code)) & 0xf0000000):
                    (insn,) = struct.unpack_from(obj.en + "I", code, r_off)
                    tgt = ((insn & 0x3ffffff) << 2) + sym["value"] + load_addr
                    insn = (insn & ~0x3ffffff) | ((tgt >> 2) & 0x3ffffff)
                    struct.pack_into(obj.en + "I", code, r_off, insn)
                    continue
            reason = "relocation"
            break
        if reason:
            out.append((None, reason))
        else:
            out.append((bytes(code), "ok"))
    return out


def compile_batch(funcs, arch, opt, workdir, load_addr, tag="b"):
    """Compile funcs (list of (tag, template)) for `arch` at optimisation `opt` ('-O0'...).
    -> list of dict(tag, code (bytes|None), reason).  A clang failure drops the whole batch."""
    t = TARGETS[arch]
    src = os.path.join(workdir, "%s_%s%s.c" % (tag, arch, opt))
    objp = src[:-2] + ".o"
    with open(src, "w") as f:
        f.write(render(funcs, t["wbits"]))
    cmd = ["clang", "--target=" + t["triple"], opt] + COMMON_FLAGS + t["flags"] + ["-c", src, "-o", objp]
    p = subprocess.run(cmd, stdout=subprocess.PIPE, stderr=subprocess.STDOUT)
    if p.returncode != 0:
        return [dict(tag=tg, code=None, reason="clang-error") for tg, _ in funcs], p.stdout.decode("utf8", "replace")
    with open(objp, "rb") as f:
        data = f.read()
    res = extract(data, len(funcs), load_addr)
    os.unlink(objp)
    return [dict(tag=funcs[k][0], code=res[k][0], reason=res[k][1]) for k in range(len(funcs))], ""


# ---------------------------------------------------------------------------------------------
# native expected values

class Native(object):
    """The same C text compiled with the host compiler (-O1) into a shared object and called through ctypes."""

    def __init__(self, funcs, wbits, workdir, tag="n"):
        self.wbits = wbits
        src = os.path.join(workdir, "%s_native%d.c" % (tag, wbits))
        so = src[:-2] + ".so"
        with open(src, "w") as f:
            f.write(render(funcs, wbits))
        p = subprocess.run(["gcc", "-O1", "-w", "-fwrapv", "-shared", "-fPIC", src, "-o", so],
                           stdout=subprocess.PIPE, stderr=subprocess.STDOUT)
        if p.returncode != 0:
            raise RuntimeError("host gcc failed: " + p.stdout.decode("utf8", "replace")[-2000:])
        self.lib = ctypes.CDLL(so)
        self.ctype = ctypes.c_uint32 if wbits == 32 else ctypes.c_uint16

    def call(self, k, a, b, c, arr):
        """arr: list of ARR_WORDS ints -> (result, new arr list)"""
        fn = getattr(self.lib, "f%d" % k)
        ct = self.ctype
        fn.restype = ct
        fn.argtypes = [ct, ct, ct, ctypes.POINTER(ct)]
        buf = (ct * ARR_WORDS)(*arr)
        r = fn(a, b, c, buf)
        return int(r), [int(x) for x in buf]


def pack_words(words, wbits, be):
    fmt = (">" if be else "<") + ("I" if wbits == 32 else "H") * len(words)
    return struct.pack(fmt, *words)


def unpack_words(data, wbits, be):
    n = len(data) // (wbits // 8)
    fmt = (">" if be else "<") + ("I" if wbits == 32 else "H") * n
    return list(struct.unpack(fmt, data))
