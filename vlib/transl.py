"""Shared pieces of the translator checks (C04 C, C05 z3, C06 SMT-LIB2, C07 Python / construction source).

* texpr(w, depth, cfg): Hypothesis strategy of expressions restricted to the operator set a translator
  accepts (cfg), so that most generated expressions are translated instead of rejected.
* miasm_eval(e, env): "miasm's own evaluation": identifiers replaced by ExprInt, memory reads with a constant
  pointer replaced (innermost first) by the value of a total hash memory, then expr_simp_explicit; None when
  the result is not an ExprInt.
* oracle(e, env): miasm_eval cross-checked with the reference evaluator S -> ("ok", v) | ("drop", reason).
* tuples(e, n): boundary / pseudo-random assignments (pure function of the expression text).
* blame(e, fails): innermost sub-expression on which a translation still fails -> operator kind for the bucket.
"""
import hashlib

from hypothesis import strategies as st

from vlib import exprgen, simplab
from vlib.refeval import S, Env, Undefined, Uninterpreted, mask
from vlib.timeout import call_with_limit, TimeLimit

NARY = ['+', '*', '^', '&', '|']
POW2 = (8, 16, 32, 64)


def _m():
    import miasm.expression.expression as m
    return m


# ---------------------------------------------------------------------------
# configurable generator

def cfg_allows(cfg, op, w):
    ok = cfg.get("okw")
    return True if ok is None else ok(op, w)


@st.composite
def tleaf(draw, w, cfg):
    k = draw(st.integers(0, 9))
    if k < 3:
        return draw(exprgen.ints(w))
    if k < 9 or not cfg_allows(cfg, "mem", w) or not cfg.get("mem", True):
        return draw(exprgen.ids(w))
    return draw(tmem(w, 0, cfg))


@st.composite
def tmem(draw, w, depth, cfg):
    m = _m()
    pw = draw(st.sampled_from(cfg.get("ptrw", exprgen.PTR_WIDTHS)))
    ptr = draw(texpr(pw, max(depth - 1, 0), dict(cfg, mem=depth > 1 and cfg.get("mem", True))))
    return m.ExprMem(ptr, w)


@st.composite
def texpr(draw, w, depth, cfg):
    """Expression of width w, depth <= depth, using only what cfg allows.
    cfg keys: nary, binw, un, cmp (operator lists), parity, ext, cond, mem (bools), maxw, ptrw,
    okw(op, width) -> bool (operand width accepted for op; op 'mem' = memory read of that size),
    cmpw(width) -> bool."""
    m = _m()
    if depth <= 0 or draw(st.integers(0, 7)) == 0:
        return draw(tleaf(w, cfg))
    maxw = cfg.get("maxw", 64)
    sub = lambda ww: texpr(ww, depth - 1, cfg)
    nary = [o for o in cfg.get("nary", NARY) if cfg_allows(cfg, o, w)]
    binw = [o for o in cfg.get("binw", []) if cfg_allows(cfg, o, w)]
    un = [o for o in cfg.get("un", []) if cfg_allows(cfg, o, w)]
    kinds = ['cond', 'slice']
    if nary:
        kinds += ['nary', 'nary']
    if binw:
        kinds += ['binw', 'binw', 'binw']
    if un:
        kinds += ['un']
    if w >= 2:
        kinds += ['compose', 'compose']
        if cfg.get("ext"):
            kinds += ['zext', 'sext']
    if w == 1:
        if cfg.get("cmp"):
            kinds += ['cmp', 'cmp', 'cmp']
        if cfg.get("parity"):
            kinds += ['parity']
    if cfg.get("mem", True) and cfg_allows(cfg, "mem", w):
        kinds += ['mem']
    kind = draw(st.sampled_from(kinds))
    if kind == 'nary':
        op = draw(st.sampled_from(nary))
        n = draw(st.sampled_from([2, 2, 2, 3]))
        return m.ExprOp(op, *[draw(sub(w)) for _ in range(n)])
    if kind == 'binw':
        op = draw(st.sampled_from(binw))
        return m.ExprOp(op, draw(sub(w)), draw(sub(w)))
    if kind == 'un':
        return m.ExprOp(draw(st.sampled_from(un)), draw(sub(w)))
    if kind == 'cond':
        cw = draw(st.one_of(st.just(1), st.just(w), exprgen.widths(1, min(64, maxw))))
        return m.ExprCond(draw(sub(cw)), draw(sub(w)), draw(sub(w)))
    if kind == 'slice':
        if w >= maxw:
            return draw(tleaf(w, cfg))
        w2 = draw(st.one_of(st.sampled_from([x for x in (2 * w, w + 1, w + 8, 8, 16, 32, 64, 128, 256)
                                             if w < x <= maxw] or [w + 1]),
                            st.integers(w + 1, maxw)))
        start = draw(st.sampled_from(sorted({0, w2 - w, (w2 - w) // 2, min(w, w2 - w)})))
        return m.ExprSlice(draw(sub(w2)), start, start + w)
    if kind == 'compose':
        nparts = draw(st.integers(2, min(4, w)))
        cuts = sorted(draw(st.lists(st.integers(1, w - 1), min_size=nparts - 1, max_size=nparts - 1, unique=True)))
        bounds = [0] + cuts + [w]
        return m.ExprCompose(*[draw(sub(bounds[i + 1] - bounds[i])) for i in range(len(bounds) - 1)])
    if kind in ('zext', 'sext'):
        w2 = draw(st.one_of(st.sampled_from([x for x in (1, w // 2, w - 1, 8, 16, 32, 64) if 1 <= x < w]),
                            st.integers(1, w - 1)))
        return m.ExprOp("%s_%d" % ("zeroExt" if kind == 'zext' else "signExt", w), draw(sub(w2)))
    if kind == 'cmp':
        ok = cfg.get("cmpw") or (lambda x: True)
        w2 = draw(exprgen.widths(1, maxw).filter(ok))
        return m.ExprOp(draw(st.sampled_from(cfg["cmp"])), draw(sub(w2)), draw(sub(w2)))
    if kind == 'parity':
        w2 = draw(st.sampled_from([x for x in (8, 8, 16, 32, 64, 9, 13, 128) if x <= maxw]))
        return m.ExprOp('parity', draw(sub(w2)))
    if kind == 'mem':
        return draw(tmem(w, depth, cfg))
    raise AssertionError(kind)


@st.composite
def sized_expr(draw, cfg, depth=3, wstrat=None):
    w = draw(wstrat if wstrat is not None else exprgen.widths(1, cfg.get("maxw", 64)))
    return draw(texpr(w, draw(st.integers(1, depth)), cfg))


# ---------------------------------------------------------------------------
# memory model shared by the oracle and the harness side of each translation

class FlatEnv(Env):
    """Total memory whose bytes depend on the address only (not on the pointer width), because the Python
    translation calls one `memory(addr, size)` for every pointer width.  Addresses wrap at the pointer width
    (FlatEnv) or at `wrap_bits` (subclasses; None = never, for abstractions that do not know the pointer width)."""
    wrap_bits = "ptr"

    def read_byte(self, pw, addr):
        if self.wrap_bits == "ptr":
            addr &= mask(pw)
        elif self.wrap_bits is not None:
            addr &= mask(self.wrap_bits)
        self.touched.append((pw, addr))
        if addr in self.mem:
            return self.mem[addr]
        return hashlib.blake2b(repr(("fmem", self.key, addr)).encode(), digest_size=1).digest()[0]


class FlatEnvNoWrap(FlatEnv):
    wrap_bits = None


class FlatEnv64(FlatEnv):
    wrap_bits = 64


def clone(env):
    e = env.__class__(ids=env.ids, mem=env.mem, big_endian=env.big_endian, key=env.key, locs=env.locs,
                      uninterp_hash=env.uninterp_hash)
    return e


def read_mem(env, pw, addr, size):
    nbytes = (size + 7) // 8
    bs = bytes(env.read_byte(pw, addr + i) for i in range(nbytes))
    return int.from_bytes(bs, "big" if env.big_endian else "little") & mask(size)


# ---------------------------------------------------------------------------
# miasm's own evaluation

_simp = {}


def explicit_simp():
    if "s" not in _simp:
        from miasm.expression.simplifications import expr_simp_explicit
        _simp["s"] = expr_simp_explicit
    return _simp["s"]


class Inconclusive(Exception):
    pass


def _simp_call(x):
    s = explicit_simp()
    try:
        return call_with_limit(20, s, x)
    except TimeLimit:
        s.cache.clear()
        raise Inconclusive("time-limit in expr_simp_explicit")


def miasm_eval(e, env):
    """-> int | None (not reduced to a constant).  Raises Inconclusive on a time limit."""
    m = _m()
    ids = {m.ExprId(n, s): m.ExprInt(env.read_id(n, s), s) for (n, s) in simplab.free_ids(e)}
    e1 = e.replace_expr(ids) if ids else e

    def res(x):
        kids = simplab.children(x)
        if not kids:
            return x
        nk = [res(k) for k in kids]
        if any(a is not b for a, b in zip(kids, nk)):
            x = simplab.rebuild(x, nk)
        if x.__class__.__name__ == 'ExprMem':
            p = _simp_call(x.ptr)
            if p.__class__.__name__ == 'ExprInt':
                return m.ExprInt(read_mem(env, x.ptr.size, int(p), x.size), x.size)
        return x
    r = _simp_call(res(e1))
    if r.__class__.__name__ == 'ExprInt' and r.size == e.size:
        return int(r)
    return None


def oracle(e, env, stats=None):
    """-> ("ok", value) | ("drop", reason).  value = miasm's own evaluation, kept only when the reference
    evaluator S agrees (a disagreement is a simplifier matter, decided by C01/C03: counted, not judged here)."""
    try:
        s = S(e, clone(env))
    except Undefined:
        return ("drop", "undefined (division by zero)")
    except Uninterpreted:
        return ("drop", "operator without evaluation rule")
    try:
        v = miasm_eval(e, clone(env))
    except Inconclusive:
        return ("drop", "inconclusive: time limit in miasm's evaluation")
    if v is None:
        return ("drop", "miasm's evaluation does not give a constant")
    if v != s:
        return ("drop", "miasm's evaluation disagrees with the reference evaluator (simplifier matter)")
    return ("ok", v)


# ---------------------------------------------------------------------------
# assignments

def _hbits(key, nbits):
    out = b""
    i = 0
    while len(out) * 8 < nbits:
        out += hashlib.blake2b(("%s/%d" % (key, i)).encode(), digest_size=32).digest()
        i += 1
    return int.from_bytes(out, "little") & ((1 << nbits) - 1)


def special_values(s):
    mk = (1 << s) - 1
    msb = 1 << (s - 1)
    return [0, 1, mk, msb, msb - 1, (msb + 1) & mk, 2 & mk, (s - 1) & mk, s & mk, (s + 1) & mk, (2 * s) & mk,
            (mk - 1) & mk, 0xff & mk, 0x80 & mk, 3 & mk, (1 << (s // 2)) & mk]


def tuples(e, n=12, salt="", env_cls=Env, big_endian=False):
    """n assignments of the identifiers of e: 5 uniform boundary ones, 2 alternating (msb, all-ones) ones
    (INT_MIN / -1), then per-identifier picks among boundary values, small values, single bits, equal values
    and full-width pseudo-random values."""
    ids = simplab.free_ids(e)
    base = hashlib.blake2b((repr(e) + salt).encode(), digest_size=8).hexdigest()
    out = []
    for mode in ("zero", "ones", "msb", "one", "smax"):
        d = {}
        for (nm, s) in ids:
            d[(nm, s)] = {"zero": 0, "ones": (1 << s) - 1, "msb": 1 << (s - 1), "one": 1,
                          "smax": (1 << (s - 1)) - 1}[mode]
        out.append(d)
    for par in (0, 1):
        d = {}
        for i, (nm, s) in enumerate(ids):
            d[(nm, s)] = (1 << (s - 1)) if (i + par) % 2 == 0 else (1 << s) - 1
        out.append(d)
    i = 0
    while len(out) < n:
        d = {}
        for (nm, s) in ids:
            r = _hbits("%s/%d/%s%d" % (base, i, nm, s), s + 8)
            style = r & 7
            sel = (r >> 3) & 31
            v = r >> 8
            if style <= 2:
                sp = special_values(s)
                v = sp[sel % len(sp)]
            elif style == 3:
                v &= 0xff
            elif style == 4:
                v = 1 << (v % s)
            elif style == 5:
                same = [k for k in d if k[1] == s]
                if same:
                    v = d[same[0]]
            d[(nm, s)] = v & ((1 << s) - 1)
        out.append(d)
        i += 1
    return [env_cls(ids=d, key=k, big_endian=big_endian) for k, d in enumerate(out[:n])]


def env_desc(env):
    return {"ids": {"%s:%d" % k: hex(v) for k, v in sorted(env.ids.items())}, "memkey": env.key,
            "big_endian": bool(env.big_endian)}


def env_to_case(env):
    return {"ids": [[n, s, hex(v)] for (n, s), v in sorted(env.ids.items())], "key": env.key,
            "big_endian": bool(env.big_endian)}


def env_from_case(c, env_cls=Env):
    return env_cls(ids={(n, s): int(v, 16) for n, s, v in c["ids"]}, key=c["key"], big_endian=c.get("big_endian", False))


# ---------------------------------------------------------------------------
# attribution

def blame(e, fails):
    """kind of the smallest sub-expression x of e with fails(x) True (fails(e) is assumed True)."""
    seen = set()
    for sub in sorted(simplab.subexprs(e), key=simplab.size_of):
        if sub in seen:
            continue
        seen.add(sub)
        try:
            if fails(sub):
                return simplab._kind(sub), sub
        except Exception:
            continue
    return simplab._kind(e), e


def op_kinds(e):
    return {simplab._kind(x) for x in simplab.subexprs(e)}


def count_ops(e):
    return sum(1 for x in simplab.subexprs(e) if simplab.children(x))


def wclass(w):
    """width class used in bucket keys"""
    if w in POW2:
        return "w%d" % w
    if w < 8:
        return "w<8"
    if w <= 64:
        return "w-odd<=64"
    if w in (128, 256):
        return "w%d" % w
    return "w-odd>64"


# ---------------------------------------------------------------------------
# generic differential harness: translation of e evaluated under env against oracle(e, env)

class _Lazy(object):
    def __init__(self, fn):
        self.fn = fn

    def __str__(self):
        return self.fn()


class Harness(object):
    """Subclass: name, env_cls, translate(e, env) -> ("ok", obj) | ("reject", msg) | ("exc", type name, msg),
    run(obj, e, env) -> ("value", int) | ("fail", kind, msg) | ("drop", reason)."""
    name = "?"
    env_cls = Env

    def in_domain(self, e):
        return None     # or a reason string

    def check(self, e, env, stats=None):
        """-> None | (kind, detail)"""
        o = oracle(e, env)
        if o[0] == "drop":
            if stats is not None:
                stats.dropped[o[1]] += 1
            return None
        t = self.translate(e, env)
        if t[0] == "reject":
            return None
        if t[0] == "exc":
            return ("translate-exception:" + t[1], "translating %s raised %s" % (e, t[2]))
        r = self.run(t[1], e, env)
        want = o[1]
        where = _Lazy(lambda: "expr=%s translation=%s under %s" % (e, self.show(t[1]), env_desc(env)))
        if r[0] == "drop":
            if stats is not None:
                stats.dropped[r[1]] += 1
            return None
        if r[0] == "fail":
            return (r[1], "%s : %s ; miasm's value is %#x" % (where, r[2], want))
        if stats is not None:
            stats.counters["assignments compared"] += 1
        if r[1] != want:
            return ("value", "%s : translation gives %#x, miasm's evaluation gives %#x" % (where, r[1], want))
        return None

    def show(self, obj):
        s = str(obj)
        return s if len(s) < 600 else s[:600] + "..."

    def bucket(self, e, env, r):
        op, sub = blame(e, lambda x: self.check(x, env) is not None)
        if sub is not e:
            r2 = self.check(sub, env)
            if r2 is not None:
                return ("%s:%s:%s" % (self.name, r2[0], self.opkey(sub, env)), r2[1] + "  [inside %s]" % e)
        return ("%s:%s:%s" % (self.name, r[0], self.opkey(e, env)), r[1])

    def opkey(self, sub, env):
        return simplab._kind(sub)

    def envs(self, e, n):
        return tuples(e, n, env_cls=self.env_cls)

    def judge(self, e, n, stats=None):
        """-> list of (bucket, detail, env)"""
        why = self.in_domain(e)
        if why:
            if stats is not None:
                stats.dropped[why] += 1
            return []
        out = {}
        for env in self.envs(e, n):
            t = self.translate(e, env)
            if t[0] == "reject":
                if stats is not None:
                    stats.dropped["%s: not accepted (NotImplementedError)" % self.name] += 1
                break
            r = self.check(e, env, stats)
            if r is None:
                continue
            b, d = self.bucket(e, env, r)
            if b not in out:
                out[b] = (b, d, env)
            if r[0].startswith("translate-exception"):
                break
        return list(out.values())

    def judge_case(self, e, env):
        if self.in_domain(e):
            return []
        r = self.check(e, env)
        return [self.bucket(e, env, r)] if r is not None else []
