"""Shared runner: tiers, seeds, sharding, known-findings protocol, replay files, evidence.

A check module (checks/cNN.py) exposes a module-level object CHECK, an instance of a
subclass of Check.  The check never decides the exit code itself: it returns
ShardResult objects holding Failure records; the runner matches them against
known_findings.json, shrinks what is new, writes replay files and the evidence file.

Exit codes: 0 property held on everything explored (possibly with KNOWN-FINDING lines),
1 at least one VIOLATION line, 2 harness error (never a verdict).
"""
from __future__ import annotations

import collections
import hashlib
import json
import multiprocessing
import os
import re
import sys
import time
import traceback

VERIF = os.path.dirname(os.path.dirname(os.path.abspath(__file__)))
REPO = os.environ.get("VERIF_REPO", "/repo")
NPROC = int(os.environ.get("VERIF_NPROC", "16"))


def setup_paths():
    """Make `import miasm` resolve to REPO (working tree), and .deps importable."""
    deps = os.path.join(VERIF, ".deps")
    for p in (deps, VERIF, REPO):
        if p in sys.path:
            sys.path.remove(p)
    sys.path.insert(0, deps)
    sys.path.insert(0, VERIF)
    sys.path.insert(0, REPO)


def derive_seed(seed, *parts):
    h = hashlib.blake2b(repr((seed,) + parts).encode(), digest_size=8).digest()
    return int.from_bytes(h, "big") & 0x7FFFFFFF


def stable_hash(obj):
    """64-bit stable hash of a JSON-like / repr-able object."""
    if not isinstance(obj, (bytes, bytearray)):
        obj = repr(obj).encode("utf-8", "backslashreplace")
    return int.from_bytes(hashlib.blake2b(obj, digest_size=8).digest(), "big")


class Failure(object):
    """One observed breach.  bucket: root-cause oriented key.  case: JSON-serialisable
    description sufficient for Check.replay()."""

    def __init__(self, bucket, detail, case):
        self.bucket = bucket
        self.detail = detail
        self.case = case

    def to_json(self):
        return {"bucket": self.bucket, "detail": self.detail, "case": self.case}


class ShardResult(object):
    def __init__(self):
        self.evaluations = 0
        self.nontrivial = set()       # 64-bit hashes of distinct non-trivial cases
        self.nontrivial_extra = 0     # distinct-by-construction count (disjoint enumeration)
        self.failures = []            # [Failure]
        self.samples = []
        self.counters = collections.Counter()   # strata / coverage histograms
        self.dropped = collections.Counter()    # cases dropped, by reason
        self.exhaustive = {}          # stratum -> bool
        self.notes = []
        self.max_samples = 8
        self.max_failures_per_bucket = 5
        self._perbucket = collections.Counter()

    def case(self, nontrivial_key=None, sample=None):
        self.evaluations += 1
        if nontrivial_key is not None:
            self.nontrivial.add(stable_hash(nontrivial_key))
        if sample is not None and len(self.samples) < self.max_samples:
            self.samples.append(sample)

    def fail(self, bucket, detail, case):
        self.counters["failures:" + bucket] += 1
        self._perbucket[bucket] += 1
        if self._perbucket[bucket] <= self.max_failures_per_bucket:
            self.failures.append(Failure(bucket, detail, case))


class Check(object):
    pid = None
    level = "exploration"
    rule = ""
    assumptions = []
    needs_build = False       # rebuild miasm C extensions first
    needs_z3 = False

    def nshards(self, tier):
        return NPROC

    def run_shard(self, tier, seed, shard, nshards):
        raise NotImplementedError

    def replay(self, case):
        """Re-judge one recorded case without any generator. -> Failure | None"""
        raise NotImplementedError

    def shrink(self, failure, tier):
        """Return a (possibly) smaller Failure with the same bucket. Default: unchanged."""
        return failure

    def extra_evidence(self, merged):
        return {}


# ----------------------------------------------------------------------------
# known findings


def load_findings():
    path = os.path.join(VERIF, "known_findings.json")
    if not os.path.exists(path):
        return []
    with open(path) as f:
        data = json.load(f)
    out = list(data.get("findings", []))
    d = os.path.join(VERIF, "known_findings.d")
    if os.path.isdir(d):
        for name in sorted(os.listdir(d)):
            if name.endswith(".json"):
                with open(os.path.join(d, name)) as f:
                    out.extend(json.load(f).get("findings", []))
    return out


def match_finding(findings, pid, failure):
    """A known entry matches on property id and a regular expression over the bucket key
    (fullmatch) and optionally over the detail text (search).  Entries whose status is
    'fixed' suppress nothing."""
    for ent in findings:
        if ent.get("status") != "known":
            continue
        if pid not in ent.get("properties", []):
            continue
        if not re.fullmatch(ent["bucket"], failure.bucket):
            continue
        det = ent.get("detail")
        if det and not re.search(det, failure.detail):
            continue
        return ent
    return None


# ----------------------------------------------------------------------------


def _worker(args):
    modname, tier, seed, shard, nshards = args
    try:
        setup_paths()
        import importlib
        mod = importlib.import_module(modname)
        res = mod.CHECK.run_shard(tier, seed, shard, nshards)
        return ("ok", res)
    except BaseException:
        return ("err", "shard %d: %s" % (shard, traceback.format_exc()))


def merge(results):
    m = ShardResult()
    for r in results:
        m.evaluations += r.evaluations
        m.nontrivial |= r.nontrivial
        m.nontrivial_extra += r.nontrivial_extra
        m.failures.extend(r.failures)
        for s in r.samples:
            if len(m.samples) < 12:
                m.samples.append(s)
        m.counters.update(r.counters)
        m.dropped.update(r.dropped)
        for k, v in r.exhaustive.items():
            m.exhaustive[k] = m.exhaustive.get(k, True) and v
        m.notes.extend(r.notes)
    return m


def jsonable(x):
    try:
        json.dumps(x)
        return x
    except (TypeError, ValueError):
        if isinstance(x, dict):
            return {str(k): jsonable(v) for k, v in x.items()}
        if isinstance(x, (list, tuple, set, frozenset)):
            return [jsonable(v) for v in x]
        if isinstance(x, (bytes, bytearray)):
            return {"hex": bytes(x).hex()}
        return repr(x)


def write_replay(pid, failure):
    d = os.path.join(VERIF, "replays")
    os.makedirs(d, exist_ok=True)
    body = {"property": pid, "bucket": failure.bucket, "detail": failure.detail,
            "case": jsonable(failure.case)}
    h = hashlib.blake2b(json.dumps(body, sort_keys=True).encode(), digest_size=6).hexdigest()
    path = os.path.join(d, "%s-%s.json" % (pid, h))
    with open(path, "w") as f:
        json.dump(body, f, indent=1, sort_keys=True)
    return path


def run_regress(check, findings, out):
    """Replay tier: every committed regress/<ID>/*.json is re-judged first."""
    d = os.path.join(VERIF, "regress", check.pid)
    n = 0
    fails = []
    if not os.path.isdir(d):
        return n, fails
    for name in sorted(os.listdir(d)):
        if not name.endswith(".json"):
            continue
        with open(os.path.join(d, name)) as f:
            body = json.load(f)
        n += 1
        fl = check.replay(body["case"])
        if fl is not None:
            fails.append(fl)
    return n, fails


def main_check(modname, pid, tier, seed, replay=None):
    t0 = time.time()
    setup_paths()
    import importlib
    mod = importlib.import_module(modname)
    check = mod.CHECK
    assert check.pid == pid

    if check.needs_build:
        from vlib import build
        build.ensure_built()

    findings = load_findings()

    if replay is not None:
        with open(replay) as f:
            body = json.load(f)
        fl = check.replay(body["case"])
        if fl is None:
            print("replay: property %s holds on this case" % pid)
            return 0
        ent = match_finding(findings, pid, fl)
        if ent is not None:
            print("KNOWN-FINDING: property=%s %s" % (pid, ent["what"]))
            return 0
        print("replay bucket=%s detail=%s" % (fl.bucket, fl.detail))
        print("VIOLATION property=%s replay=%s" % (pid, replay))
        return 1

    nreg, regfails = run_regress(check, findings, sys.stdout)

    n = check.nshards(tier)
    jobs = [(modname, tier, derive_seed(seed, pid, i), i, n) for i in range(n)]
    results = []
    errors = []
    if n == 1 or NPROC == 1:
        outs = [_worker(j) for j in jobs]
    else:
        ctx = multiprocessing.get_context("fork")
        with ctx.Pool(min(NPROC, n), maxtasksperchild=1) as pool:
            outs = pool.map(_worker, jobs, chunksize=1)
    for kind, val in outs:
        if kind == "ok":
            results.append(val)
        else:
            errors.append(val)
    if errors:
        for e in errors:
            sys.stderr.write("HARNESS-ERROR %s\n" % e)
        return 2
    m = merge(results)
    m.failures = regfails + m.failures

    # group by bucket
    buckets = collections.OrderedDict()
    for fl in m.failures:
        buckets.setdefault(fl.bucket, []).append(fl)

    violations = []
    known_hit = collections.OrderedDict()
    excluded = collections.Counter()
    for bucket, fls in buckets.items():
        unknown = []
        for fl in fls:
            ent = match_finding(findings, pid, fl)
            if ent is None:
                unknown.append(fl)
            else:
                known_hit[ent["id"]] = ent
                excluded[ent["id"]] += 1
        if unknown:
            violations.append(unknown[0])
    # count all absorbed cases (not only the stored ones)
    for ent_id in list(excluded):
        pass

    for ent in known_hit.values():
        print("KNOWN-FINDING: property=%s %s" % (pid, ent["what"]))

    replay_paths = []
    for fl in violations:
        try:
            small = check.shrink(fl, tier)
            if small is None or small.bucket != fl.bucket:
                small = fl
        except Exception:
            sys.stderr.write("shrink failed: %s\n" % traceback.format_exc())
            small = fl
        path = write_replay(pid, small)
        replay_paths.append(path)
        sys.stdout.write("  bucket=%s\n  detail=%s\n" % (small.bucket, small.detail[:2000]))
        print("VIOLATION property=%s replay=%s" % (pid, os.path.relpath(path, VERIF)))

    distinct = len(m.nontrivial) + m.nontrivial_extra
    cov = {
        "evaluations": m.evaluations,
        "distinct_nontrivial": distinct,
        "rule": check.rule,
        "samples": jsonable(m.samples),
        "strata": dict(sorted(m.counters.items())),
        "dropped": dict(sorted(m.dropped.items())),
        "excluded_by_known_finding": dict(excluded),
        "regress_replayed": nreg,
        "shards": n,
    }
    if m.exhaustive:
        cov["exhaustive_strata"] = m.exhaustive
        cov["exhaustive"] = all(m.exhaustive.values()) and bool(getattr(check, "all_exhaustive", False))
    if m.notes:
        cov["notes"] = m.notes[:50]
    cov.update(jsonable(check.extra_evidence(m)))
    ev = {
        "property_id": pid,
        "tier": tier,
        "seed": seed,
        "level": check.level,
        "coverage": cov,
        "assumptions": list(check.assumptions),
        "wall_s": round(time.time() - t0, 2),
        "violations": len(violations),
    }
    os.makedirs(os.path.join(VERIF, "evidence"), exist_ok=True)
    tmp = os.path.join(VERIF, "evidence", pid + ".json.tmp")
    with open(tmp, "w") as f:
        json.dump(ev, f, indent=1, sort_keys=True)
        f.write("\n")
    os.replace(tmp, os.path.join(VERIF, "evidence", pid + ".json"))
    print("%s tier=%s seed=%d evaluations=%d distinct_nontrivial=%d known=%d violations=%d wall=%.1fs"
          % (pid, tier, seed, m.evaluations, distinct, len(known_hit), len(violations), time.time() - t0))
    if distinct < 2 or m.evaluations < 1:
        sys.stderr.write("HARNESS-ERROR: vacuous run (evaluations=%d distinct_nontrivial=%d)\n"
                         % (m.evaluations, distinct))
        return 2
    return 1 if violations else 0
