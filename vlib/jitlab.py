"""jitlab — jitter scenario runner.

A *scenario* is a JSON-able dict describing one complete use of a miasm jitter:

    {"arch": "x86_32",                      # miasm Machine name
     "pages": [[addr, access, hexdata, name], ...],      # vm.add_memory_page, in order
     "regs": {"EAX": 1, ...},               # setattr(jitter.cpu, name, value)
     "options": {"jit_maxline": 50, "max_exec_per_call": 0},     # jitter.jit.set_options
     "block_max": None | int,               # JitCore.jitted_block_max_size used for this jitter
     "log_mn": False,                       # jitter.jit.log_mn: executed-instruction trace, captured at fd level
     "exec_cb": False | True | "regs" | "retranslate",   # exec_cb hook: record jitter.pc (and get_gpreg()) at every
                                            # runiter_once / or call jit.clear_jitted_blocks() there (no event)
     "step_limit": None | int,              # exec_cb stops a run ("step-limit") after that many runiter_once rounds
                                            # (counted from the last init_run)
     "purge_disk_cache": False,             # empty $TMPDIR/miasm_cache first (gcc backend)
     "script": [op, ...]}

Script ops (lists), executed in order inside the worker:
    ["bp", id, addr, spec]        jitter.add_breakpoint(addr, callback `id`)
    ["set_bp", id, addr, spec]    jitter.set_breakpoint(addr, callback `id`)
    ["rm_cb", id]                 jitter.remove_breakpoints_by_callback(callback id)
    ["rm_addr", addr]             jitter.remove_breakpoints_by_address(addr)
    ["init_run", addr]            jitter.init_run(addr)
    ["cont"]                      jitter.continue_run()                -> event "cont"
    ["run", addr]                 init_run + cont
    ["set_mem", addr, hex]        jitter.vm.set_mem
    ["set_reg", name, value]
    ["add_page", addr, access, hex, name] / ["rm_page", addr] / ["set_access", addr, access]
    ["clear_exc"]                 vm.set_exception(0); cpu.set_exception(0)
    ["set_options", {...}]        jitter.jit.set_options(**...)
    ["clear_cache"]               jitter.jit.clear_jitted_blocks()
    ["reset"]                     registers and non-code page contents back to the scenario's initial values
                                  (["reset", "all"]: code pages too)
    ["set_u", bits, addr, value]  jitter.vm.set_u8/16/32/64
    ["snap", label]               -> event "snap" with the full observable state
    ["disasm", addr]              -> event ["disasm", addr, text] (naming a culprit instruction in a bucket key)
    ["insn_info", [addrs]]        -> event ["insn_info", {addr: [length, delayslot, breakflow, text] | None}] (used by
                                  harnesses only to *restrict* candidate addresses, never as an oracle)
Breakpoint callback spec (dict): "ret": "true" (default) | "false" | "none" | any int/str returned as is;
    "stop": true -> jitter.running = False (the sentinel idiom of miasm's own tests);
    "ret_at": {"<k>": value}  value returned on the k-th hit (1-based) instead of "ret";
    "after": [[k, op, ...], ...]  script ops performed inside the callback on its k-th hit (k = 0: every hit)
    "log_regs": [names]  register values appended to the hit event.
Every hit -> event ["bp", id, jitter.pc, hit number, {reg: value}].

Observation (returned by JitLab.run): {"events": [...], "final": snapshot} or {"died": ..} / {"timeout": true} /
{"setup_error": ..}.  Event "cont": ["cont", kind, value, pc, running, trace] with kind "ret" (continue_run returned
value), "jitexc" (JitterException, value = flags), "pyexc" (any other exception, value = [type name, innermost miasm
frame]).  trace = executed instruction addresses parsed from log_mn output written during this call (None unless
log_mn).  Snapshot: {"regs": cpu.get_gpreg(), "mem": {addr: [access, hex]}, "cpu_exc", "vm_exc", "pc"}.

Process model: JitLab (harness side) owns one worker *process* (this module run with --worker) with a private fresh
TMPDIR under /var/tmp/miasm-verif.<pid>.<n> that is removed by close().  A fresh Jitter and a fresh LocationDB are
built for every scenario; the worker is replaced after it dies (a crash is an observation, not a harness error),
after a time limit, or after `recycle` scenarios.  fd 1 of the worker is a file so that both Python `print` and C
`printf` log_mn lines are captured; protocol messages use dedicated pipes.
"""
import json
import os
import re
import select
import shutil
import subprocess
import sys
import time

PY = "/venv/bin/python"
VERIF = os.path.dirname(os.path.dirname(os.path.abspath(__file__)))

_counter = [0]


class JitLab(object):
    def __init__(self, time_limit=120, recycle=400, repo=None):
        self.time_limit = time_limit
        self.recycle = recycle
        self.repo = repo or os.environ.get("VERIF_REPO", "/repo")
        _counter[0] += 1
        self.root = "/var/tmp/miasm-verif.%d.%d" % (os.getpid(), _counter[0])
        if os.path.exists(self.root):
            shutil.rmtree(self.root, ignore_errors=True)
        os.makedirs(self.root)
        self.proc = None
        self.nrun = 0
        self.wcount = 0
        self.stats = {"workers": 0, "died": 0, "timeout": 0, "runs": 0}

    # -- context manager --------------------------------------------------------------------
    def __enter__(self):
        return self

    def __exit__(self, *a):
        self.close()

    def workdir(self, name="work"):
        d = os.path.join(self.root, name)
        os.makedirs(d, exist_ok=True)
        return d

    def _spawn(self):
        self.wcount += 1
        tmpdir = os.path.join(self.root, "tmp%d" % self.wcount)
        os.makedirs(tmpdir)
        self.tmpdir = tmpdir
        r_resp, w_resp = os.pipe()
        env = dict(os.environ)
        env["TMPDIR"] = tmpdir
        env["VERIF_REPO"] = self.repo
        env["PYTHONHASHSEED"] = "0"
        env["PYTHONDONTWRITEBYTECODE"] = "1"
        env["JITLAB_RESP_FD"] = str(w_resp)
        env.pop("PYTHONPATH", None)
        self.proc = subprocess.Popen([PY, os.path.abspath(__file__), "--worker"], stdin=subprocess.PIPE,
                                     pass_fds=(w_resp,), env=env, cwd=tmpdir, close_fds=True)
        os.close(w_resp)
        self.resp = os.fdopen(r_resp, "rb", buffering=0)
        self.buf = b""
        self.nrun = 0
        self.stats["workers"] += 1

    def _kill(self):
        if self.proc is None:
            return
        try:
            self.proc.stdin.close()
        except Exception:
            pass
        try:
            self.proc.kill()
        except Exception:
            pass
        try:
            self.proc.wait(timeout=10)
        except Exception:
            pass
        try:
            self.resp.close()
        except Exception:
            pass
        self.proc = None
        shutil.rmtree(self.tmpdir, ignore_errors=True)

    def close(self):
        self._kill()
        shutil.rmtree(self.root, ignore_errors=True)

    def _readline(self, deadline):
        while b"\n" not in self.buf:
            left = deadline - time.time()
            if left <= 0:
                return "timeout"
            r, _, _ = select.select([self.resp], [], [], min(left, 5))
            if not r:
                continue
            chunk = os.read(self.resp.fileno(), 1 << 20)
            if not chunk:
                return "eof"
            self.buf += chunk
        line, self.buf = self.buf.split(b"\n", 1)
        return line

    def run(self, scenario, backend):
        """-> observation dict"""
        if self.proc is not None and self.nrun >= self.recycle:
            self._kill()
        if self.proc is None or self.proc.poll() is not None:
            if self.proc is not None:
                self._kill()
            self._spawn()
        self.nrun += 1
        self.stats["runs"] += 1
        msg = json.dumps({"scenario": scenario, "backend": backend}).encode() + b"\n"
        try:
            self.proc.stdin.write(msg)
            self.proc.stdin.flush()
        except (BrokenPipeError, OSError):
            rc = self.proc.wait()
            self._kill()
            self.stats["died"] += 1
            return {"died": rc}
        line = self._readline(time.time() + self.time_limit)
        if line == "timeout":
            self._kill()
            self.stats["timeout"] += 1
            return {"timeout": True}
        if line == "eof":
            try:
                rc = self.proc.wait(timeout=10)
            except Exception:
                rc = None
            self._kill()
            self.stats["died"] += 1
            return {"died": rc}
        return json.loads(line.decode())


def shard_enabled(shard):
    """Development aid: VERIF_ONLY_SHARDS=0,3 makes the jitter checks run only these shards (the others return an
    empty result, counted under dropped).  Unset in registered runs."""
    sel = os.environ.get("VERIF_ONLY_SHARDS")
    if not sel:
        return True
    return str(shard) in sel.split(",")


_shared = [None, None]


def shared_lab(time_limit=600):
    """One JitLab per process for replay / shrink calls (the runner replays regress files one by one in the main
    process); closed at interpreter exit."""
    import atexit
    if _shared[0] is None or _shared[1] != os.getpid():
        lab = JitLab(time_limit=time_limit)
        _shared[0], _shared[1] = lab, os.getpid()
        atexit.register(_close_shared, os.getpid())
    return _shared[0]


def _close_shared(pid):
    if _shared[0] is not None and _shared[1] == pid == os.getpid():
        _shared[0].close()
        _shared[0] = None


class _SharedCtx(object):
    """`with jitlab.shared():` yields the per-process shared lab and does not close it."""

    def __enter__(self):
        return shared_lab()

    def __exit__(self, *a):
        return False


def shared():
    return _SharedCtx()


# =================================================================================================
# calling conventions: build the register / stack part of a scenario that calls f(a, b, c, arr)

SENTINEL = {16: 0xFF00, 32: 0x1337BEEC, 64: 0x1337BEEC}

CONV = {
    # arch: (pointer bits, sp register, kind)
    "x86_16": dict(ptr=16, sp="SP"),
    "x86_32": dict(ptr=32, sp="ESP"),
    "x86_64": dict(ptr=64, sp="RSP"),
    "arml": dict(ptr=32, sp="SP"),
    "armb": dict(ptr=32, sp="SP"),
    "armtl": dict(ptr=32, sp="SP"),
    "aarch64l": dict(ptr=64, sp="SP"),
    "aarch64b": dict(ptr=64, sp="SP"),
    "mips32l": dict(ptr=32, sp="SP"),
    "mips32b": dict(ptr=32, sp="SP"),
    "ppc32b": dict(ptr=32, sp="R1"),
    "msp430": dict(ptr=16, sp="SP"),
    "mepl": dict(ptr=32, sp="SP"),
    "mepb": dict(ptr=32, sp="SP"),
}

BIG_ENDIAN = {"armb", "aarch64b", "mips32b", "ppc32b", "mepb"}

PAGE_READ, PAGE_WRITE = 1, 2


def layout(arch):
    """Default addresses: code, stack page, data area, sentinel."""
    if CONV[arch]["ptr"] == 16:
        return dict(code=0x4000, stack=0x2000, stack_size=0x800, data=0x3000, sentinel=SENTINEL[16])
    return dict(code=0x400000, stack=0x120000, stack_size=0x1000, data=0x200000, sentinel=SENTINEL[32])


def pack(value, nbytes, be):
    return int(value).to_bytes(nbytes, "big" if be else "little")


def call_setup(arch, code_addr, args, sentinel, stack_base, stack_size):
    """-> (regs dict, stack page bytes) implementing `call code_addr(args...)` returning to `sentinel`."""
    be = arch in BIG_ENDIAN
    stack = bytearray(stack_size)
    top = stack_base + stack_size - 0x40      # leave head-room above SP

    def poke(addr, value, n):
        stack[addr - stack_base:addr - stack_base + n] = pack(value, n, be)
    regs = {}
    if arch == "x86_32":
        sp = top - 4 * (len(args) + 1)
        poke(sp, sentinel, 4)
        for i, a in enumerate(args):
            poke(sp + 4 + 4 * i, a, 4)
        regs["ESP"] = sp
    elif arch == "x86_64":
        sp = top - 8
        poke(sp, sentinel, 8)
        for r, a in zip(("RDI", "RSI", "RDX", "RCX", "R8", "R9"), args):
            regs[r] = a
        regs["RSP"] = sp
    elif arch == "x86_16":
        sp = top - 2
        poke(sp, sentinel, 2)
        for r, a in zip(("AX", "CX", "DX", "BX"), args):
            regs[r] = a
        regs["SP"] = sp
    elif arch in ("arml", "armb", "armtl"):
        for i, a in enumerate(args):
            regs["R%d" % i] = a
        regs["LR"] = sentinel
        regs["SP"] = top
    elif arch in ("aarch64l", "aarch64b"):
        for i, a in enumerate(args):
            regs["X%d" % i] = a
        regs["LR"] = sentinel
        regs["SP"] = top
    elif arch in ("mips32l", "mips32b"):
        for i, a in enumerate(args):
            regs["A%d" % i] = a
        regs["RA"] = sentinel
        regs["T9"] = code_addr
        regs["SP"] = top - 0x20
    elif arch == "ppc32b":
        for i, a in enumerate(args):
            regs["R%d" % (3 + i)] = a
        regs["LR"] = sentinel
        regs["R1"] = top - 0x20
    elif arch == "msp430":
        sp = top - 2
        poke(sp, sentinel, 2)
        for r, a in zip(("R12", "R13", "R14", "R15"), args):
            regs[r] = a
        regs["SP"] = sp
    elif arch in ("mepl", "mepb"):
        for i, a in enumerate(args):
            regs["R%d" % (1 + i)] = a
        regs["LP"] = sentinel
        regs["SP"] = top
    else:
        raise ValueError(arch)
    return regs, bytes(stack)


def call_scenario(arch, code, args, data_pages, code_addr=None, entry=None, **kw):
    """Scenario calling `code` (a function) with integer args; data_pages: list of [addr, access, bytes, name].
    The return address is the sentinel, which carries a stop breakpoint (id "S").  code_addr: where the bytes are
    mapped; entry: first executed address (default code_addr)."""
    lay = layout(arch)
    code_addr = lay["code"] if code_addr is None else code_addr
    entry = code_addr if entry is None else entry
    regs, stack = call_setup(arch, entry, args, lay["sentinel"], lay["stack"], lay["stack_size"])
    pages = [[code_addr, PAGE_READ | PAGE_WRITE, bytes(code).hex(), "code"],
             [lay["stack"], PAGE_READ | PAGE_WRITE, stack.hex(), "stack"]]
    for addr, access, data, name in data_pages:
        pages.append([addr, access, bytes(data).hex(), name])
    scn = {"arch": arch, "pages": pages, "regs": regs,
           "script": [["bp", "S", lay["sentinel"], {"ret": "false", "stop": True}], ["run", entry]]}
    scn.update(kw)
    return scn


RET_REG = {"x86_32": "RAX", "x86_64": "RAX", "x86_16": "RAX", "arml": "R0", "armb": "R0", "armtl": "R0",
           "aarch64l": "X0", "aarch64b": "X0", "mips32l": "V0", "mips32b": "V0", "ppc32b": "R3", "msp430": "R12",
           "mepl": "R0", "mepb": "R0"}


# =================================================================================================
# template programs: assembled with miasm's own assembler (harness side; a failure to assemble = dropped program)

class _quiet(object):
    """silence miasm's import-time SyntaxWarnings and its assembler / disassembler log chatter (harness side)"""

    def __enter__(self):
        import logging
        import warnings
        self.cw = warnings.catch_warnings()
        self.cw.__enter__()
        warnings.simplefilter("ignore")
        self.prev = logging.root.manager.disable
        logging.disable(logging.CRITICAL)

    def __exit__(self, *a):
        import logging
        logging.disable(self.prev)
        self.cw.__exit__(*a)
        return False


def assemble(arch, text, addr):
    """text with a `main:` label pinned at addr -> (bytes, {label: address}); the bytes start at labels["__base__"]
    (the assembler may place other blocks before main)"""
    with _quiet():
        return _assemble(arch, text, addr)


def _assemble(arch, text, addr):
    from miasm.analysis.machine import Machine
    from miasm.core import parse_asm, asmblock
    from miasm.core.locationdb import LocationDB
    m = Machine(arch)
    loc_db = LocationDB()
    asmcfg = parse_asm.parse_txt(m.mn, m.dis_engine.attrib, text, loc_db)
    loc_db.set_location_offset(loc_db.get_name_location("main"), addr)
    from miasm.core.interval import interval
    patches = asmblock.asm_resolve_final(m.mn, asmcfg, dst_interval=interval([(addr, addr + 0x400)]))
    lo = min(patches)
    hi = max(o + len(b) for o, b in patches.items())
    buf = bytearray(hi - lo)
    for o, b in patches.items():
        buf[o - lo:o - lo + len(b)] = b
    labels = {}
    for name in loc_db.names:
        off = loc_db.get_location_offset(loc_db.get_name_location(name))
        labels[name if isinstance(name, str) else name.decode()] = off
    labels["__base__"] = lo
    return bytes(buf), labels


def asm_mep(lines, addr, little=True):
    """MeP: miasm's block assembler does not support the architecture, so instructions are assembled one by one
    (big-endian form, the only one mn_mep.asm encodes under Python 3) and laid out here.  `@label` in an operand
    is replaced by the branch displacement.  Each encoding is checked to disassemble back to the same text.
    -> (bytes, {label: address}, [instruction addresses])"""
    with _quiet():
        return _asm_mep(lines, addr, little)


def _asm_mep(lines, addr, little):
    from miasm.arch.mep.arch import mn_mep
    from miasm.core.locationdb import LocationDB
    loc_db = LocationDB()
    items = []
    for ln in lines:
        ln = ln.strip()
        if not ln:
            continue
        if ln.endswith(":"):
            items.append(("label", ln[:-1]))
        else:
            items.append(("ins", ln))

    def enc(text):
        ins = mn_mep.fromstring(text, loc_db, "b")
        ins.mode = "b"
        want = str(ins)
        for cand in mn_mep.asm(ins):
            try:
                back = mn_mep.dis(cand, "b")
            except Exception:
                continue
            if str(back) == want and back.l == len(cand):
                return cand
        raise ValueError("cannot assemble %r faithfully" % text)
    sizes = {}
    for _round in range(6):
        labels = {}
        pos = addr
        n = 0
        for kind, v in items:
            if kind == "label":
                labels[v] = pos
            else:
                pos += sizes.get(n, 2)
                n += 1
        out = []
        pos = addr
        n = 0
        changed = False
        offs = []
        for kind, v in items:
            if kind == "label":
                continue
            text = v
            if "@" in text:
                name = text[text.index("@") + 1:].split()[0].rstrip(",)")
                disp = labels[name] - pos
                text = text.replace("@" + name, ("-0x%x" % -disp) if disp < 0 else ("0x%x" % disp))
            b = enc(text)
            if sizes.get(n, 2) != len(b):
                sizes[n] = len(b)
                changed = True
            offs.append(pos)
            out.append(b)
            pos += len(b)
            n += 1
        if not changed:
            code = b"".join(out)
            if little:
                sw = bytearray(code)
                for i in range(0, len(sw) - 1, 2):
                    sw[i], sw[i + 1] = code[i + 1], code[i]
                code = bytes(sw)
            return code, labels, offs
    raise ValueError("layout does not converge")


# =================================================================================================
# comparison helpers (harness side)

def diff_snap(a, b, ignore_regs=()):
    """-> list of human-readable differences between two snapshots (empty = equal)."""
    out = []
    ra, rb = a["regs"], b["regs"]
    for k in sorted(set(ra) | set(rb)):
        if k in ignore_regs:
            continue
        if ra.get(k) != rb.get(k):
            out.append("reg %s: %s vs %s" % (k, _hx(ra.get(k)), _hx(rb.get(k))))
    for k in ("cpu_exc", "vm_exc", "pc"):
        if a.get(k) != b.get(k):
            out.append("%s: %s vs %s" % (k, _hx(a.get(k)), _hx(b.get(k))))
    ma, mb = a["mem"], b["mem"]
    for k in sorted(set(ma) | set(mb), key=int):
        if k not in ma or k not in mb:
            out.append("page %s present in one run only" % _hx(int(k)))
            continue
        if ma[k][0] != mb[k][0]:
            out.append("page %s access %r vs %r" % (_hx(int(k)), ma[k][0], mb[k][0]))
        if ma[k][1] != mb[k][1]:
            da, db = bytes.fromhex(ma[k][1]), bytes.fromhex(mb[k][1])
            if len(da) != len(db):
                out.append("page %s size %d vs %d" % (_hx(int(k)), len(da), len(db)))
                continue
            offs = [i for i in range(len(da)) if da[i] != db[i]]
            lo, hi = offs[0], min(offs[-1] + 1, offs[0] + 16)
            out.append("mem %s+0x%x (%d bytes differ): %s vs %s" % (_hx(int(k)), lo, len(offs), da[lo:hi].hex(),
                                                                    db[lo:hi].hex()))
    return out


def _hx(v):
    return hex(v) if isinstance(v, int) else repr(v)


def mem_bytes(snap, addr, n):
    """bytes at [addr, addr+n) of a snapshot, or None if not fully mapped there."""
    out = bytearray()
    pages = sorted((int(k), v) for k, v in snap["mem"].items())
    cur = addr
    while len(out) < n:
        for base, (acc, hexdata) in pages:
            size = len(hexdata) // 2
            if base <= cur < base + size:
                take = min(n - len(out), base + size - cur)
                out += bytes.fromhex(hexdata)[cur - base:cur - base + take]
                cur += take
                break
        else:
            return None
    return bytes(out)


# =================================================================================================
# worker side

_LINE = re.compile(rb"^([0-9A-F]{8,16}) ", re.M)


def _worker_main():
    resp_fd = int(os.environ["JITLAB_RESP_FD"])
    resp = os.fdopen(resp_fd, "wb", buffering=0)
    repo = os.environ.get("VERIF_REPO", "/repo")
    for p in (VERIF, repo):
        while p in sys.path:
            sys.path.remove(p)
    sys.path.insert(0, os.path.join(VERIF, ".deps"))
    sys.path.insert(0, repo)
    tmpdir = os.environ["TMPDIR"]
    trace_path = os.path.join(tmpdir, "trace.out")
    err_path = os.path.join(tmpdir, "stderr.out")
    tfd = os.open(trace_path, os.O_RDWR | os.O_CREAT | os.O_TRUNC, 0o600)
    efd = os.open(err_path, os.O_RDWR | os.O_CREAT | os.O_TRUNC, 0o600)
    sys.stdout.flush()
    os.dup2(tfd, 1)
    os.dup2(efd, 2)
    import ctypes
    libc = ctypes.CDLL(None)
    try:
        libc.prctl(1, 9)        # PR_SET_PDEATHSIG, SIGKILL: never outlive the harness process
    except Exception:
        pass
    w = Worker(tfd, efd, libc)
    stdin = sys.stdin.buffer
    while True:
        line = stdin.readline()
        if not line:
            break
        req = json.loads(line.decode())
        try:
            obs = w.run(req["scenario"], req["backend"])
        except BaseException as e:   # harness-side defect or setup failure: reported, never silently dropped
            import traceback
            obs = {"setup_error": "%s: %s" % (type(e).__name__, e), "tb": traceback.format_exc()[-3000:]}
        resp.write(json.dumps(obs).encode() + b"\n")
    try:
        shutil.rmtree(tmpdir, ignore_errors=True)
    except Exception:
        pass


class Worker(object):
    def __init__(self, tfd, efd, libc):
        self.tfd = tfd
        self.efd = efd
        self.libc = libc

    # -- trace capture ----------------------------------------------------------------------
    def _flush(self):
        sys.stdout.flush()
        sys.stderr.flush()
        self.libc.fflush(None)

    def _trace_reset(self):
        self._flush()
        os.ftruncate(self.tfd, 0)
        os.lseek(self.tfd, 0, os.SEEK_SET)
        os.ftruncate(self.efd, 0)
        os.lseek(self.efd, 0, os.SEEK_SET)
        self.tpos = 0

    def _trace_take(self):
        self._flush()
        size = os.fstat(self.tfd).st_size
        data = os.pread(self.tfd, size - self.tpos, self.tpos)
        self.tpos = size
        return [int(m, 16) for m in _LINE.findall(data)]

    # -- scenario ---------------------------------------------------------------------------
    def run(self, scn, backend):
        from miasm.analysis.machine import Machine
        from miasm.core.locationdb import LocationDB
        from miasm.jitter.jitcore import JitCore
        self._trace_reset()
        if scn.get("purge_disk_cache"):
            d = os.path.join(os.environ["TMPDIR"], "miasm_cache")
            if os.path.isdir(d):
                for n in os.listdir(d):
                    try:
                        os.unlink(os.path.join(d, n))
                    except OSError:
                        pass
        old_max = JitCore.jitted_block_max_size
        if scn.get("block_max"):
            JitCore.jitted_block_max_size = scn["block_max"]
        try:
            loc_db = LocationDB()
            jitter = Machine(scn["arch"]).jitter(loc_db, backend)
        finally:
            JitCore.jitted_block_max_size = old_max
        self.j = jitter
        self.scn = scn
        self.events = []
        self.steps = [0]
        self.cbs = {}
        self.hits = {}
        self.log_mn = bool(scn.get("log_mn"))
        for addr, access, hexdata, name in scn["pages"]:
            jitter.vm.add_memory_page(addr, access, bytes.fromhex(hexdata), name)
        for k, v in scn.get("regs", {}).items():
            setattr(jitter.cpu, k, v)
        self.initial_regs = dict(jitter.cpu.get_gpreg())
        if scn.get("options"):
            jitter.jit.set_options(**scn["options"])
        if self.log_mn:
            jitter.jit.log_mn = True
        if scn.get("exec_cb") or scn.get("step_limit"):
            with_regs = scn.get("exec_cb") == "regs"
            retrans = scn.get("exec_cb") == "retranslate"
            quiet = not scn.get("exec_cb")
            limit = scn.get("step_limit")
            steps = self.steps = [0]         # reset by every init_run: the limit is per run

            def ecb(jj):
                steps[0] += 1
                if limit and steps[0] > limit:
                    jj.running = False
                    return "step-limit"
                if quiet:
                    return True
                if retrans:
                    jj.jit.clear_jitted_blocks()
                    return True
                if with_regs:
                    self.events.append(["ecb", jj.pc, {k: int(v) for k, v in jj.cpu.get_gpreg().items()}])
                else:
                    self.events.append(["ecb", jj.pc])
                return True
            jitter.exec_cb = ecb
        for op in scn["script"]:
            self.do(op)
        obs = {"events": self.events, "final": self.snap()}
        self._flush()
        try:
            size = os.fstat(self.efd).st_size
            obs["stderr_tail"] = os.pread(self.efd, 400, max(0, size - 400)).decode("utf8", "replace")
        except OSError:
            pass
        # drop references so that the jitter is freed before the next scenario
        self.j = None
        self.cbs = {}
        return obs

    def snap(self):
        j = self.j
        mem = {}
        for addr, d in j.vm.get_all_memory().items():
            mem[str(addr)] = [d["access"], bytes(d["data"]).hex()]
        regs = {k: int(v) for k, v in j.cpu.get_gpreg().items()}
        return {"regs": regs, "mem": mem, "cpu_exc": j.cpu.get_exception(), "vm_exc": j.vm.get_exception(),
                "pc": j.pc if hasattr(j, "pc") else None}

    def callback(self, cid, spec):
        if cid in self.cbs:
            return self.cbs[cid]
        lab = self

        def cb(jitter):
            n = lab.hits.get(cid, 0) + 1
            lab.hits[cid] = n
            ev = ["bp", cid, jitter.pc, n]
            if spec.get("log_regs"):
                ev.append({r: int(getattr(jitter.cpu, r)) for r in spec["log_regs"]})
            lab.events.append(ev)
            for act in spec.get("after", []):
                if act[0] == n or act[0] == 0:
                    lab.do(act[1:])
            if spec.get("stop"):
                jitter.running = False
            ret = spec.get("ret", "true")
            ra = spec.get("ret_at")
            if ra and str(n) in ra:
                ret = ra[str(n)]
            if ret == "true":
                return True
            if ret == "false":
                return False
            if ret == "none":
                return None
            return ret
        cb.__name__ = "cb_%s" % cid
        self.cbs[cid] = cb
        return cb

    def do(self, op):
        j = self.j
        name = op[0]
        if name == "bp":
            j.add_breakpoint(op[2], self.callback(op[1], op[3]))
        elif name == "set_bp":
            j.set_breakpoint(op[2], self.callback(op[1], op[3]))
        elif name == "rm_cb":
            if op[1] in self.cbs:
                j.remove_breakpoints_by_callback(self.cbs[op[1]])
        elif name == "rm_addr":
            if j.breakpoints_handler.has_callbacks(op[1]):
                j.remove_breakpoints_by_address(op[1])
        elif name == "init_run":
            self.steps[0] = 0
            j.init_run(op[1])
        elif name == "cont":
            self.cont()
        elif name == "run":
            self.steps[0] = 0
            j.init_run(op[1])
            self.cont()
        elif name == "set_mem":
            j.vm.set_mem(op[1], bytes.fromhex(op[2]))
        elif name == "set_reg":
            setattr(j.cpu, op[1], op[2])
        elif name == "set_u":
            getattr(j.vm, "set_u%d" % op[1])(op[2], op[3])
        elif name == "add_page":
            j.vm.add_memory_page(op[1], op[2], bytes.fromhex(op[3]), op[4] if len(op) > 4 else "")
        elif name == "rm_page":
            j.vm.remove_memory_page(op[1])
        elif name == "set_access":
            j.vm.set_mem_access(op[1], op[2])
        elif name == "clear_exc":
            j.vm.set_exception(0)
            j.cpu.set_exception(0)
        elif name == "set_options":
            j.jit.set_options(**op[1])
        elif name == "clear_cache":
            j.jit.clear_jitted_blocks()
        elif name == "reset":
            for addr, access, hexdata, _name in self.scn["pages"]:
                if _name == "code" and not (len(op) > 1 and op[1] == "all"):
                    continue        # rewriting code would (legitimately) invalidate its translations
                j.vm.set_mem(addr, bytes.fromhex(hexdata))
            for k, v in self.initial_regs.items():       # every register, not only those the scenario sets
                try:
                    setattr(j.cpu, k, v)
                except (AttributeError, TypeError, ValueError):
                    pass
            for k, v in self.scn.get("regs", {}).items():
                setattr(j.cpu, k, v)
        elif name == "snap":
            self.events.append(["snap", op[1], self.snap()])
        elif name == "insn_info":
            info = {}
            for a in op[1]:
                try:
                    ins = j.jit.mdis.dis_instr(a)
                    info[str(a)] = [ins.l, int(getattr(ins, "delayslot", 0) or 0), bool(ins.breakflow()), str(ins)]
                except Exception as e:
                    info[str(a)] = None
            self.events.append(["insn_info", info])
        elif name == "disasm":
            try:
                txt = str(j.jit.mdis.dis_instr(op[1]))
            except Exception as e:
                txt = "?%s" % type(e).__name__
            self.events.append(["disasm", op[1], txt])
        else:
            raise ValueError("unknown op %r" % (op,))

    def cont(self):
        from miasm.jitter.jitload import JitterException
        j = self.j
        kind, value = "ret", None
        try:
            r = j.continue_run()
            value = r if isinstance(r, (bool, int, str, type(None))) else repr(r)
        except JitterException as e:
            kind, value = "jitexc", e.exception_flag
        except Exception as e:
            import traceback
            where = "?"
            for fr in reversed(traceback.extract_tb(e.__traceback__)):
                if "/miasm/" in fr.filename:
                    where = "%s:%s" % (fr.filename.split("/miasm/")[-1], fr.name)
                    break
            kind, value = "pyexc", [type(e).__name__, where, str(e)[:200]]
        trace = self._trace_take() if self.log_mn else None
        self.events.append(["cont", kind, value, j.pc, bool(j.running), trace])


if __name__ == "__main__":
    if len(sys.argv) > 1 and sys.argv[1] == "--worker":
        _worker_main()


# =================================================================================================
# hand-written template programs for architectures clang cannot target (x86_16, MeP)
# registers on entry: x86_16: AX=a CX=b DX=c BX=arr ; MeP: R1=a R2=b R3=c R4=arr

X86_16_TEMPLATES = [
    ("t16_loop_store", """
main:
    MOV SI, 8
loop:
    ADD AX, CX
    MOV WORD PTR [BX], AX
    ADD BX, 2
    XOR AX, DX
    DEC SI
    JNZ loop
    RET
"""),
    ("t16_load_cond", """
main:
    MOV SI, BX
    LEA BP, WORD PTR [BX+16]
    XOR DI, DI
l0:
    MOV AX, WORD PTR [SI]
    TEST AX, 1
    JZ even
    ADD DI, AX
    JMP next
even:
    SUB DI, CX
    MOV WORD PTR [SI], DI
next:
    ADD SI, 2
    CMP SI, BP
    JNZ l0
    MOV AX, DI
    RET
"""),
    ("t16_call_stack", """
main:
    MOV SI, AX
    CALL sub
    MOV WORD PTR [BX+4], AX
    ADD AX, SI
    RET
sub:
    MOV AX, CX
    SHL AX, 3
    ADD AX, DX
    MOV BYTE PTR [BX+1], AL
    RET
"""),
    ("t16_string", """
main:
    MOV SI, BX
    LEA DI, WORD PTR [BX+8]
    MOV CX, 4
    CLD
    REP MOVSW
    MOV AX, WORD PTR [BX+10]
    RET
"""),
    ("t16_muldiv", """
main:
    MUL CX
    MOV WORD PTR [BX], AX
    MOV WORD PTR [BX+2], DX
    OR CX, 1
    XOR DX, DX
    DIV CX
    MOV WORD PTR [BX+4], AX
    MOV WORD PTR [BX+6], DX
    RET
"""),
    ("t16_flags", """
main:
    CMP AX, CX
    JB below
    SUB AX, CX
    JMP st
below:
    ADC AX, DX
st:
    RCL AX, 1
    SBB DX, AX
    MOV WORD PTR [BX+14], DX
    SAR AX, 2
    MOV WORD PTR [BX+12], AX
    RET
"""),
]

MEP_TEMPLATES = [
    ("mep_loop_store", """
    MOV R5, 8
loop:
    ADD3 R1, R1, R2
    SW R1, (R4)
    ADD R4, 4
    XOR R1, R3
    ADD R5, -1
    BNEZ R5, @loop
    MOV R0, R1
    RET
"""),
    ("mep_load_cond", """
    MOV R0, 0
    MOV R5, 8
l0:
    LW R6, (R4)
    MOV R7, 1
    AND R7, R6
    BEQZ R7, @even
    ADD3 R0, R0, R6
    BRA @next
even:
    SUB R0, R2
    SW R0, (R4)
next:
    ADD R4, 4
    ADD R5, -1
    BNEZ R5, @l0
    RET
"""),
    ("mep_subword", """
    SB R1, 0x1(R4)
    SH R2, 0x2(R4)
    LB R5, (R4)
    LBU R6, 0x5(R4)
    LH R7, 0x6(R4)
    ADD3 R0, R5, R6
    ADD3 R0, R0, R7
    SW R0, 0x8(R4)
    RET
"""),
    ("mep_cmp_shift", """
    SLT3 R0, R1, R2
    BEQZ R0, @ge
    SLL R1, 3
    BRA @st
ge:
    SRL R1, 2
st:
    SLTU3 R0, R2, R3
    ADD3 R1, R1, R0
    SRA R3, 1
    SW R1, 0xC(R4)
    SW R3, 0x10(R4)
    MOV R0, R1
    RET
"""),
    ("mep_nested", """
    MOV R5, 3
outer:
    MOV R6, 2
inner:
    LW R7, (R4)
    ADD3 R1, R1, R7
    SW R1, 0x4(R4)
    ADD R6, -1
    BNEZ R6, @inner
    ADD R4, 4
    ADD R5, -1
    BNEZ R5, @outer
    MOV R0, R1
    RET
"""),
]


# programs containing an instruction that branches to itself (x86 LOOP / LOOPNE / REP to `self`) or a tight loop
# whose branch targets its own block head; labels `self` / `self2` mark the places where the harness puts breakpoints
# (the iteration count comes from the arguments).  Registers on entry: x86_32: stack (a, b, c, arr) ;
# x86_64: RDI RSI RDX RCX ; x86_16: AX CX DX BX ; arm: R0-R3.
SELF_BRANCH_TEMPLATES = {
    "x86_32": [
        ("s32_loop_self", """
main:
    MOV ECX, DWORD PTR [ESP+4]
    MOV EDX, DWORD PTR [ESP+16]
    AND ECX, 7
    INC ECX
    MOV EAX, ECX
self:
    LOOP self
    ADD EAX, 3
    MOV DWORD PTR [EDX], EAX
    MOV ECX, DWORD PTR [ESP+8]
    AND ECX, 3
    ADD ECX, 2
self2:
    LOOPNE self2
    MOV DWORD PTR [EDX+4], ECX
    RET
"""),
        ("s32_rep_self", """
main:
    MOV EDX, DWORD PTR [ESP+16]
    MOV ECX, DWORD PTR [ESP+8]
    AND ECX, 3
    ADD ECX, 2
    MOV EAX, DWORD PTR [ESP+4]
    PUSH EDI
    MOV EDI, EDX
    CLD
self:
    REP STOSD
    MOV EAX, EDI
    POP EDI
    RET
"""),
        ("s32_block_self", """
main:
    MOV ECX, DWORD PTR [ESP+4]
    MOV EDX, DWORD PTR [ESP+16]
    AND ECX, 7
    INC ECX
    XOR EAX, EAX
self:
    ADD EAX, ECX
    DEC ECX
self2:
    JNZ self
    MOV DWORD PTR [EDX], EAX
    RET
"""),
    ],
    "x86_16": [
        ("s16_loop_self", """
main:
    AND CX, 7
    INC CX
    MOV AX, CX
self:
    LOOP self
    ADD AX, DX
    MOV WORD PTR [BX], AX
    MOV CX, 3
    LEA DI, WORD PTR [BX+4]
    CLD
self2:
    REP STOSW
    RET
"""),
    ],
    "x86_64": [
        ("s64_loop_self", """
main:
    MOV R8, RCX
    MOV RCX, RDI
    AND RCX, 7
    INC RCX
    MOV RAX, RCX
self:
    LOOP self
    ADD RAX, RSI
    MOV QWORD PTR [R8], RAX
    RET
"""),
    ],
    "arml": [
        ("sarm_block_self", """
main:
    AND R2, R0, 7
    ADD R2, R2, 1
    MOV R0, 0
self:
    ADD R0, R0, R2
    SUBS R2, R2, 1
self2:
    BNE self
    STR R0, [R3]
    AND R2, R1, 3
    ADD R2, R2, 2
self3:
    SUBS R2, R2, 1
    BNE self3
    STR R2, [R3, 4]
    BX LR
"""),
    ],
}
SELF_COUNTER = {"x86_32": "RCX", "x86_16": "RCX", "x86_64": "RCX", "arml": "R2"}


def self_branch_programs(arch, addr=None):
    """-> list of dict(tag, code, labels, ...) like template_programs"""
    addr = layout(arch)["code"] if addr is None else addr
    out = []
    for name, text in SELF_BRANCH_TEMPLATES.get(arch, []):
        try:
            code, labels = assemble(arch, text, addr)
            out.append(dict(tag=name, code=code, labels=labels, src=text, base=labels["__base__"], entry=addr))
        except Exception as e:
            out.append(dict(tag=name, code=None, reason="asm:%s" % type(e).__name__, src=text))
    return out


def template_programs(arch, addr=None):
    """-> list of dict(tag, code, labels, instr_addrs|None); failures to assemble are returned with code=None"""
    addr = layout(arch)["code"] if addr is None else addr
    out = []
    if arch == "x86_16":
        for name, text in X86_16_TEMPLATES:
            try:
                code, labels = assemble(arch, text, addr)
                out.append(dict(tag=name, code=code, labels=labels, src=text, base=labels["__base__"], entry=addr))
            except Exception as e:
                out.append(dict(tag=name, code=None, reason="asm:%s" % type(e).__name__, src=text))
    elif arch in ("mepl", "mepb"):
        for name, text in MEP_TEMPLATES:
            try:
                code, labels, offs = asm_mep(text.split("\n"), addr, little=(arch == "mepl"))
                out.append(dict(tag=name, code=code, labels=labels, src=text, base=addr, entry=addr))
            except Exception as e:
                out.append(dict(tag=name, code=None, reason="asm:%s:%s" % (type(e).__name__, str(e)[:80]), src=text))
    return out
