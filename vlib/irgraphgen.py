"""Structured IR-graph generator, logging interpreter wrapper and small graph oracles for the
data-flow / SSA / simplifier checks (C36..C40).

Nothing here changes vlib.irgen / vlib.irinterp: the raw graph form of irgen is reused
({"blocks": [{"loc": i, "assignblks": [[(dst, src), ...], ...]}], "head": i, "nlocs": n}, built with
irgen.build_ircfg, serialised with ser/deser below) and irinterp.run_assignblk is wrapped.

Vocabulary (class Vocab)
------------------------
A handful of x86_32 registers, so that definitions really kill each other:
  data    32-bit data registers (EAX EBX ECX EDX, `nvars` of them)
  flags   1-bit registers (zf cf)
  small   one 8-bit and one 16-bit identifier (BL, DX: plain independent identifiers for the IR)
  counters  ESI EDI EBP: loop counters, never written by a body
  sp      ESP (stack slots @32[ESP + c]); ret register EAX
Memory operands: @w[ESP + c], @w[data + c], @w[const] with small overlapping constants.

Shapes (strategy `graph`)
-------------------------
region := block | seq | diamond | if-then | multi-way (nested ExprCond) | do-while loop with a
decrementing counter (1..4 turns) | while loop | early exit (conditional jump to an extra return
block) | irreducible two-entry loop | swap loop / lost-copy loop (SSA stress) | call block
top level: optionally a loop through the head (self-limiting counter: c = c & 3 at the top, so at most 5 turns).
Exits: x86 `ret` (IRDst = @32[ESP], ESP = ESP + 4), IRDst = register, jump to a location without block,
ExprInt.  Every loop is bounded by construction: the interpreter always terminates.

`random_cfg` gives unstructured graphs (random jump targets) for the purely static analyses.
"""
from hypothesis import strategies as st

from vlib import irgen


def _m():
    import miasm.expression.expression as m
    return m


# ----------------------------------------------------------------------------------------------
# vocabulary

class Vocab(object):
    def __init__(self, nvars=4, flags=2, small=True, mem=True, calls=False, rich=False, ncounters=3,
                 exits=("ret", "reg", "loc", "int"), mem_bases=("sp", "data", "abs"), slices=True, observe=0,
                 offs=None, mem_widths=None):
        m = _m()
        self.data = [m.ExprId(n, 32) for n in ("EAX", "EBX", "ECX", "EDX")[:nvars]]
        self.flags = [m.ExprId(n, 1) for n in ("zf", "cf")[:flags]]
        self.small = [m.ExprId("BL", 8), m.ExprId("DX", 16)] if small else []
        self.counters = [m.ExprId(n, 32) for n in ("ESI", "EDI", "EBP")[:ncounters]]
        self.sp = m.ExprId("ESP", 32)
        self.ret = m.ExprId("EAX", 32)
        self.irdst = m.ExprId("IRDst", 32)
        self.mem = mem
        self.calls = calls
        self.rich = rich
        self.exits = list(exits)
        self.mem_bases = list(mem_bases)
        self.slices = slices
        # offs / mem_widths: pointer offsets and cell widths (default: overlapping offsets, widths 8/16/32);
        # offs multiple of 4 with mem_widths [32] gives cells that are syntactically equal or disjoint
        self.offs = list(offs) if offs is not None else OFFS
        self.mem_widths = list(mem_widths) if mem_widths is not None else [32, 32, 32, 8, 16]
        # observe = n > 0: with probability 1/n every exit block of a graph first stores all the variables to
        # fixed absolute cells (0x2000 + 4 * i), which makes every register's final value a memory effect
        self.observe = observe

    def vars(self):
        return self.data + self.flags + self.small

    def by_size(self, w):
        return [v for v in self.vars() if v.size == w]

    def pool(self):
        """duck-typed irgen.RegPool over this vocabulary (for irgen.assignblk hazards)"""
        p = irgen.RegPool.__new__(irgen.RegPool)
        p.lifter = None
        p.addrsize = 32
        p.irdst = self.irdst
        p.pc = _m().ExprId("EIP", 32)
        p.sp = self.sp
        p.by_size = {}
        for v in self.vars():
            p.by_size.setdefault(v.size, []).append(v)
        p.ptr_regs = list(self.data) + [self.sp]
        while len(p.ptr_regs) < 3:
            p.ptr_regs.append(self.sp)
        p.sizes = sorted(p.by_size)
        return p


def lifter_factory(kind="x86_32_model"):
    """-> function loc_db -> lifter"""
    def make(loc_db):
        import warnings
        from miasm.analysis.machine import Machine
        with warnings.catch_warnings():
            warnings.simplefilter("ignore")
            mach = Machine("x86_32")
            return mach.lifter_model_call(loc_db) if kind == "x86_32_model" else mach.lifter(loc_db)
    return make


# ----------------------------------------------------------------------------------------------
# expressions

SMALL_CONSTS = [0, 1, 2, 3, 4, 5, 8, 0x10, 0x7f, 0x80, 0xff, 0x100, 0xffff, 0x7fffffff, 0x80000000, 0xffffffff,
                0xfffffffe, 0xfffffffc]
OFFS = [0, 0, 4, 8, 12, 1, 2, 5, 0xfffffffc, 0xfffffff8, 0xffffffff]
BINOPS = ['+', '-', '^', '&', '|', '*', '<<', '>>', 'a>>']
CMPS = ['==', '<u', '<s', '<=u', '<=s']


def _int(v, w):
    return _m().ExprInt(v & ((1 << w) - 1), w)


@st.composite
def pointer(draw, voc):
    m = _m()
    kind = draw(st.sampled_from(voc.mem_bases))
    off = draw(st.sampled_from(voc.offs))
    if kind == "abs":
        return _int(0x1000 + (off & 0xff), 32)
    base = voc.sp if kind == "sp" or not voc.data else draw(st.sampled_from(voc.data))
    if off == 0:
        return base
    return m.ExprOp('+', base, _int(off, 32))


@st.composite
def mem_cell(draw, voc, w=None):
    m = _m()
    if w is None:
        w = draw(st.sampled_from(voc.mem_widths))
    return m.ExprMem(draw(pointer(voc)), w)


@st.composite
def atom(draw, voc, w, mem=True):
    """variable / constant / memory read of width w"""
    m = _m()
    k = draw(st.integers(0, 9))
    cands = voc.by_size(w)
    if k < 6 and cands:
        return draw(st.sampled_from(cands))
    if k < 8 and voc.mem and mem and w in voc.mem_widths:
        return draw(mem_cell(voc, w))
    if k < 9 and voc.slices:
        wider = [v for v in voc.vars() if v.size > w]
        if wider:
            v = draw(st.sampled_from(wider))
            start = draw(st.sampled_from([0, v.size - w]))
            return m.ExprSlice(v, start, start + w)
        narrower = [v for v in voc.vars() if v.size < w]
        if narrower:
            v = draw(st.sampled_from(narrower))
            return m.ExprOp(draw(st.sampled_from(["zeroExt_%d", "signExt_%d"])) % w, v)
    return _int(draw(st.sampled_from(SMALL_CONSTS)), w)


@st.composite
def src_expr(draw, voc, w, depth=1, mem=True):
    m = _m()
    if depth <= 0 or draw(st.integers(0, 2)) == 0:
        return draw(atom(voc, w, mem))
    k = draw(st.integers(0, 9))
    sub = lambda ww: src_expr(voc, ww, depth - 1, mem)
    if w == 1 and k < 5:
        ww = draw(st.sampled_from([32, 32, 8, 1]))
        return m.ExprOp(draw(st.sampled_from(CMPS)), draw(sub(ww)), draw(sub(ww)))
    if k < 7:
        op = draw(st.sampled_from(BINOPS))
        b = draw(sub(w))
        if op in ('<<', '>>', 'a>>') and draw(st.booleans()):
            b = _int(draw(st.integers(0, w)), w)
        return m.ExprOp(op, draw(sub(w)), b)
    if k < 8:
        cw = draw(st.sampled_from([1, w]))
        return m.ExprCond(draw(sub(cw)), draw(sub(w)), draw(sub(w)))
    if k < 9:
        return m.ExprOp('-', draw(sub(w)))
    return draw(atom(voc, w, mem))


@st.composite
def cond_expr(draw, voc):
    """condition of a branch (any width: non-zero selects the first target)"""
    m = _m()
    k = draw(st.integers(0, 9))
    if k < 3 and voc.flags:
        return draw(st.sampled_from(voc.flags))
    if k < 5 and voc.data:
        return draw(st.sampled_from(voc.data))
    if k < 7 and voc.data:
        a = draw(st.sampled_from(voc.data))
        return m.ExprOp(draw(st.sampled_from(CMPS)), a, draw(st.one_of(st.sampled_from(voc.data),
                                                                        st.builds(lambda v: _int(v, 32),
                                                                                  st.sampled_from(SMALL_CONSTS)))))
    if k < 8 and voc.data:
        return m.ExprOp('&', draw(st.sampled_from(voc.data)), _int(draw(st.sampled_from([1, 2, 0x80000000, 0xff])), 32))
    return draw(src_expr(voc, draw(st.sampled_from([1, 32])), 1, mem=voc.mem))


# ----------------------------------------------------------------------------------------------
# AssignBlocks

@st.composite
def assignblk(draw, voc, exclude=(), max_n=3):
    """-> list of (dst, src) with pairwise distinct destinations (at most one store)."""
    m = _m()
    if voc.rich and draw(st.integers(0, 3)) == 0:
        pool = voc.pool()
        if exclude:
            pool = irgen.RegPoolView(pool, [e.name for e in exclude])
            pool.ptr_regs = [r for r in pool.ptr_regs] or [voc.sp]
        if len(pool.ptr_regs) >= 1 and all(len(pool.by_size.get(s, [])) >= 1 for s in pool.sizes):
            try_h = draw(st.sampled_from(["swap", "rotate3", "raw-chain", "slices", "store-ptr-reassigned",
                                          "load-stored-cell", "two-stores", "free"]))
            w32 = len(pool.by_size.get(32, []))
            if not (try_h in ("swap", "rotate3", "raw-chain") and w32 < 3) and (voc.mem or "store" not in try_h
                                                                                 and "two" not in try_h):
                _, pairs = draw(irgen.assignblk(pool, hazard=try_h, depth=1, mem=voc.mem, max_free=1))
                pairs = [(d, s) for d, s in pairs if d is not None and s is not None]
                if pairs and not any(_touches(d, exclude) for d, _ in pairs):
                    return pairs
    cands = [v for v in voc.vars() if v not in exclude]
    n = draw(st.integers(1, max_n))
    pairs = []
    used = set()
    stored = False
    k = draw(st.integers(0, 11))
    if k == 0 and len(voc.data) >= 2:
        a, b = draw(st.permutations(voc.data))[:2]
        if a not in exclude and b not in exclude:
            pairs += [(a, b), (b, a)]
            used.update([a, b])
    for _ in range(n):
        kk = draw(st.integers(0, 7))
        if kk == 0 and voc.mem and not stored:
            dst = draw(mem_cell(voc))
            stored = True
        else:
            free = [v for v in cands if v not in used]
            if not free:
                break
            # bias towards the 32-bit data registers
            d32 = [v for v in free if v.size == 32]
            dst = draw(st.sampled_from(d32)) if d32 and draw(st.integers(0, 3)) else draw(st.sampled_from(free))
            used.add(dst)
        pairs.append((dst, draw(src_expr(voc, dst.size, draw(st.integers(0, 2)), mem=voc.mem))))
    if not pairs:
        v = cands[0]
        pairs.append((v, draw(src_expr(voc, v.size, 1, mem=voc.mem))))
    return pairs


def _touches(dst, regs):
    t = dst.arg if dst.is_slice() else dst
    return t in regs


@st.composite
def body(draw, voc, exclude=(), n=(0, 2)):
    k = draw(st.integers(*n))
    out = [draw(assignblk(voc, exclude)) for _ in range(k)]
    if voc.mem and k and draw(st.integers(0, 7)) == 0:
        # load / overwrite / use: r = cell ; cell = x ; r2 = f(r)   (the old content of the cell must survive in r)
        regs = [v for v in voc.data if v not in exclude]
        if len(regs) >= 2:
            r, r2 = draw(st.permutations(regs))[:2]
            cell = draw(mem_cell(voc, 32))
            if r not in expr_ids(cell.ptr):
                out += [[(r, cell)], [(cell, draw(src_expr(voc, 32, 1, mem=False)))],
                        [(r2, _m().ExprOp('+', r, draw(atom(voc, 32, mem=False))))]]
    return out


@st.composite
def call_blk(draw, voc):
    """model of a sub-call, as LifterModelCall.call_effects emits it (x86_32: two arguments)"""
    m = _m()
    k = draw(st.integers(0, 3))
    if k == 0 and voc.data:
        addr = draw(st.sampled_from(voc.data))
    elif k == 1 and voc.mem:
        addr = draw(mem_cell(voc, 32))
    else:
        addr = _int(draw(st.sampled_from([0x401000, 0x401040, 0x402000])), 32)
    return [(voc.ret, m.ExprOp('call_func_ret', addr, voc.sp)),
            (voc.sp, m.ExprOp('call_func_stack', addr, voc.sp))]


def observer_blk(voc):
    """one AssignBlock storing every variable and counter to its own absolute cell"""
    m = _m()
    pairs = []
    for i, v in enumerate(voc.vars() + voc.counters):
        src = v if v.size == 32 else m.ExprOp("zeroExt_32", v)
        pairs.append((m.ExprMem(_int(0x2000 + 4 * i, 32), 32), src))
    return pairs


# ----------------------------------------------------------------------------------------------
# structured graphs

SHAPES = ["block", "block", "seq", "seq", "diamond", "diamond", "ifthen", "multiway", "loop", "loop", "while",
          "earlyexit", "irreducible", "swaploop", "lostcopy", "call"]


class _Builder(object):
    def __init__(self, draw, voc, shapes, max_blocks):
        self.draw = draw
        self.voc = voc
        self.shapes = shapes
        self.max_blocks = max_blocks
        self.blocks = {}
        self.order = []
        self.nloc = 0
        self.free_counters = list(voc.counters)
        self.used_shapes = []
        self.exits = []          # indexes of locations without block
        self.observe = bool(voc.observe) and draw(st.integers(1, voc.observe)) == 1
        self.active = []         # counters of the enclosing loops

    def new_loc(self):
        self.nloc += 1
        return self.nloc - 1

    def loc(self, i):
        return irgen.loc(i, 32)

    def emit(self, loc, assignblks, dst, merge=None):
        assignblks = [list(ab) for ab in assignblks]
        if merge is None:
            merge = self.draw(st.booleans())
        ird = (self.voc.irdst, dst)
        if merge and assignblks and not any(d == self.voc.irdst for d, _ in assignblks[-1]):
            assignblks[-1] = assignblks[-1] + [ird]
        else:
            assignblks.append([ird])
        assert loc not in self.blocks
        self.blocks[loc] = assignblks
        self.order.append(loc)

    def body(self, n=(0, 2)):
        return self.draw(body(self.voc, exclude=tuple(self.active), n=n))

    def budget(self):
        return self.max_blocks - len(self.blocks)

    def cond(self, a, b):
        m = _m()
        return m.ExprCond(self.draw(cond_expr(self.voc)), self.loc(a), self.loc(b))

    def region(self, depth, entry, nxt):
        """emit blocks so that control entering at `entry` leaves to `nxt`"""
        draw, voc, m = self.draw, self.voc, _m()
        shapes = self.shapes
        if depth <= 0 or self.budget() <= 2:
            kind = "block"
        else:
            kind = draw(st.sampled_from(shapes))
        if kind in ("loop", "while", "irreducible", "swaploop", "lostcopy") and not self.free_counters:
            kind = "diamond"
        if kind == "call" and not voc.calls:
            kind = "block"
        if kind in ("swaploop", "lostcopy") and len(voc.data) < 2:
            kind = "loop"
        self.used_shapes.append(kind)
        if kind == "block":
            self.emit(entry, self.body((1, 2)), self.loc(nxt))
        elif kind == "call":
            self.emit(entry, self.body((0, 1)) + [draw(call_blk(voc))], self.loc(nxt), merge=False)
        elif kind == "seq":
            mid = self.new_loc()
            self.region(depth - 1, entry, mid)
            self.region(depth - 1, mid, nxt)
        elif kind == "diamond":
            t, f = self.new_loc(), self.new_loc()
            self.emit(entry, self.body(), self.cond(t, f))
            self.region(depth - 1, t, nxt)
            self.region(depth - 1, f, nxt)
        elif kind == "ifthen":
            t = self.new_loc()
            self.emit(entry, self.body(), self.cond(t, nxt) if draw(st.booleans()) else self.cond(nxt, t))
            self.region(depth - 1, t, nxt)
        elif kind == "multiway":
            ts = [self.new_loc() for _ in range(3)]
            c1, c2 = draw(cond_expr(voc)), draw(cond_expr(voc))
            self.emit(entry, self.body(), m.ExprCond(c1, self.loc(ts[0]), m.ExprCond(c2, self.loc(ts[1]),
                                                                                      self.loc(ts[2]))))
            for t in ts:
                self.region(depth - 2, t, nxt)
        elif kind == "earlyexit":
            e, c = self.new_loc(), self.new_loc()
            self.emit(entry, self.body(), self.cond(e, c))
            self.exit_block(e)
            self.region(depth - 1, c, nxt)
        elif kind in ("loop", "swaploop", "lostcopy"):
            cnt = self.free_counters.pop()
            k = draw(st.integers(1, 4))
            h, latch = self.new_loc(), self.new_loc()
            pre = self.body((0, 1))
            init = [(cnt, _int(k, 32))]
            a = b = None
            if kind != "loop":
                a, b = draw(st.permutations(voc.data))[:2]
                if kind == "lostcopy":
                    init.append((a, draw(atom(voc, 32))))
            self.emit(entry, pre + [init], self.loc(h))
            self.active.append(cnt)
            if kind == "loop":
                self.region(depth - 1, h, latch)
                lb = self.body((0, 1))
            elif kind == "swaploop":
                # a, b = b, a   (parallel or through a temporary) each turn; both used after the loop
                if draw(st.booleans()):
                    sw = [[(a, b), (b, a)]]
                else:
                    t = draw(st.sampled_from([v for v in voc.data if v not in (a, b)] or [a]))
                    sw = [[(t, a)], [(a, b)], [(b, t)]] if t not in (a, b) else [[(a, b), (b, a)]]
                self.emit(h, self.body((0, 1)) + sw, self.loc(latch))
                lb = []
            else:
                # lost copy: b = a ; a = a + 1 ; loop ; b used after the loop
                self.emit(h, [[(b, a)], [(a, m.ExprOp('+', a, _int(1, 32)))]] + self.body((0, 1)), self.loc(latch))
                lb = []
            self.active.pop()
            dec = m.ExprOp('+', cnt, _int(-1, 32))
            self.emit(latch, lb + [[(cnt, dec)]], m.ExprCond(dec, self.loc(h), self.loc(nxt)), merge=True)
            self.free_counters.append(cnt)
            if kind != "loop":
                # make the swapped / copied values observable after the loop
                self.post_use = (a, b)
        elif kind == "while":
            cnt = self.free_counters.pop()
            k = draw(st.integers(0, 3))
            h, b, latch = self.new_loc(), self.new_loc(), self.new_loc()
            self.emit(entry, self.body((0, 1)) + [[(cnt, _int(k, 32))]], self.loc(h))
            self.active.append(cnt)
            self.emit(h, self.body((0, 1)), m.ExprCond(cnt, self.loc(b), self.loc(nxt)))
            self.region(depth - 1, b, latch)
            self.emit(latch, self.body((0, 1)) + [[(cnt, m.ExprOp('+', cnt, _int(-1, 32)))]], self.loc(h))
            self.active.pop()
            self.free_counters.append(cnt)
        elif kind == "irreducible":
            cnt = self.free_counters.pop()
            k = draw(st.integers(1, 3))
            A, B, latch = self.new_loc(), self.new_loc(), self.new_loc()
            self.emit(entry, self.body((0, 1)) + [[(cnt, _int(k, 32))]], self.cond(A, B))
            self.active.append(cnt)
            self.region(depth - 2, A, B)
            self.region(depth - 2, B, latch)
            self.active.pop()
            dec = m.ExprOp('+', cnt, _int(-1, 32))
            self.emit(latch, [[(cnt, dec)]], m.ExprCond(dec, self.loc(A), self.loc(nxt)), merge=True)
            self.free_counters.append(cnt)
        else:
            raise AssertionError(kind)

    def exit_block(self, loc):
        draw, voc, m = self.draw, self.voc, _m()
        kind = draw(st.sampled_from(voc.exits))
        pre = self.body((0, 1))
        if self.observe:
            pre = pre + [observer_blk(voc)]
        post = getattr(self, "post_use", None)
        if post and draw(st.booleans()):
            a, b = post
            pre = pre + [[(voc.ret, m.ExprOp('-', a, m.ExprOp('<<', b, _int(1, 32))))]]
        self.used_shapes.append("exit:" + kind)
        if kind == "ret":
            self._emit_ret(loc, pre)
        elif kind == "reg":
            self.emit(loc, pre, draw(st.sampled_from(voc.data)) if voc.data else voc.sp)
        elif kind == "loc":
            e = self.new_loc()
            self.exits.append(e)
            self.emit(loc, pre, self.loc(e))
        else:
            self.emit(loc, pre, _int(draw(st.sampled_from([0x1000, 0x401000, 0xdead0000])), 32))

    def _emit_ret(self, loc, pre):
        voc, m = self.voc, _m()
        assignblks = [list(ab) for ab in pre]
        assignblks.append([(voc.sp, m.ExprOp('+', voc.sp, _int(4, 32))), (voc.irdst, m.ExprMem(voc.sp, 32))])
        self.blocks[loc] = assignblks
        self.order.append(loc)

    def finish(self, head, shape_tag=None):
        # renumber: blocks first (0..n-1 in emission order... keep head), exits after
        blocks = [{"loc": l, "assignblks": self.blocks[l]} for l in self.order]
        return {"blocks": blocks, "head": head, "nlocs": self.nloc,
                "meta": {"shapes": self.used_shapes}}


@st.composite
def graph(draw, voc, depth=3, max_blocks=12, shapes=None, head_loop=None):
    """structured graph over `voc` (raw form, see module docstring)"""
    m = _m()
    b = _Builder(draw, voc, shapes or SHAPES, max_blocks)
    head = b.new_loc()
    last = b.new_loc()
    if head_loop is None:
        head_loop = draw(st.integers(0, 7)) == 0
    if head_loop and b.free_counters:
        # loop through the head: c = c & 3 at the top, c = c - 1 ; c ? head : out at the bottom
        cnt = b.free_counters.pop()
        b.active.append(cnt)
        inner, latch = b.new_loc(), b.new_loc()
        b.used_shapes.append("headloop")
        b.emit(head, [[(cnt, m.ExprOp('&', cnt, _int(3, 32)))]] + b.body((0, 1)), b.loc(inner))
        b.region(depth - 1, inner, latch)
        dec = m.ExprOp('+', cnt, _int(-1, 32))
        b.emit(latch, [[(cnt, dec)]], m.ExprCond(dec, b.loc(head), b.loc(last)), merge=True)
        b.active.pop()
    else:
        b.region(depth, head, last)
    b.exit_block(last)
    return b.finish(head)


@st.composite
def random_cfg(draw, voc, nblocks=(1, 6), exit_p=3):
    """unstructured graph: every block jumps to random blocks (loops of any kind, unreachable blocks,
    infinite loops); some blocks return.  For static analyses only (may not terminate)."""
    m = _m()
    n = draw(st.integers(*nblocks))
    blocks = []
    nloc = n
    for i in range(n):
        abs_ = draw(body(voc, n=(0, 3)))
        k = draw(st.integers(0, 9))
        tg = st.integers(0, n - 1)
        if k < exit_p:
            kk = draw(st.sampled_from(voc.exits))
            if kk == "ret":
                abs_.append([(voc.sp, m.ExprOp('+', voc.sp, _int(4, 32))), (voc.irdst, m.ExprMem(voc.sp, 32))])
                blocks.append({"loc": i, "assignblks": abs_})
                continue
            if kk == "reg":
                dst = draw(st.sampled_from(voc.data))
            elif kk == "loc":
                dst = irgen.loc(nloc, 32)
                nloc += 1
            else:
                dst = _int(0xdead0000, 32)
        elif k < 6:
            dst = irgen.loc(draw(tg), 32)
        elif k < 9:
            dst = m.ExprCond(draw(cond_expr(voc)), irgen.loc(draw(tg), 32), irgen.loc(draw(tg), 32))
        else:
            dst = m.ExprCond(draw(cond_expr(voc)), irgen.loc(draw(tg), 32),
                             m.ExprCond(draw(cond_expr(voc)), irgen.loc(draw(tg), 32), irgen.loc(draw(tg), 32)))
        if abs_ and draw(st.booleans()):
            abs_[-1] = abs_[-1] + [(voc.irdst, dst)]
        else:
            abs_.append([(voc.irdst, dst)])
        blocks.append({"loc": i, "assignblks": abs_})
    return {"blocks": blocks, "head": 0, "nlocs": nloc, "meta": {"shapes": ["random"]}}


def ser(graph):
    js = irgen.ser_graph(graph)
    js["meta"] = graph.get("meta")
    return js


def deser(js):
    g = irgen.deser_graph(js)
    g["meta"] = js.get("meta")
    return g


def build(graph, kind="x86_32_model"):
    """-> (lifter, ircfg, keys)"""
    return irgen.build_ircfg(lifter_factory(kind), graph)


def copy_ircfg(ircfg):
    """fresh IRCFG with the same blocks (IRBlocks are immutable values) and edges"""
    from miasm.ir.ir import IRCFG
    new = IRCFG(ircfg.IRDst, ircfg.loc_db)
    for blk in ircfg.blocks.values():
        new.add_irblock(blk)
    return new


# ----------------------------------------------------------------------------------------------
# plain graph oracles (successor maps over hashable nodes)

def succ_map(ircfg):
    """{block loc_key: [successor loc_keys]} from the graph's edges (all successors, also without block)"""
    return {lk: list(ircfg.successors(lk)) for lk in ircfg.blocks}


def reachable(succ, start, removed=None):
    seen = set()
    if start == removed:
        return seen
    todo = [start]
    seen.add(start)
    while todo:
        n = todo.pop()
        for s in succ.get(n, ()):
            if s != removed and s not in seen:
                seen.add(s)
                todo.append(s)
    return seen


def dominators(succ, head):
    """{n: set of dominators of n} for the nodes reachable from head (node-removal definition)"""
    R = reachable(succ, head)
    dom = {n: {n} for n in R}
    for d in R:
        if d == head:
            for n in R:
                dom[n].add(head)
            continue
        still = reachable(succ, head, removed=d)
        for n in R:
            if n not in still:
                dom[n].add(d)
    return dom


# ----------------------------------------------------------------------------------------------
# SSA helper

def ssa_copy_propagate(cfg):
    """On a valid SSA graph, replace every use of x (ordinary uses and memory pointers, not Phi arguments) by y when
    the single definition of x is the plain copy `x = y` of another identifier (chains resolved; the copies
    themselves stay in place).  Value preserving on SSA: y has one definition, which dominates the copy, which
    dominates every use of x.  -> number of identifiers replaced"""
    import miasm.expression.expression as m
    from miasm.ir.ir import IRBlock, AssignBlock
    copies = {}
    for blk in cfg.blocks.values():
        for ab in blk:
            for d, s_ in ab.items():
                if d.__class__.__name__ == "ExprId" and d.name != "IRDst" and s_.__class__.__name__ == "ExprId" and s_.name != "IRDst" and d != s_:
                    copies[d] = s_

    def root(v):
        seen = set()
        while v in copies and v not in seen:
            seen.add(v)
            v = copies[v]
        return v
    repl = {v: root(v) for v in copies}
    repl = {k: v for k, v in repl.items() if k != v}
    if not repl:
        return 0
    for lk, blk in list(cfg.blocks.items()):
        new = []
        for ab in blk:
            out = {}
            for d, s_ in ab.items():
                if d.__class__.__name__ == "ExprMem":
                    d = m.ExprMem(d.ptr.replace_expr(repl), d.size)
                if not (s_.__class__.__name__ == "ExprOp" and s_.op == "Phi"):
                    # Phi arguments are left alone, as PropagateExpressions does (UnSSADiGraph requires them to
                    # be identifiers defined in the graph)
                    s_ = s_.replace_expr(repl)
                out[d] = s_
            new.append(AssignBlock(out, ab.instr))
        cfg.blocks[lk] = IRBlock(cfg.loc_db, lk, new)
    return len(repl)



# ----------------------------------------------------------------------------------------------
# logging interpreter

def expr_ids(e, out=None, in_mem=False, mems=None):
    """identifiers read by e (independent walker) -> set of ExprId; mems: optional set receiving ExprMem nodes"""
    if out is None:
        out = set()
    cn = e.__class__.__name__
    if cn == "ExprId":
        out.add(e)
    elif cn == "ExprMem":
        if mems is not None:
            mems.add(e)
        expr_ids(e.ptr, out, True, mems)
    elif cn == "ExprSlice":
        expr_ids(e.arg, out, in_mem, mems)
    elif cn in ("ExprOp", "ExprCompose"):
        for a in e.args:
            expr_ids(a, out, in_mem, mems)
    elif cn == "ExprCond":
        expr_ids(e.cond, out, in_mem, mems)
        expr_ids(e.src1, out, in_mem, mems)
        expr_ids(e.src2, out, in_mem, mems)
    return out


def call_ops(e, out=None):
    """ExprOp nodes whose operator starts with call_ , outermost first"""
    if out is None:
        out = []
    cn = e.__class__.__name__
    if cn == "ExprOp":
        if e.op.startswith("call_"):
            out.append(e)
        for a in e.args:
            call_ops(a, out)
    elif cn == "ExprCompose":
        for a in e.args:
            call_ops(a, out)
    elif cn == "ExprMem":
        call_ops(e.ptr, out)
    elif cn == "ExprSlice":
        call_ops(e.arg, out)
    elif cn == "ExprCond":
        call_ops(e.cond, out)
        call_ops(e.src1, out)
        call_ops(e.src2, out)
    return out


class LoggedRun(object):
    def __init__(self):
        self.path = []
        self.events = []        # ("w", addr, nbytes, value) / ("call", op, argvalues...) grouped per AssignBlock
        self.effective = []     # the same without the writes that store the value the cells already hold
        self.final_mem = {}     # (pointer width, address) -> byte, for every byte written
        self.reason = None
        self.dst = None
        self.last_def = {}      # identifier name -> sequence number of its last assignment
        self.nassign = 0


def run_logged(ircfg, head, state, max_steps=4000, irdst_name="IRDst", irdst_size=32):
    """Execute the graph from `head` on `state` (irinterp.State), logging memory writes and call events
    in order (events of one AssignBlock sorted: they are simultaneous), and the order in which identifiers
    are assigned.  Stops when the destination is not a block of the graph ('exit'), on a block that does not
    assign IRDst ('no-dst') or when max_steps AssignBlocks were executed ('budget')."""
    from vlib import irinterp
    from vlib.refeval import mask
    irinterp.bind_locs(state, ircfg.loc_db, irinterp.loc_keys_of(ircfg), irdst_size)
    by_value = {}
    for lk in ircfg.blocks:
        v = state.locs[lk] & mask(irdst_size)
        if v in by_value:
            raise irinterp.DomainError("two blocks share the address 0x%x" % v)
        by_value[v] = lk
    run = LoggedRun()
    cur = head
    steps = 0
    pristine = state.copy()
    while True:
        blk = ircfg.blocks.get(cur)
        if blk is None:
            run.reason = "exit"
            break
        if steps + len(blk) > max_steps:
            run.reason = "budget"
            break
        run.path.append(cur)
        assigned = False
        for ab in blk:
            pairs = irinterp._pairs(ab)
            ev = []
            for d, s in pairs:
                for c in call_ops(s):
                    ev.append(("call", c.op) + tuple(state.eval(a) for a in c.args))
                if d.__class__.__name__ == "ExprId" and d.name == irdst_name:
                    assigned = True
            nw = len(state.writes)
            irinterp.run_assignblk(ab, state)
            steps += 1
            eff = [e for e in ev]
            for pw, addr, n, val, _ in state.writes[nw:]:
                ev.append(("w", addr, n, val))
                changed = False
                for j in range(n):
                    k = (pw, (addr + j) & mask(pw))
                    old = run.final_mem[k] if k in run.final_mem else pristine.read_mem(pw, k[1], 1)
                    nb = (val >> (8 * j)) & 0xff
                    if old != nb:
                        changed = True
                    run.final_mem[k] = nb
                if changed:
                    eff.append(("w", addr, n, val))
            ev.sort()
            eff.sort()
            run.events.extend(ev)
            run.effective.extend(eff)
            run.nassign += 1
            for d, _ in pairs:
                t = d.arg if d.__class__.__name__ == "ExprSlice" else d
                if t.__class__.__name__ == "ExprId":
                    run.last_def[(t.name, t.size)] = run.nassign
        if not assigned:
            run.reason = "no-dst"
            break
        run.dst = state.reg(irdst_name, irdst_size)
        cur = by_value.get(run.dst)
        if cur is None:
            run.reason = "exit"
            break
    return run


def init_state(key, regs=None, init_suffix=None, names=()):
    """irinterp.State with hash-initialised registers/memory under `key`.  With init_suffix (e.g. "_init"),
    every identifier `n` of `names` [(name, size)] gets an explicit value and `n + suffix` the same one."""
    from vlib import irinterp
    st_ = irinterp.State(key=key)
    for name, size in names:
        v = st_.reg(name, size)
        st_.set_reg(name, size, v)
        if init_suffix:
            st_.set_reg(name + init_suffix, size, v)
    for (name, size), v in (regs or {}).items():
        st_.set_reg(name, size, v)
        if init_suffix:
            st_.set_reg(name + init_suffix, size, v)
    return st_


# ----------------------------------------------------------------------------------------------
# structural shrinking of raw graphs

def _clone(graph):
    return {"blocks": [{"loc": b["loc"], "assignblks": [list(ab) for ab in b["assignblks"]]} for b in graph["blocks"]],
            "head": graph["head"], "nlocs": graph["nlocs"], "meta": graph.get("meta")}


def _is_irdst(d):
    return d.__class__.__name__ == "ExprId" and d.name == "IRDst"


def _retarget(e, old, new):
    m = _m()
    cn = e.__class__.__name__
    if cn == "ExprLoc":
        return irgen.loc(new, e.size) if e.loc_key.key == old else e
    if cn == "ExprCond":
        return m.ExprCond(e.cond, _retarget(e.src1, old, new), _retarget(e.src2, old, new))
    return e


def _candidates(graph):
    """yield smaller variants of graph, most aggressive first"""
    m = _m()
    # 1. remove a block
    for bi, b in enumerate(graph["blocks"]):
        if b["loc"] == graph["head"]:
            continue
        g = _clone(graph)
        dst = None
        for ab in b["assignblks"]:
            for d, s in ab:
                if _is_irdst(d):
                    dst = s
        if dst is not None and dst.__class__.__name__ == "ExprLoc" and dst.loc_key.key != b["loc"]:
            new = dst.loc_key.key
        else:
            new = g["nlocs"]
            g["nlocs"] += 1
        del g["blocks"][bi]
        for b2 in g["blocks"]:
            b2["assignblks"] = [[(d, _retarget(s, b["loc"], new) if _is_irdst(d) else s) for d, s in ab]
                                for ab in b2["assignblks"]]
        yield g
    # 2. remove an AssignBlock / an assignment
    for bi, b in enumerate(graph["blocks"]):
        for ai, ab in enumerate(b["assignblks"]):
            if not any(_is_irdst(d) for d, _ in ab):
                g = _clone(graph)
                del g["blocks"][bi]["assignblks"][ai]
                yield g
            if len(ab) > 1:
                for k, (d, s) in enumerate(ab):
                    if _is_irdst(d):
                        continue
                    g = _clone(graph)
                    del g["blocks"][bi]["assignblks"][ai][k]
                    yield g
    # 3. simplify the destination of a block / a source
    for bi, b in enumerate(graph["blocks"]):
        for ai, ab in enumerate(b["assignblks"]):
            for k, (d, s) in enumerate(ab):
                cn = s.__class__.__name__
                if _is_irdst(d):
                    if cn == "ExprCond":
                        for r in (s.src1, s.src2):
                            g = _clone(graph)
                            g["blocks"][bi]["assignblks"][ai][k] = (d, r)
                            yield g
                    continue
                if cn in ("ExprInt", "ExprId"):
                    continue
                subs = []
                if cn == "ExprOp":
                    subs = [a for a in s.args if a.size == s.size]
                elif cn == "ExprCond":
                    subs = [s.src1, s.src2]
                for r in subs + [m.ExprInt(0, s.size)]:
                    g = _clone(graph)
                    g["blocks"][bi]["assignblks"][ai][k] = (d, r)
                    yield g


def shrink_graph(graph, pred, budget=400):
    """greedy structural shrinking: keeps the smallest variant for which pred(graph) is true"""
    calls = [0]
    cur = graph
    progress = True
    while progress and calls[0] < budget:
        progress = False
        for cand in _candidates(cur):
            if calls[0] >= budget:
                break
            calls[0] += 1
            ok = False
            try:
                ok = pred(cand)
            except Exception:
                ok = False
            if ok:
                cur = cand
                progress = True
                break
    return cur


# ----------------------------------------------------------------------------------------------
# differential execution of two graphs

STATE_REGS = [("EAX", 32), ("EBX", 32), ("ECX", 32), ("EDX", 32), ("ESI", 32), ("EDI", 32), ("EBP", 32), ("ESP", 32),
              ("zf", 1), ("cf", 1), ("BL", 8), ("DX", 16)]


def make_states(n=8, init_suffix=None):
    """n initial states: hash-initialised registers and memory (key = index); from the sixth on the 32-bit data
    registers and counters hold values 0..3 (equalities / zero tests between registers become true)."""
    out = []
    for k in range(n):
        regs = {}
        if k >= 5:
            s0 = init_state(k)
            for j, (nm, sz) in enumerate(STATE_REGS[:7]):
                regs[(nm, sz)] = (s0.reg(nm, sz) >> (3 * j)) & 3
        out.append(init_state(k, regs=regs, init_suffix=init_suffix, names=STATE_REGS if init_suffix else ()))
    return out


def final_reg(run, state, name, size, base_map):
    """value of register (name, size) at the exit, read through the variable standing for it: the most recently
    assigned identifier whose base (base_map(name, size) -> (name, size)) is the register; the register itself
    when none was assigned"""
    best, bestn = (name, size), 0
    for (n, sz), seq in run.last_def.items():
        if sz != size:
            continue
        if base_map(n, sz) == (name, size) and seq > bestn:
            best, bestn = (n, sz), seq
    return state.reg(*best), best[0]


def fmt_ev(e):
    if e is None:
        return "none"
    return "(" + ", ".join(hex(x) if isinstance(x, int) else str(x) for x in e) + ")"


def compare_runs(orig_cfg, new_cfg, head, states=None, mode="final", regs=(), out_regs=(), base_map=None,
                 same_path=False, stats=None, word="new", new_head=None, calls=True):
    """Run both graphs from `head` on every state.  -> None | (bucket suffix, detail)
    mode "final": the bytes written by either run hold the same values at the exit;
    mode "sequence": same ordered events (memory writes that change memory and, with calls=True, call_* operator
    applications with their argument values).
    regs: [(name, size)] compared by name at the exit; out_regs: [(name, size)] read in the new graph through
    final_reg(base_map); same_path: same sequence of executed blocks.  The exit destination is always compared.
    States on which the original graph is undefined (division by zero), does not exit or runs out of budget are
    dropped (counted in stats)."""
    from vlib import irinterp
    if states is None:
        states = make_states()
    for k, st0 in enumerate(states):
        s1, s2 = st0.copy(), st0.copy()
        try:
            r1 = run_logged(orig_cfg, head, s1)
        except (irinterp.Undefined, irinterp.DomainError):
            if stats is not None:
                stats["state-dropped:undefined-original"] += 1
            continue
        if r1.reason != "exit":
            if stats is not None:
                stats["state-dropped:" + r1.reason] += 1
            continue
        s2.locs = dict(s1.locs)
        try:
            r2 = run_logged(new_cfg, new_head or head, s2)
        except irinterp.Undefined:
            return ("undefined-operation", "state %d: the %s graph divides by zero where the original does not"
                    % (k, word))
        except irinterp.DomainError as e:
            return ("invalid-ir", "state %d: the %s graph is not executable: %s" % (k, word, e))
        if stats is not None:
            stats["runs"] += 1
            stats["run-blocks"] += len(r1.path)
        paths = "(path %s vs %s)" % ([str(x) for x in r1.path], [str(x) for x in r2.path])
        if r2.reason != "exit":
            return ("no-exit", "state %d: original exits to 0x%x after %d blocks, %s graph: %s after %d blocks"
                    % (k, r1.dst, len(r1.path), word, r2.reason, len(r2.path)))
        if mode == "final":
            for cell in sorted(set(r1.final_mem) | set(r2.final_mem)):
                b1 = r1.final_mem[cell] if cell in r1.final_mem else s1.read_mem(cell[0], cell[1], 1)
                b2 = r2.final_mem[cell] if cell in r2.final_mem else s2.read_mem(cell[0], cell[1], 1)
                if b1 != b2:
                    return ("memory", "state %d: byte at 0x%x is 0x%02x at the exit of the original, 0x%02x in the "
                            "%s graph %s" % (k, cell[1], b1, b2, word, paths))
        else:
            ev1, ev2 = r1.effective, r2.effective
            if not calls:
                ev1 = [e for e in ev1 if e[0] != "call"]
                ev2 = [e for e in ev2 if e[0] != "call"]
        if mode != "final" and ev1 != ev2:
            n = 0
            while n < min(len(ev1), len(ev2)) and ev1[n] == ev2[n]:
                n += 1
            e1 = ev1[n] if n < len(ev1) else None
            e2 = ev2[n] if n < len(ev2) else None
            kind = "calls" if "call" in (e1 or e2)[0] else "memory-writes"
            return (kind, "state %d: event %d differs: original %s, %s %s %s"
                    % (k, n, fmt_ev(e1), word, fmt_ev(e2), paths))
        if r1.dst != r2.dst:
            return ("exit", "state %d: original exits to 0x%x, %s graph to 0x%x %s" % (k, r1.dst, word, r2.dst, paths))
        if same_path and r1.path != r2.path:
            return ("path", "state %d: blocks executed differ %s" % (k, paths))
        for name, size in regs:
            v1, v2 = s1.reg(name, size), s2.reg(name, size)
            if v1 != v2:
                return ("register:%s" % name, "state %d: %s = 0x%x at the exit of the original, 0x%x in the %s graph %s"
                        % (k, name, v1, v2, word, paths))
        for name, size in out_regs:
            v1 = s1.reg(name, size)
            v2, through = final_reg(r2, s2, name, size, base_map)
            if v1 != v2:
                return ("out-register:%s" % name,
                        "state %d: %s = 0x%x at the exit of the original, 0x%x in the %s graph (read through %s) %s"
                        % (k, name, v1, v2, word, through, paths))
    return None


# ----------------------------------------------------------------------------------------------
# functions lifted from compiled C (vlib.ccorpus)

def compile_functions(seed, n, arch="x86_32", opts=("-O1", "-O2", "-Os", "-O0"), load_addr=0x401000):
    """-> (list of {"tag", "arch", "opt", "addr", "code": hex}, dropped Counter).  One clang run per
    optimisation level over the same n generated functions + the fixed ones; scratch files under /var/tmp."""
    import collections
    import shutil
    import tempfile
    from vlib import ccorpus
    dropped = collections.Counter()
    out = []
    funcs = ccorpus.fixed_functions(arch) + ccorpus.gen_functions(seed, n, arch)
    work = tempfile.mkdtemp(prefix="irgraphgen-", dir="/var/tmp")
    try:
        for opt in opts:
            res, err = ccorpus.compile_batch(funcs, arch, opt, work, load_addr, tag="g%d" % seed)
            for r in res:
                if r["code"] is None:
                    dropped["lifted:" + r["reason"]] += 1
                    continue
                out.append({"tag": r["tag"], "arch": arch, "opt": opt, "addr": load_addr, "code": r["code"].hex()})
    finally:
        shutil.rmtree(work, ignore_errors=True)
    return out, dropped


def lift_function(fn):
    """fn: {"arch", "addr", "code": hex} -> (lifter (model call), ircfg, head LocKey)"""
    import warnings
    from miasm.analysis.machine import Machine
    from miasm.core.locationdb import LocationDB
    from miasm.core.bin_stream import bin_stream_str
    with warnings.catch_warnings():
        warnings.simplefilter("ignore")
        loc_db = LocationDB()
        machine = Machine(fn["arch"])
        bs = bin_stream_str(bytes.fromhex(fn["code"]), base_address=fn["addr"])
        mdis = machine.dis_engine(bs, loc_db=loc_db)
        asmcfg = mdis.dis_multiblock(fn["addr"])
        lifter = machine.lifter_model_call(loc_db)
        ircfg = lifter.new_ircfg_from_asmcfg(asmcfg)
    head = loc_db.get_offset_location(fn["addr"])
    return lifter, ircfg, head


def lifted_states(lifter, n=8, init_suffix=None):
    """states for lifted code: every architecture register gets an explicit value (and NAME_init the same)"""
    names = [(r.name, r.size) for r in lifter.arch.regs.all_regs_ids]
    out = []
    for k in range(n):
        st_ = init_state(k + 100, init_suffix=init_suffix, names=names)
        out.append(st_)
    return out
