"""Hypothesis strategies for well-sized miasm expression trees.

free_expr(w, depth): random trees over every operator the rewrite passes inspect.
Template strategies (templates()) build instances of the left-hand side of individual
rewrite rules with boundary constants where the guards compare.
All randomness comes from Hypothesis draws.
"""
from hypothesis import strategies as st

WIDTH_BIAS = [1, 2, 3, 4, 7, 8, 9, 15, 16, 17, 31, 32, 33, 63, 64, 65, 127, 128]
PTR_WIDTHS = [8, 16, 32, 64]
NARY = ['+', '*', '^', '&', '|']
BINW = ['-', '<<', '>>', 'a>>', '<<<', '>>>', '/', '%', 'udiv', 'umod', 'sdiv', 'smod']
CMP = ['==', '<u', '<s', '<=u', '<=s']
FLAG2 = ['FLAG_EQ_AND', 'FLAG_EQ_CMP', 'FLAG_SIGN_SUB', 'FLAG_ADD_CF', 'FLAG_ADD_OF', 'FLAG_SUB_CF', 'FLAG_SUB_OF']
FLAG3 = ['FLAG_EQ_ADDWC', 'FLAG_SIGN_ADDWC', 'FLAG_ADDWC_CF', 'FLAG_ADDWC_OF',
         'FLAG_EQ_SUBWC', 'FLAG_SIGN_SUBWC', 'FLAG_SUBWC_CF', 'FLAG_SUBWC_OF']
CC = {'CC_U<=': 2, 'CC_U>=': 1, 'CC_S<': 2, 'CC_S>': 3, 'CC_S<=': 3, 'CC_S>=': 2, 'CC_U>': 2,
      'CC_U<': 1, 'CC_NEG': 1, 'CC_EQ': 1, 'CC_NE': 1, 'CC_POS': 1}


def _m():
    import miasm.expression.expression as m
    return m


def widths(lo=1, hi=128):
    biased = [w for w in WIDTH_BIAS if lo <= w <= hi]
    if not biased:
        return st.integers(lo, hi)
    return st.one_of(st.sampled_from(biased), st.integers(lo, hi))


def const_values(w):
    m = (1 << w) - 1
    msb = 1 << (w - 1)
    cands = sorted({0, 1, 2, 3, (w - 1) & m, w & m, (w + 1) & m, m, (m - 1) & m, msb, (msb - 1) & m, (msb + 1) & m,
                    0x7f & m, 0x80 & m, 0xff & m, 0x100 & m, 0xffff & m, 0x10000 & m, 0xffffffff & m,
                    (1 << 32) & m, (m >> 1), 8 & m, 16 & m})
    pow2 = st.integers(0, w - 1).flatmap(lambda k: st.sampled_from([(1 << k) & m, ((1 << k) - 1) & m, ((1 << k) + 1) & m]))
    return st.one_of(st.sampled_from(cands), pow2, st.integers(0, m))


@st.composite
def ints(draw, w):
    return _m().ExprInt(draw(const_values(w)), w)


def ids(w):
    m = _m()
    return st.sampled_from(["a", "b", "c"]).map(lambda n: m.ExprId("%s%d" % (n, w), w))


@st.composite
def leaf(draw, w, cfg):
    k = draw(st.integers(0, 9))
    if k < 4:
        return draw(ints(w))
    if k < 9 or not cfg.get("mem", True) or w > 128:
        return draw(cfg["id_leaf"](w) if "id_leaf" in cfg else ids(w))
    return draw(mem(w, 0, cfg))


@st.composite
def mem(draw, w, depth, cfg):
    m = _m()
    if "mem_leaf" in cfg:
        return draw(cfg["mem_leaf"](w))
    pw = draw(st.sampled_from(PTR_WIDTHS))
    ptr = draw(free_expr(pw, max(depth - 1, 0), dict(cfg, mem=depth > 1)))
    return m.ExprMem(ptr, w)


@st.composite
def free_expr(draw, w, depth, cfg=None):
    """Random expression of width w, depth <= depth.
    Optional cfg hooks (used by vlib.irgen): cfg["id_leaf"](w) -> strategy replacing the a/b/c identifier
    leaves; cfg["mem_leaf"](w) -> strategy replacing every generated memory read."""
    cfg = cfg or {}
    m = _m()
    if depth <= 0 or draw(st.integers(0, 7)) == 0:
        return draw(leaf(w, cfg))
    sub = lambda ww: free_expr(ww, depth - 1, cfg)
    kinds = ['nary', 'nary', 'binw', 'binw', 'neg', 'cond', 'slice', 'cnt']
    if w >= 2:
        kinds += ['compose', 'compose', 'zext', 'sext']
    if w == 1:
        kinds += ['cmp', 'cmp', 'cmp', 'flag2', 'flag2', 'flag3', 'cc', 'parity', 'flag_eq']
    if cfg.get("mem", True) and (w % 8 == 0 or draw(st.integers(0, 15)) == 0) and w <= 128:
        kinds += ['mem']
    if cfg.get("pow"):
        kinds += ['pow']
    kind = draw(st.sampled_from(kinds))
    if kind == 'nary':
        op = draw(st.sampled_from(NARY))
        n = draw(st.sampled_from([2, 2, 2, 3]))
        return m.ExprOp(op, *[draw(sub(w)) for _ in range(n)])
    if kind == 'binw':
        op = draw(st.sampled_from(BINW))
        return m.ExprOp(op, draw(sub(w)), draw(sub(w)))
    if kind == 'pow':
        return m.ExprOp('**', draw(sub(w)), draw(sub(w)))
    if kind == 'neg':
        return m.ExprOp('-', draw(sub(w)))
    if kind == 'cnt':
        return m.ExprOp(draw(st.sampled_from(['cntleadzeros', 'cnttrailzeros'])), draw(sub(w)))
    if kind == 'cond':
        cw = draw(st.one_of(st.just(1), st.just(w), widths(1, 64)))
        return m.ExprCond(draw(sub(cw)), draw(sub(w)), draw(sub(w)))
    if kind == 'slice':
        hi = cfg.get("maxw", 128)
        if w >= hi:
            return draw(leaf(w, cfg))
        w2 = draw(st.one_of(st.sampled_from([x for x in (2 * w, w + 1, w + 8, 8, 16, 32, 64, 128) if w < x <= hi] or [w + 1]),
                            st.integers(w + 1, hi)))
        start = draw(st.sampled_from(sorted({0, w2 - w, (w2 - w) // 2, min(w, w2 - w)})))
        return m.ExprSlice(draw(sub(w2)), start, start + w)
    if kind == 'compose':
        nparts = draw(st.integers(2, min(4, w)))
        cuts = sorted(draw(st.lists(st.integers(1, w - 1), min_size=nparts - 1, max_size=nparts - 1, unique=True)))
        bounds = [0] + cuts + [w]
        parts = [draw(sub(bounds[i + 1] - bounds[i])) for i in range(len(bounds) - 1)]
        return m.ExprCompose(*parts)
    if kind in ('zext', 'sext'):
        w2 = draw(st.one_of(st.sampled_from([x for x in (1, w // 2, w - 1, 8, 16, 32) if 1 <= x < w]), st.integers(1, w - 1)))
        return m.ExprOp("%s_%d" % ("zeroExt" if kind == 'zext' else "signExt", w), draw(sub(w2)))
    if kind == 'cmp':
        w2 = draw(widths(1, cfg.get("maxw", 128)))
        return m.ExprOp(draw(st.sampled_from(CMP)), draw(sub(w2)), draw(sub(w2)))
    if kind == 'parity':
        w2 = draw(widths(1, 64))
        return m.ExprOp('parity', draw(sub(w2)))
    if kind == 'flag_eq':
        w2 = draw(widths(1, 64))
        return m.ExprOp('FLAG_EQ', draw(sub(w2)))
    if kind == 'flag2':
        w2 = draw(widths(1, 64))
        return m.ExprOp(draw(st.sampled_from(FLAG2)), draw(sub(w2)), draw(sub(w2)))
    if kind == 'flag3':
        w2 = draw(widths(1, 64))
        return m.ExprOp(draw(st.sampled_from(FLAG3)), draw(sub(w2)), draw(sub(w2)), draw(sub(1)))
    if kind == 'cc':
        op = draw(st.sampled_from(sorted(CC)))
        return m.ExprOp(op, *[draw(sub(1)) for _ in range(CC[op])])
    if kind == 'mem':
        return draw(mem(w, depth, cfg))
    raise AssertionError(kind)


# ----------------------------------------------------------------------------
# rule-directed templates: each returns an expression of arbitrary width whose shape is the
# left-hand side of one family of rewrite rules.


def _sub(w, d=1, cfg=None):
    return free_expr(w, d, cfg or {"mem": False})


@st.composite
def t_ext_cmp_cst(draw):
    """ext(A) cmp int, with the constant placed around 2^A.size and the signed range bounds"""
    m = _m()
    ws = draw(widths(1, 32))
    wd = draw(st.one_of(st.sampled_from([ws + 1, 2 * ws, ws + 8, 64]), st.integers(ws + 1, ws + 64)))
    if wd <= ws:
        wd = ws + 1
    A = draw(_sub(ws))
    ext = draw(st.sampled_from(["zeroExt", "signExt"]))
    X = m.ExprOp("%s_%d" % (ext, wd), A)
    md = (1 << wd) - 1
    b = 1 << ws
    h = 1 << (ws - 1)
    cands = [0, 1, b - 1, b, b + 1, h - 1, h, h + 1, md, md - 1, (md - h) & md, (md - h + 1) & md, (md - h + 2) & md,
             (md - b + 1) & md, (md - b) & md, (1 << (wd - 1)), (1 << (wd - 1)) - 1, 2 * b, b | 1]
    c = draw(st.one_of(st.sampled_from(cands), st.integers(0, md)))
    op = draw(st.sampled_from(CMP))
    return m.ExprOp(op, X, m.ExprInt(c, wd))


@st.composite
def t_ext_logic_cond(draw):
    """(zeroExt(X) op ... op int) ? A : B   and   (zeroExt(X) & ... & int) == int   and slices of them"""
    m = _m()
    ws = draw(widths(1, 16))
    wd = draw(st.sampled_from([ws + 1, 2 * ws, 32, 64]))
    if wd <= ws:
        wd = ws + 1
    op = draw(st.sampled_from(['&', '|', '^', '+']))
    n = draw(st.integers(1, 2))
    same = draw(st.booleans())
    args = []
    for _ in range(n):
        w_i = ws if same else draw(st.integers(1, wd - 1))
        args.append(m.ExprOp("zeroExt_%d" % wd, draw(_sub(w_i))))
    md = (1 << wd) - 1
    cst = draw(st.one_of(st.sampled_from([1 << ws, (1 << ws) - 1, (1 << ws) + 1, md, 1 << (wd - 1), 1, 0]),
                         st.integers(0, md)))
    args.append(m.ExprInt(cst, wd))
    body = m.ExprOp(op, *args)
    shape = draw(st.integers(0, 3))
    if shape == 0:
        wr = draw(widths(1, 32))
        return m.ExprCond(body, draw(_sub(wr, 0)), draw(_sub(wr, 0)))
    if shape == 1:
        c2 = draw(st.one_of(st.just(cst), st.sampled_from([0, 1, (1 << ws) - 1, 1 << ws, md]), st.integers(0, md)))
        return m.ExprOp('==', body, m.ExprInt(c2, wd))
    if shape == 2:
        stop = draw(st.sampled_from(sorted({ws, max(1, ws - 1), min(wd, ws + 1), 8 if 8 <= wd else ws})))
        return m.ExprSlice(body, 0, stop)
    wr = draw(widths(1, 32))
    c2 = draw(st.sampled_from([cst, 1 << (wd - 1), 1, 1 << ws]))
    return m.ExprCond(m.ExprOp('==', body, m.ExprInt(c2, wd)), draw(_sub(wr, 0)), draw(_sub(wr, 0)))


@st.composite
def t_cmp_int(draw):
    """{X, 0} == int ; X + int1 == int2 ; X ^ int1 == int2 ; A + B == A ; X + A == X + B"""
    m = _m()
    shape = draw(st.integers(0, 4))
    if shape == 0:
        ws = draw(widths(1, 32))
        wz = draw(st.integers(1, 32))
        X = draw(_sub(ws))
        comp = m.ExprCompose(X, m.ExprInt(0, wz))
        md = (1 << (ws + wz)) - 1
        c = draw(st.one_of(st.sampled_from([0, (1 << ws) - 1, 1 << ws, (1 << ws) + 1, md, (1 << ws) | 1]), st.integers(0, md)))
        return m.ExprOp('==', comp, m.ExprInt(c, ws + wz))
    w = draw(widths(1, 64))
    X = draw(_sub(w))
    if shape in (1, 2):
        op = '+' if shape == 1 else '^'
        extra = [draw(_sub(w, 0))] if draw(st.booleans()) else []
        left = m.ExprOp(op, X, *(extra + [draw(ints(w))]))
        cmpop = draw(st.sampled_from(['==', '==', '<u', '<=u', '<s', '<=s']))
        return m.ExprOp(cmpop, left, draw(ints(w)))
    A, B = draw(_sub(w, 0)), draw(_sub(w, 0))
    op = draw(st.sampled_from(['+', '^']))
    if shape == 3:
        return m.ExprOp('==', m.ExprOp(op, A, B), draw(st.sampled_from([A, B, X])))
    return m.ExprOp('==', m.ExprOp(op, X, A), m.ExprOp(op, X, B))


@st.composite
def t_cc(draw):
    """CC_x(FLAG_y(A, B), ...) with shared or different arguments"""
    m = _m()
    w = draw(widths(1, 64))
    A, B = draw(_sub(w, 0)), draw(_sub(w, 0))
    if draw(st.integers(0, 3)) == 0:
        B = m.ExprInt(0, w)
    pats = [("CC_U>=", ["FLAG_SUB_CF"]), ("CC_U<", ["FLAG_SUB_CF"]), ("CC_NEG", ["FLAG_SIGN_SUB"]),
            ("CC_POS", ["FLAG_SIGN_SUB"]), ("CC_EQ", ["FLAG_EQ"]), ("CC_NE", ["FLAG_EQ"]),
            ("CC_NE", ["FLAG_EQ_CMP"]), ("CC_EQ", ["FLAG_EQ_CMP"]), ("CC_NE", ["FLAG_EQ_AND"]),
            ("CC_EQ", ["FLAG_EQ_AND"]), ("CC_S>", ["FLAG_SIGN_SUB", "FLAG_SUB_OF", "FLAG_EQ_CMP"]),
            ("CC_S>", ["FLAG_SIGN_SUB", "0", "FLAG_EQ_CMP"]), ("CC_S>=", ["FLAG_SIGN_SUB", "FLAG_SUB_OF"]),
            ("CC_S>=", ["FLAG_SIGN_SUB", "0"]), ("CC_S<", ["FLAG_SIGN_SUB", "FLAG_SUB_OF"]),
            ("CC_S<=", ["FLAG_SIGN_SUB", "FLAG_SUB_OF", "FLAG_EQ_CMP"]),
            ("CC_S<=", ["FLAG_SIGN_SUB", "0", "FLAG_EQ_CMP"]), ("CC_U<=", ["FLAG_SUB_CF", "FLAG_EQ_CMP"]),
            ("CC_U>", ["FLAG_SUB_CF", "FLAG_EQ_CMP"]), ("CC_S<", ["FLAG_SIGN_ADD", "FLAG_ADD_OF"])]
    cc, fl = draw(st.sampled_from(pats))
    args = []
    for f in fl:
        if f == "0":
            args.append(m.ExprInt(0, 1))
        elif f == "FLAG_EQ":
            args.append(m.ExprOp(f, A))
        else:
            if draw(st.integers(0, 7)) == 0:
                args.append(m.ExprOp(f, B, A))
            else:
                args.append(m.ExprOp(f, A, B))
    e = m.ExprOp(cc, *args)
    if draw(st.booleans()):
        wr = draw(widths(1, 16))
        return m.ExprCond(e, draw(_sub(wr, 0)), draw(_sub(wr, 0)))
    return e


@st.composite
def t_subwc(draw):
    """FLAG_SUBWC_x(A, B, FLAG_SUB_CF(C, D)) and FLAG_SUB_CF(0, X), cond on flags"""
    m = _m()
    w = draw(widths(1, 32))
    w2 = draw(widths(1, 32))
    A, B = draw(_sub(w, 0)), draw(_sub(w, 0))
    C, D = draw(_sub(w2, 0)), draw(_sub(w2, 0))
    shape = draw(st.integers(0, 3))
    if shape == 0:
        op = draw(st.sampled_from(["FLAG_SUBWC_CF", "FLAG_SUBWC_OF", "FLAG_SIGN_SUBWC", "FLAG_EQ_SUBWC",
                                   "FLAG_ADDWC_CF", "FLAG_ADDWC_OF", "FLAG_SIGN_ADDWC", "FLAG_EQ_ADDWC"]))
        inner = draw(st.sampled_from(["FLAG_SUB_CF", "FLAG_ADD_CF"]))
        return m.ExprOp(op, A, B, m.ExprOp(inner, C, D))
    if shape == 1:
        return m.ExprOp("FLAG_SUB_CF", m.ExprInt(0, w), A)
    wr = draw(widths(1, 16))
    x, y = draw(_sub(wr, 0)), draw(_sub(wr, 0))
    if shape == 2:
        f = draw(st.sampled_from(["FLAG_SUB_CF", "FLAG_EQ_CMP", "FLAG_ADD_CF", "FLAG_SIGN_SUB", "FLAG_EQ_AND"]))
        return m.ExprCond(m.ExprOp(f, A, B), x, y)
    cc = draw(st.sampled_from(["CC_U<", "CC_U>=", "CC_EQ", "CC_NE"]))
    return m.ExprCond(m.ExprOp(cc, draw(_sub(1, 1))), x, y)


@st.composite
def t_cond_shapes(draw):
    """conditions of the shapes simp_cond* look at"""
    m = _m()
    w = draw(widths(1, 64))
    wr = draw(widths(1, 32))
    x, y = draw(_sub(wr, 1)), draw(_sub(wr, 1))
    a, b = draw(_sub(w, 0)), draw(_sub(w, 0))
    shape = draw(st.integers(0, 12))
    if shape == 0:
        c = m.ExprOp('==', a, m.ExprInt(0, w))
    elif shape == 1:
        k = draw(st.integers(0, w - 1))
        msk = m.ExprInt(1 << k, w)
        c = m.ExprOp('==', m.ExprOp('&', a, msk), draw(st.sampled_from([msk, m.ExprInt(0, w), m.ExprInt(1, w)])))
    elif shape == 2:
        c = m.ExprOp('&', a, m.ExprInt(1 << (w - 1), w))
    elif shape == 3:
        c = m.ExprOp(draw(st.sampled_from(['+', '^'])), a, b)
    elif shape == 4:
        c = m.ExprOp('-', a)
    elif shape == 5:
        c = m.ExprOp('|', a, draw(ints(w)))
    elif shape == 6:
        c = m.ExprCond(draw(_sub(1, 0)), draw(ints(w)), draw(ints(w)))
    elif shape == 7 and w >= 3:
        k = draw(st.integers(1, w - 2))
        c = m.ExprCompose(m.ExprInt(0, k), draw(_sub(1, 0)), m.ExprInt(0, w - k - 1))
    elif shape == 8:
        wd = w + draw(st.integers(1, 16))
        c = m.ExprOp(draw(st.sampled_from(["zeroExt_%d", "signExt_%d"])) % wd, a)
    elif shape == 9:
        op = draw(st.sampled_from(CMP))
        c = m.ExprOp(op, draw(ints(w)), a)
    elif shape == 10:
        op = draw(st.sampled_from(CMP))
        c = m.ExprOp(op, a, b)
        return m.ExprCond(c, m.ExprInt(1, 1), m.ExprInt(0, 1))
    elif shape == 11:
        c1 = draw(_sub(1, 0))
        inner = m.ExprCond(c1, x, y)
        return m.ExprCond(c1, draw(st.sampled_from([inner, x])), draw(st.sampled_from([inner, y])))
    else:
        c1 = draw(_sub(1, 1))
        # sub-expression equal to the condition inside the branches
        return m.ExprCond(c1, m.ExprCond(c1, x, y) if draw(st.booleans()) else x,
                          m.ExprOp('+', y, m.ExprOp("zeroExt_%d" % wr, c1)) if wr > 1 else y)
    return m.ExprCond(c, x, y)


@st.composite
def t_shift_rot(draw):
    """nested shifts / rotates with constant counts around the width, shifts of compositions, slices of shifts"""
    m = _m()
    w = draw(widths(2, 64))
    a = draw(_sub(w, 1))
    cnt = lambda: m.ExprInt(draw(st.one_of(st.sampled_from([0, 1, w - 1, w, w + 1, 2 * w, (1 << w) - 1, 1 << (w - 1), w // 2]),
                                           st.integers(0, (1 << w) - 1))) & ((1 << w) - 1), w)
    shape = draw(st.integers(0, 6))
    if shape == 0:
        o1, o2 = draw(st.sampled_from(['<<<', '>>>'])), draw(st.sampled_from(['<<<', '>>>']))
        c1 = cnt()
        c2 = draw(st.sampled_from([c1, cnt()]))
        return m.ExprOp(o2, m.ExprOp(o1, a, c1), c2)
    if shape == 1:
        o1, o2 = draw(st.sampled_from(['<<', '>>', 'a>>'])), draw(st.sampled_from(['<<', '>>', 'a>>']))
        c1 = cnt()
        c2 = draw(st.sampled_from([c1, cnt()]))
        return m.ExprOp(o2, m.ExprOp(o1, a, c1), c2)
    if shape == 2:
        k = draw(st.integers(1, w - 1))
        comp = m.ExprCompose(draw(_sub(k, 0)), draw(_sub(w - k, 0)))
        return m.ExprOp(draw(st.sampled_from(['<<', '>>'])), comp, cnt())
    if shape == 3:
        o = draw(st.sampled_from(['<<', '>>']))
        start = draw(st.integers(0, w - 1))
        stop = draw(st.integers(start + 1, w))
        return m.ExprSlice(m.ExprOp(o, a, cnt()), start, stop)
    if shape == 4:
        msk = draw(ints(w))
        return m.ExprOp('>>', m.ExprOp('&', a, msk), cnt())
    if shape == 5:
        # X + (X << k), X*c + (-X)
        k = draw(st.integers(0, w + 1)) & ((1 << w) - 1)
        parts = [a, m.ExprOp('<<', a, m.ExprInt(k, w))]
        if draw(st.booleans()):
            parts.append(m.ExprOp('-', a))
        if draw(st.booleans()):
            parts.append(m.ExprOp('*', a, draw(ints(w))))
        return m.ExprOp('+', *parts)
    o = draw(st.sampled_from(['<<', '>>', 'a>>', '<<<', '>>>']))
    return m.ExprOp(o, a, draw(st.one_of(st.just(cnt()), _sub(w, 1))))


@st.composite
def t_slice_compose(draw):
    """slices of slices / compositions / ext / mem / conds / mul; compositions of adjacent slices and memory"""
    m = _m()
    shape = draw(st.integers(0, 9))
    w = draw(widths(2, 64))
    start = draw(st.integers(0, w - 1))
    stop = draw(st.integers(start + 1, w))
    if shape == 0:
        k = draw(st.integers(1, w - 1))
        parts = [draw(_sub(k, 0)), draw(_sub(w - k, 0))]
        return m.ExprSlice(m.ExprCompose(*parts), start, stop)
    if shape == 1:
        ws = draw(st.integers(1, w - 1)) if w > 1 else 1
        ext = draw(st.sampled_from(["zeroExt_%d", "signExt_%d"])) % w
        return m.ExprSlice(m.ExprOp(ext, draw(_sub(ws, 0))), start, stop)
    if shape == 2:
        pw = draw(st.sampled_from(PTR_WIDTHS))
        wm = draw(st.sampled_from([16, 32, 64, 24]))
        e = m.ExprMem(draw(_sub(pw, 1)), wm)
        st_ = draw(st.sampled_from([0, 0, 8, 3]))
        sp = draw(st.sampled_from([x for x in (8, 16, 12, wm - 8, wm) if st_ < x <= wm]))
        return m.ExprSlice(e, st_, sp)
    if shape == 3:
        c = draw(_sub(1, 0))
        return m.ExprSlice(m.ExprCond(c, draw(ints(w)), draw(ints(w))), start, stop)
    if shape == 4:
        return m.ExprSlice(m.ExprOp('*', draw(_sub(w, 0)), draw(ints(w))), 0, stop)
    if shape == 5:
        return m.ExprSlice(m.ExprOp('&', draw(_sub(w, 0)), draw(ints(w))), start, stop)
    if shape == 6:
        # adjacent slices of the same source
        src = draw(_sub(w, 0))
        k1 = draw(st.integers(0, w - 1))
        k2 = draw(st.integers(k1 + 1, w))
        k3 = draw(st.integers(k2, w))
        parts = [m.ExprSlice(src, k1, k2)]
        if k3 > k2:
            parts.append(m.ExprSlice(src, k2, k3))
        parts.append(draw(st.sampled_from([m.ExprInt(0, 8), draw(_sub(4, 0))])))
        return m.ExprCompose(*parts)
    if shape == 7:
        # adjacent memory cells
        pw = draw(st.sampled_from(PTR_WIDTHS))
        base = draw(_sub(pw, 0))
        s1 = draw(st.sampled_from([8, 16, 32, 12]))
        s2 = draw(st.sampled_from([8, 16, 32]))
        gap = draw(st.sampled_from([s1 // 8, s1 // 8, s1 // 8 + 1, 0, ((1 << pw) - 1)]))
        p2 = m.ExprOp('+', base, m.ExprInt(gap, pw))
        return m.ExprCompose(m.ExprMem(base, s1), m.ExprMem(p2, s2))
    if shape == 8:
        # {X[z:], 0} and {A, signext(A)[n:2n]} and compose & mask
        X = draw(_sub(w, 0))
        z = draw(st.integers(1, w - 1))
        return m.ExprCompose(m.ExprSlice(X, z, w), m.ExprInt(0, z))
    X = draw(_sub(w, 0))
    k = draw(st.integers(1, w - 1))
    comp = m.ExprCompose(draw(_sub(k, 0)), draw(st.one_of(_sub(w - k, 0), ints(w - k))))
    msk = draw(st.sampled_from([(1 << k) - 1, (1 << w) - 1, 0xff, 0xffff, (1 << (k + 1)) - 1, (1 << max(k - 1, 1)) - 1]))
    return m.ExprOp('&', comp, m.ExprInt(msk & ((1 << w) - 1), w))


@st.composite
def t_misc(draw):
    """double ext, ext == ext, ext of cond, smod of sign extensions, compose of conds, op of conds, mem of cond"""
    m = _m()
    shape = draw(st.integers(0, 8))
    ws = draw(widths(1, 32))
    wd = ws + draw(st.integers(1, 32))
    wd2 = wd + draw(st.integers(1, 32))
    A, B = draw(_sub(ws, 0)), draw(_sub(ws, 0))
    e1 = draw(st.sampled_from(["zeroExt", "signExt"]))
    e2 = draw(st.sampled_from(["zeroExt", "signExt"]))
    if shape == 0:
        return m.ExprOp("%s_%d" % (e2, wd2), m.ExprOp("%s_%d" % (e1, wd), A))
    if shape == 1:
        ws2 = draw(st.sampled_from([ws, ws, max(1, ws - 1)]))
        B2 = draw(_sub(ws2, 0))
        return m.ExprOp('==', m.ExprOp("%s_%d" % (e1, wd), A), m.ExprOp("%s_%d" % (e2, wd), B2))
    if shape == 2:
        c = draw(_sub(1, 0))
        return m.ExprOp("%s_%d" % (e1, wd), m.ExprCond(c, draw(ints(ws)), draw(ints(ws))))
    if shape == 3:
        l = m.ExprOp("signExt_%d" % wd, A)
        r = draw(st.one_of(st.just(m.ExprOp("signExt_%d" % wd, B)), ints(wd)))
        if draw(st.booleans()):
            l, r = r, l
        return m.ExprOp(draw(st.sampled_from(['smod', 'sdiv', 'umod'])), l, r)
    c = draw(_sub(1, 0))
    c2 = draw(st.sampled_from([c, draw(_sub(1, 0))]))
    x1, y1, x2, y2 = [draw(_sub(ws, 0)) for _ in range(4)]
    if shape == 4:
        return m.ExprCompose(draw(_sub(3, 0)), m.ExprCond(c, x1, y1), m.ExprCond(c2, x2, y2))
    if shape == 5:
        op = draw(st.sampled_from(["+", "|", "^", "&", "*", '<<', '>>', 'a>>']))
        return m.ExprOp(op, m.ExprCond(c, x1, y1), draw(st.sampled_from([m.ExprCond(c2, x2, y2), x2])))
    if shape == 6:
        pw = draw(st.sampled_from(PTR_WIDTHS))
        return m.ExprMem(m.ExprCond(c, draw(_sub(pw, 0)), draw(_sub(pw, 0))), draw(st.sampled_from([8, 16, 32, 64])))
    if shape == 7:
        # compose & compose with same bounds
        op = draw(st.sampled_from(['&', '|', '^']))
        k = draw(st.integers(1, 16))
        mk = lambda: m.ExprCompose(draw(_sub(ws, 0)), draw(_sub(k, 0)))
        return m.ExprOp(op, mk(), mk())
    # products with negations
    args = [draw(st.sampled_from([A, m.ExprOp('-', A), B, m.ExprOp('-', B), draw(ints(ws))])) for _ in range(draw(st.integers(2, 4)))]
    e = m.ExprOp('*', *args)
    return m.ExprOp('-', e) if draw(st.booleans()) else e


TEMPLATES = [t_ext_cmp_cst, t_ext_logic_cond, t_cmp_int, t_cc, t_subwc, t_cond_shapes, t_shift_rot,
             t_slice_compose, t_misc]


@st.composite
def any_expr(draw, depth=3, cfg=None):
    """union of free trees and rule-directed templates; returns (tag, expr)"""
    k = draw(st.integers(0, len(TEMPLATES) + 5))
    if k < len(TEMPLATES):
        t = TEMPLATES[k]
        e = draw(t())
        # optionally embed the template inside a small context
        if draw(st.integers(0, 3)) == 0:
            m = _m()
            w = e.size
            ctx = draw(st.integers(0, 2))
            if ctx == 0:
                e = m.ExprOp(draw(st.sampled_from(NARY)), e, draw(_sub(w, 0)))
            elif ctx == 1 and w < 64:
                e = m.ExprOp("zeroExt_%d" % (w + draw(st.integers(1, 16))), e)
            else:
                e = m.ExprCond(e, draw(_sub(8, 0)), draw(_sub(8, 0)))
        return (t.__name__, e)
    w = draw(widths(1, (cfg or {}).get("maxw", 128)))
    return ("free", draw(free_expr(w, draw(st.integers(1, depth)), cfg)))
