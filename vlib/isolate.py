"""Run a function in a forked child so that a dying process (exit() / abort() / SIGSEGV inside a
C extension) becomes a value, not a hung pool or a silent pass.

    status, value, journal = run_isolated(fn, timeout_s=...)
      status == "ok"      value = fn's return value (pickled through a pipe)
      status == "raised"  value = traceback text of the Python exception fn raised (harness error)
      status == "died"    value = "exit status N" / "signal N"; journal = last object the child
                          passed to note(obj) before dying (e.g. the history being executed)
      status == "timeout" the child was killed after timeout_s (inconclusive, never a verdict)

fn receives one argument `note`: note(obj) journals a picklable object to the parent; with
on_note the parent is called back with every journaled object (e.g. to keep partial results).
The child's stderr can be silenced (C code under test chatters with fprintf(stderr))."""
import os
import pickle
import select
import signal
import struct
import time
import traceback


def _send(fd, kind, obj):
    data = pickle.dumps((kind, obj), protocol=pickle.HIGHEST_PROTOCOL)
    data = struct.pack("<Q", len(data)) + data
    off = 0
    while off < len(data):
        off += os.write(fd, data[off:off + 65536])


def run_isolated(fn, timeout_s=None, quiet_stderr=True, on_note=None):
    r, w = os.pipe()
    pid = os.fork()
    if pid == 0:
        code = 0
        try:
            os.close(r)
            if quiet_stderr:
                dn = os.open(os.devnull, os.O_WRONLY)
                os.dup2(dn, 2)
                os.close(dn)
            try:
                val = fn(lambda obj: _send(w, "note", obj))
                _send(w, "ok", val)
            except BaseException:
                _send(w, "raised", traceback.format_exc())
        except BaseException:
            code = 97
        finally:
            os._exit(code)
    os.close(w)
    buf = bytearray()
    journal = None
    final = None
    t0 = time.time()
    timed_out = False
    while True:
        if timeout_s is not None:
            left = timeout_s - (time.time() - t0)
            if left <= 0:
                timed_out = True
                break
            rl, _, _ = select.select([r], [], [], min(left, 5.0))
            if not rl:
                continue
        chunk = os.read(r, 1 << 16)
        if not chunk:
            break
        buf += chunk
        while len(buf) >= 8:
            (n,) = struct.unpack_from("<Q", buf, 0)
            if len(buf) < 8 + n:
                break
            kind, obj = pickle.loads(bytes(buf[8:8 + n]))
            del buf[:8 + n]
            if kind == "note":
                journal = obj
                if on_note is not None:
                    on_note(obj)
            else:
                final = (kind, obj)
    os.close(r)
    if timed_out:
        try:
            os.kill(pid, signal.SIGKILL)
        except OSError:
            pass
    _, st = os.waitpid(pid, 0)
    if timed_out:
        return "timeout", None, journal
    if final is not None and os.WIFEXITED(st) and os.WEXITSTATUS(st) == 0:
        return final[0], final[1], journal
    if os.WIFSIGNALED(st):
        return "died", "signal %d" % os.WTERMSIG(st), journal
    return "died", "exit status %d" % os.WEXITSTATUS(st), journal
