"""Concrete interpreter of miasm IR, built on the reference evaluator vlib.refeval.S.

Independent of miasm.ir.symbexec / miasm.jitter: only the *structure* of IR objects is read
(AssignBlock = mapping dst -> src, IRBlock = sequence of AssignBlocks, IRCFG.blocks =
mapping LocKey -> IRBlock, LocationDB.get_location_offset).

Semantics
---------
* A *state* (class State) is a total concrete machine state: registers {(name, size) -> int}
  and a byte map {(pointer width, address) -> byte}; whatever is not set explicitly is a keyed
  hash (registers: of (key, name, size); memory: of (key, pointer width, address)), exactly the
  total model of refeval.Env, so every read is defined.  Memory is little-endian, addresses
  wrap at the pointer width.
* An AssignBlock is executed with *parallel* semantics: every source, every destination
  pointer and every "rest" of a sliced destination is evaluated in the state before the block,
  then all results are committed.  Two assignments of one block that write the same register
  bits / memory byte are outside the IR's domain: DomainError (callers drop the case).
* Destinations: ExprId, ExprMem (size multiple of 8), and -- for raw (dst, src) pair lists that did
  not go through miasm's AssignBlock constructor -- ExprSlice of an ExprId / ExprMem.
* A block's next location is the value of IRDst after its last AssignBlock.  `run_ircfg`
  follows it: the integer is mapped back to a LocKey through State.locs (LocKey -> int; filled
  by `bind_locs` from the LocationDB offsets, synthetic distinct values for locations without
  offset); execution stops when the destination is not a block of the graph (exit), or after
  `max_blocks` blocks, or when the step budget (number of AssignBlocks) is exhausted.
* Operators without evaluation rule in S (fpu, call_*, segm, ...) are a keyed hash of their
  argument values (State.uninterp_hash=True), i.e. pure functions, which is how the IR treats them.
  Division by zero raises refeval.Undefined: the input has no defined behaviour, callers drop it.

Entry points
------------
    run_assignblk(assignblk, state)                    -> None            (one parallel step)
    run_block(assignblks, state, irdst=None)           -> int | None      (value of IRDst, if assigned)
    run_ircfg(ircfg, head_loc, state, max_steps=10000, max_blocks=None, irdst=None) -> Run
    bind_locs(state, loc_db, loc_keys, width=32)       fill State.locs (LocKey -> int)
    loc_keys_of(ircfg)                                 LocKeys naming blocks or used in expressions

`assignblks` is any iterable of AssignBlock-like objects: a miasm AssignBlock, a dict
{dst: src}, or a list of (dst, src) pairs / ExprAssign.

Every memory write is logged in State.writes as (pointer width, address, nbytes, value, step);
reads of the current AssignBlock are available in State.reads (list of (pointer width, address)).
"""
from vlib.refeval import S, Env, mask, Undefined, Uninterpreted  # noqa: F401  (re-exported)


class DomainError(Exception):
    """the IR given is outside the domain of the IR semantics (concurrent writes to the same bits,
    unaligned memory destination, unknown destination kind)"""


class State(object):
    """Concrete machine state.  regs: {(name, size): int} or {name: int}; mem: {(pw, addr): byte}."""

    def __init__(self, regs=None, mem=None, key=0, locs=None, uninterp_hash=True):
        self.regs = dict(regs or {})
        self.mem = dict(mem or {})
        self.key = key
        self.locs = dict(locs or {})
        self.uninterp_hash = uninterp_hash
        self.writes = []       # (pw, addr, nbytes, value, step)
        self.reads = []        # (pw, addr) touched by the last AssignBlock
        self.all_reads = set()  # every (pw, addr) read so far
        self.steps = 0         # AssignBlocks executed

    def copy(self):
        st = State(self.regs, self.mem, self.key, self.locs, self.uninterp_hash)
        st.writes = list(self.writes)
        st.all_reads = set(self.all_reads)
        st.steps = self.steps
        return st

    def env(self):
        """refeval.Env view of the current state (shares the dictionaries)"""
        return Env(ids=self.regs, mem=self.mem, key=self.key, locs=self.locs, uninterp_hash=self.uninterp_hash)

    def eval(self, expr):
        return S(expr, self.env())

    def reg(self, name, size):
        return self.env().read_id(name, size)

    def read_mem(self, pw, addr, nbytes):
        env = self.env()
        return int.from_bytes(bytes(env.read_byte(pw, addr + i) for i in range(nbytes)), "little")

    def set_reg(self, name, size, value):
        self.regs.pop(name, None)
        self.regs[(name, size)] = value & mask(size)

    def write_mem(self, pw, addr, nbytes, value):
        for i in range(nbytes):
            self.mem[(pw, (addr + i) & mask(pw))] = (value >> (8 * i)) & 0xff
        self.writes.append((pw, addr & mask(pw), nbytes, value & mask(8 * nbytes), self.steps))


class Run(object):
    """Result of run_ircfg.  reason: 'exit' (destination is not a block of the graph),
    'max-blocks', 'budget' (step budget exhausted: non-terminating input), 'no-dst' (block without IRDst)."""

    def __init__(self):
        self.path = []          # LocKeys of the blocks executed, in order
        self.dst = None         # value of IRDst after the last executed block
        self.dst_loc = None     # LocKey it maps to (None when not a known location)
        self.reason = None
        self.steps = 0


def _pairs(assignblk):
    if hasattr(assignblk, "items"):
        return list(assignblk.items())
    out = []
    for a in assignblk:
        if isinstance(a, (tuple, list)):
            out.append((a[0], a[1]))
        else:
            out.append((a.dst, a.src))
    return out


def _cn(e):
    return e.__class__.__name__


def run_assignblk(assignblk, state):
    """Execute one AssignBlock on `state` with parallel semantics."""
    env = state.env()
    reg_parts = {}    # (name, size) -> [(start, stop, value)]
    mem_parts = []    # (pw, addr, nbytes, value)
    for dst, src in _pairs(assignblk):
        if dst.size != src.size:
            raise DomainError("width mismatch %s = %s" % (dst, src))
        val = S(src, env)
        start, stop = 0, dst.size
        target = dst
        if _cn(dst) == "ExprSlice":
            start, stop = dst.start, dst.stop
            target = dst.arg
        kind = _cn(target)
        if kind == "ExprId":
            reg_parts.setdefault((target.name, target.size), []).append((start, stop, val))
        elif kind == "ExprMem":
            if target.size % 8 or start % 8 or stop % 8:
                raise DomainError("memory destination not byte aligned: %s" % dst)
            addr = S(target.ptr, env)
            mem_parts.append((target.ptr.size, (addr + start // 8) & mask(target.ptr.size), (stop - start) // 8, val))
        else:
            raise DomainError("destination kind %s" % kind)
    state.reads = list(env.touched)
    state.all_reads.update(env.touched)
    # conflicts
    for key, parts in reg_parts.items():
        parts.sort()
        for (s1, e1, _), (s2, e2, _) in zip(parts, parts[1:]):
            if s2 < e1:
                raise DomainError("concurrent assignment of %s[%d:%d] and [%d:%d]" % (key[0], s1, e1, s2, e2))
    seen = set()
    for pw, addr, n, _ in mem_parts:
        for i in range(n):
            k = (pw, (addr + i) & mask(pw))
            if k in seen:
                raise DomainError("concurrent memory writes at 0x%x" % k[1])
            seen.add(k)
    # commit (old values of the untouched bits were read before any commit)
    new_regs = {}
    for (name, size), parts in reg_parts.items():
        cur = env.read_id(name, size)
        for start, stop, val in parts:
            m = mask(stop - start) << start
            cur = (cur & ~m) | ((val << start) & m)
        new_regs[(name, size)] = cur
    state.steps += 1
    for (name, size), v in new_regs.items():
        state.set_reg(name, size, v)
    for pw, addr, n, val in mem_parts:
        state.write_mem(pw, addr, n, val)


def run_block(assignblks, state, irdst=None):
    """Execute a sequence of AssignBlocks (an IRBlock, or a list).  Returns the value of the
    destination register `irdst` (an ExprId, default: the identifier named IRDst assigned last in
    the block) after the block, or None when the block never assigns it."""
    dst_id = irdst
    assigned = False
    for blk in assignblks:
        for d, _ in _pairs(blk):
            t = d.arg if _cn(d) == "ExprSlice" else d
            if _cn(t) == "ExprId" and (t.name == "IRDst" if irdst is None else (t.name == irdst.name)):
                dst_id = t
                assigned = True
        run_assignblk(blk, state)
    if not assigned:
        return None
    return state.reg(dst_id.name, dst_id.size)


def bind_locs(state, loc_db, loc_keys, width=32):
    """Give every LocKey of loc_keys a concrete value in state.locs: its offset in loc_db when it
    has one, else a distinct synthetic value near the top of the `width`-bit space (0x7E000000 + 0x10 * key
    index for width >= 32, 0x7E00 + 4 * index for narrower destinations), so that S evaluates ExprLoc
    consistently on every side of a comparison.  Values are compared modulo 2^width by run_ircfg."""
    used = set(v & mask(width) for v in state.locs.values())
    base, step = (0x7E000000, 0x10) if width >= 32 else (0x7E00 & mask(width), 4)
    for lk in sorted(loc_keys, key=lambda k: k.key):
        if lk in state.locs:
            continue
        off = loc_db.get_location_offset(lk)
        if off is None:
            off = (base + step * lk.key) & mask(width)
            while off in used:
                off = (off + 1) & mask(width)
        state.locs[lk] = off
        used.add(off & mask(width))


def loc_keys_of(ircfg):
    """every LocKey naming a block or appearing in an expression of the graph"""
    out = set(ircfg.blocks)

    def walk(e):
        cn = _cn(e)
        if cn == "ExprLoc":
            out.add(e.loc_key)
        elif cn == "ExprMem":
            walk(e.ptr)
        elif cn == "ExprSlice":
            walk(e.arg)
        elif cn in ("ExprOp", "ExprCompose"):
            for a in e.args:
                walk(a)
        elif cn == "ExprCond":
            walk(e.cond)
            walk(e.src1)
            walk(e.src2)
    for blk in ircfg.blocks.values():
        for ab in blk:
            for d, s in _pairs(ab):
                walk(d)
                walk(s)
    return out


def run_ircfg(ircfg, head_loc, state, max_steps=10000, max_blocks=None, irdst=None):
    """Execute the graph from block `head_loc` (a LocKey).  See module docstring.  -> Run"""
    if irdst is None:
        irdst = getattr(ircfg, "IRDst", None)
    width = irdst.size if irdst is not None else 32
    bind_locs(state, ircfg.loc_db, loc_keys_of(ircfg), width)
    by_value = {}
    for lk in ircfg.blocks:
        v = state.locs[lk] & mask(width)
        if v in by_value:
            raise DomainError("two blocks share the address 0x%x" % v)
        by_value[v] = lk
    run = Run()
    cur = head_loc
    start_steps = state.steps
    while True:
        blk = ircfg.blocks.get(cur)
        if blk is None:
            run.reason = "exit"
            break
        if max_blocks is not None and len(run.path) >= max_blocks:
            run.reason = "max-blocks"
            break
        if state.steps - start_steps + len(blk) > max_steps:
            run.reason = "budget"
            break
        run.path.append(cur)
        dst = run_block(blk, state, irdst)
        run.dst = dst
        if dst is None:
            run.reason = "no-dst"
            run.dst_loc = None
            break
        cur = by_value.get(dst)
        run.dst_loc = cur
        if cur is None:
            # destination may still be a location without block
            for lk, v in state.locs.items():
                if v & mask(width) == dst:
                    run.dst_loc = lk
                    break
            run.reason = "exit"
            break
    run.steps = state.steps - start_steps
    return run
