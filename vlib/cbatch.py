"""Compile TranslatorC output against the tree's own arithmetic runtime and evaluate it in child processes.

Session(scratch): compiles REPO/miasm/jitter/op_semantics.c and bn.c once (flags of the extension build of this
interpreter: -O3 -DNDEBUG -fno-strict-overflow; `exit` renamed so that the runtime's explicit refusals come back
as a status instead of ending the child).  evaluate(items) translates every expression, wraps the C text of each
into `void f_i(const uint64_t *in, uint64_t *out)`, compiles ONE shared object for the batch, and runs every
(expression, assignment) in a child process (a small C runner that dlopens the object) whose fd 1 is a file.  A
child that dies is restarted after the call that killed it; that call is then re-run alone in a fresh child to
confirm the attribution.

MEM_LOOKUP_* are provided here: memory is a total function of the 64-bit address (splitmix64 of address and key),
little-endian, so that the translator and the arithmetic runtime are exercised, not the VM.
"""
import struct
import os
import re
import signal
import subprocess
import sysconfig

from vlib.runner import REPO
from vlib import simplab, transl
from vlib.refeval import mask

M64 = (1 << 64) - 1
CPU_LIMIT_S = 2


def splitmix64(x):
    x = (x + 0x9E3779B97F4A7C15) & M64
    z = x
    z = ((z ^ (z >> 30)) * 0xBF58476D1CE4E5B9) & M64
    z = ((z ^ (z >> 27)) * 0x94D049BB133111EB) & M64
    return z ^ (z >> 31)


class CEnv(transl.FlatEnv):
    """memory of the C harness: byte(addr) = splitmix64(addr ^ splitmix64(key)) & 0xff, addresses modulo 2^64"""
    wrap_bits = 64

    def read_byte(self, pw, addr):
        addr &= M64
        self.touched.append((pw, addr))
        return splitmix64(addr ^ splitmix64(self.key)) & 0xff


PRELUDE = r'''
#include <stdint.h>
#include <stdio.h>
#include <stdlib.h>
#include <string.h>
#include <setjmp.h>
#include <signal.h>
#include <sys/time.h>
#include <unistd.h>
#include "op_semantics.h"
#include "bn.h"

typedef struct { int unused; } JitCpu;
static JitCpu verif_jitcpu;
static JitCpu *jitcpu = &verif_jitcpu;
static uint64_t verif_key;

static uint64_t verif_mix(uint64_t x)
{
	uint64_t z;
	x += 0x9E3779B97F4A7C15ULL;
	z = x;
	z = (z ^ (z >> 30)) * 0xBF58476D1CE4E5B9ULL;
	z = (z ^ (z >> 27)) * 0x94D049BB133111EBULL;
	return z ^ (z >> 31);
}
static uint8_t verif_byte(uint64_t addr) { return (uint8_t)(verif_mix(addr ^ verif_key) & 0xff); }
static uint64_t verif_read(uint64_t addr, int nbytes)
{
	uint64_t v = 0; int i;
	for (i = 0; i < nbytes; i++) v |= ((uint64_t)verif_byte(addr + i)) << (8 * i);
	return v;
}
uint8_t MEM_LOOKUP_08(JitCpu* j, uint64_t addr) { (void)j; return (uint8_t)verif_read(addr, 1); }
uint16_t MEM_LOOKUP_16(JitCpu* j, uint64_t addr) { (void)j; return (uint16_t)verif_read(addr, 2); }
uint32_t MEM_LOOKUP_32(JitCpu* j, uint64_t addr) { (void)j; return (uint32_t)verif_read(addr, 4); }
uint64_t MEM_LOOKUP_64(JitCpu* j, uint64_t addr) { (void)j; return verif_read(addr, 8); }
/* same construction as JitCore.c: byte i goes to bits 8i.. */
bn_t MEM_LOOKUP_INT_BN(JitCpu* j, int size, uint64_t addr)
{
	int i; bn_t val = bignum_from_int(0); (void)j;
	for (i = 0; i < size; i += 8) {
		val = bignum_or(val, bignum_lshift(bignum_from_int(verif_byte(addr)), i));
		addr += 1;
	}
	return val;
}
bn_t MEM_LOOKUP_BN_BN(JitCpu* j, int size, bn_t addr) { return MEM_LOOKUP_INT_BN(j, size, bignum_to_uint64(addr)); }
uint64_t MEM_LOOKUP_BN_INT(JitCpu* j, int size, bn_t addr) { (void)j; return verif_read(bignum_to_uint64(addr), size / 8); }

static bn_t verif_bn_in(const uint64_t *w) { bn_t r; memcpy(r.array, w, 32); return r; }
static void verif_bn_out(bn_t v, uint64_t *w) { memcpy(w, v.array, 32); }

static sigjmp_buf verif_jb;
static volatile int verif_armed;
void verif_exit(int code) { if (verif_armed) siglongjmp(verif_jb, 1000 + (code & 0xff)); _exit(97); }
static void verif_on_timer(int sig) { (void)sig; if (verif_armed) siglongjmp(verif_jb, 2000); }
void verif_init(void)
{
	struct sigaction sa;
	memset(&sa, 0, sizeof(sa));
	sa.sa_handler = verif_on_timer;
	sigaction(SIGVTALRM, &sa, NULL);
}
typedef void (*verif_fn)(const uint64_t *, uint64_t *);
extern const verif_fn verif_table[];
extern const int verif_table_len;
/* 0 = returned, 1000+c = the runtime called exit(c), 2000 = cpu limit, 3000 = no such function */
int verif_call(int idx, const uint64_t *in, uint64_t *out, int cpu_seconds)
{
	struct itimerval it, off;
	int rc;
	if (idx < 0 || idx >= verif_table_len || !verif_table[idx]) return 3000;
	memset(&it, 0, sizeof(it)); memset(&off, 0, sizeof(off));
	it.it_value.tv_sec = cpu_seconds;
	verif_key = verif_mix(in[0]);
	rc = sigsetjmp(verif_jb, 1);
	if (rc == 0) {
		verif_armed = 1;
		setitimer(ITIMER_VIRTUAL, &it, NULL);
		verif_table[idx](in + 1, out);
	}
	verif_armed = 0;
	setitimer(ITIMER_VIRTUAL, &off, NULL);
	return rc;
}
'''


RUNNER_C = r'''
#define _GNU_SOURCE
#include <stdio.h>
#include <stdlib.h>
#include <stdint.h>
#include <string.h>
#include <unistd.h>
#include <fcntl.h>
#include <dlfcn.h>
#include <sys/stat.h>

/* verif_runner so plan res out err start only_one cpu_seconds
   Evaluates plan[start..] (or plan[start] alone) with fd 1 / fd 2 redirected to files; one line per event in res:
   B k (call k begins), R k rc o0 o1 o2 o3, S k size0 size1 (stdout grew), E k hex (stderr text of a refused call). */
typedef int (*call_fn)(int, const uint64_t *, uint64_t *, int);
typedef void (*init_fn)(void);

static off_t fsize(int fd) { struct stat st; if (fstat(fd, &st)) return 0; return st.st_size; }

int main(int argc, char **argv)
{
	int fo, fe, rfd, efd, start, only_one, cpu, k;
	uint32_t n, i;
	void *h;
	call_fn call;
	init_fn init;
	FILE *pf;
	int32_t *idx; uint32_t *nw; uint64_t **words;
	off_t s0, e0;
	if (argc != 9) return 98;
	rfd = open(argv[3], O_WRONLY | O_CREAT | O_TRUNC, 0600);
	fo = open(argv[4], O_WRONLY | O_CREAT | O_APPEND, 0600);
	fe = open(argv[5], O_WRONLY | O_CREAT | O_APPEND, 0600);
	efd = open(argv[5], O_RDONLY);
	if (rfd < 0 || fo < 0 || fe < 0 || efd < 0) return 98;
	start = atoi(argv[6]); only_one = atoi(argv[7]); cpu = atoi(argv[8]);
	pf = fopen(argv[2], "rb");
	if (!pf || fread(&n, 4, 1, pf) != 1) { dprintf(rfd, "X cannot read the plan\n"); return 98; }
	idx = malloc(n * sizeof(*idx)); nw = malloc(n * sizeof(*nw)); words = malloc(n * sizeof(*words));
	for (i = 0; i < n; i++) {
		if (fread(&idx[i], 4, 1, pf) != 1 || fread(&nw[i], 4, 1, pf) != 1) { dprintf(rfd, "X short plan\n"); return 98; }
		words[i] = malloc((nw[i] + 1) * 8);
		if (fread(words[i], 8, nw[i], pf) != nw[i]) { dprintf(rfd, "X short plan\n"); return 98; }
	}
	fclose(pf);
	dup2(fo, 1); dup2(fe, 2);
	h = dlopen(argv[1], RTLD_NOW | RTLD_LOCAL);
	if (!h) { dprintf(rfd, "X dlopen: %s\n", dlerror()); return 98; }
	init = (init_fn)dlsym(h, "verif_init");
	call = (call_fn)dlsym(h, "verif_call");
	if (!init || !call) { dprintf(rfd, "X missing entry points\n"); return 98; }
	init();
	s0 = fsize(1); e0 = fsize(2);
	for (k = start; k < (int)n; k++) {
		uint64_t out[4] = {0, 0, 0, 0};
		int rc;
		off_t s1;
		dprintf(rfd, "B %d\n", k);
		rc = call(idx[k], words[k], out, cpu);
		dprintf(rfd, "R %d %d %llx %llx %llx %llx\n", k, rc, (unsigned long long)out[0], (unsigned long long)out[1],
			(unsigned long long)out[2], (unsigned long long)out[3]);
		fflush(NULL);
		s1 = fsize(1);
		if (s1 != s0) { dprintf(rfd, "S %d %lld %lld\n", k, (long long)s0, (long long)s1); s0 = s1; }
		if (rc != 0) {
			off_t e1 = fsize(2);
			if (e1 != e0) {
				unsigned char buf[120]; ssize_t got, j;
				got = pread(efd, buf, sizeof(buf), e0);
				dprintf(rfd, "E %d ", k);
				for (j = 0; j < got; j++) dprintf(rfd, "%02x", buf[j]);
				dprintf(rfd, "\n");
				e0 = e1;
			}
		}
		if (only_one) break;
	}
	return 0;
}
'''


def ctype_of(size):
    for n in (8, 16, 32, 64):
        if size <= n:
            return "uint%d_t" % n
    return "bn_t"


def in_words(size):
    return 1 if size <= 64 else 4


class Item(object):
    """one expression with the assignments to run"""

    def __init__(self, expr, envs):
        self.expr = expr
        self.envs = envs
        self.ids = simplab.free_ids(expr)
        self.ctext = None           # C text of the translation
        self.translate = None       # ("ok",) | ("reject", msg) | ("exc", type, msg)
        self.compile_error = None   # gcc message when the function does not compile
        self.runs = {}              # env index -> (status, value)   status: "value" | "exit:<c>" | "cpu-limit" | "crash:<SIG>"
        self.stdout = b""
        self.stdout_t = None        # index of the first assignment whose evaluation wrote to stdout
        self.unconfirmed = set()


def translate(e):
    from miasm.ir.translators.C import TranslatorC
    try:
        txt = TranslatorC(loc_db=None).from_expr(e)
    except NotImplementedError as ex:
        return ("reject", str(ex)), None
    except (AssertionError, TypeError, KeyError, AttributeError, IndexError, NameError) as ex:
        return ("exc", type(ex).__name__, repr(ex)[:200]), None
    except Exception as ex:
        # ValueError / RuntimeError: explicit refusals of the translator ("Unsupported size", "Bad semantic")
        return ("reject", "%s: %s" % (type(ex).__name__, ex)), None
    if not isinstance(txt, str):
        return ("exc", "NotText", "from_expr returned %r" % (txt,)), None
    return ("ok",), txt


def wrapper_lines(idx, item):
    """C lines of f_<idx>; the value is masked to the expression width as codegen.gen_c_assignments does"""
    e = item.expr
    lines = ["void f_%d(const uint64_t *in, uint64_t *out)" % idx, "{"]
    off = 0
    for (n, s) in item.ids:
        if s <= 64:
            lines.append("\t%s %s = (%s)in[%d];" % (ctype_of(s), n, ctype_of(s), off))
        else:
            lines.append("\tbn_t %s = verif_bn_in(in + %d);" % (n, off))
        off += in_words(s)
    if e.size <= 64:
        lines.append("\t%s verif_r = (%s)&0x%x%s;" % (ctype_of(e.size), item.ctext, mask(e.size),
                                                       "ULL" if e.size > 32 else ""))
        lines.append("\tout[0] = verif_r;")
    else:
        lines.append("\tbn_t verif_r = bignum_mask(%s, %d);" % (item.ctext, e.size))
        lines.append("\tverif_bn_out(verif_r, out);")
    lines.append("}")
    return lines


def norm_msg(msg):
    msg = msg.split(";")[0].split(" [-W")[0]
    msg = re.sub(r"\d+", "N", msg)
    return msg.strip()


class Session(object):
    def __init__(self, scratch, opt="-O2"):
        self.scratch = scratch
        self.opt = opt
        self.n = 0
        self.jit = os.path.join(REPO, "miasm", "jitter")
        self.runtime = None
        self.stats = {"compiles": 0, "children": 0, "crashes": 0, "blamed_then_cleared": 0, "alone_fallback": 0}

    # -- building ---------------------------------------------------------
    def _cc(self, args, what):
        p = subprocess.run(["cc"] + args, stdout=subprocess.PIPE, stderr=subprocess.STDOUT, cwd=self.scratch,
                           env=dict(os.environ, LC_ALL="C", LANG="C"))
        self.stats["compiles"] += 1
        return p.returncode, p.stdout.decode("utf-8", "replace")

    def build_runtime(self):
        if self.runtime:
            return self.runtime
        cflags = (sysconfig.get_config_var("CFLAGS") or "-O3 -DNDEBUG").split()
        cflags = [f for f in cflags if f not in ("-g", "-Wall", "-Wsign-compare")]
        objs = []
        for src, extra in (("op_semantics.c", ["-Dexit=verif_exit"]), ("bn.c", [])):
            obj = os.path.join(self.scratch, src[:-2] + ".o")
            rc, out = self._cc(cflags + ["-fPIC", "-w", "-I" + self.jit] + extra +
                               ["-c", os.path.join(self.jit, src), "-o", obj], src)
            if rc != 0:
                raise RuntimeError("cannot compile %s stand-alone:\n%s" % (src, out[-2000:]))
            objs.append(obj)
        self.runtime = objs
        return objs

    def build(self, items):
        """translate + compile; sets item.translate / ctext / compile_error; -> path of the .so or None"""
        for it in items:
            if it.translate is None:
                it.translate, it.ctext = translate(it.expr)
        self.n += 1
        base = os.path.join(self.scratch, "b%d" % self.n)
        live = [i for i, it in enumerate(items) if it.ctext is not None and it.compile_error is None]
        blamed = set()
        for attempt in range(8):
            if not live:
                return None
            if attempt == 5:
                # attribution from the compiler output did not converge: compile every function alone
                self.stats["alone_fallback"] += 1
                live = self._filter_alone(items, live, base)
                if not live:
                    return None
            rc, out, owner = self._compile_unit(items, live, base, table=True)
            if rc == 0:
                # every blamed function must also fail in a unit made of the blamed functions only
                if blamed:
                    rc2, out2, owner2 = self._compile_unit(items, sorted(blamed), base + "_bad", table=False)
                    still = set(self._blame_ext(out2, owner2, base + "_bad", sorted(blamed), items)) if rc2 != 0 else set()
                    innocent = blamed - still
                    if innocent:
                        self.stats["blamed_then_cleared"] += len(innocent)
                        for i in innocent:
                            items[i].compile_error = None
                        blamed -= innocent
                        live = sorted(set(live) | innocent)
                        continue
                break
            bad = self._blame_ext(out, owner, base, live, items)
            if not bad:
                raise RuntimeError("batch does not compile and no function is to blame:\n%s" % out[-3000:])
            for i, msg in bad.items():
                items[i].compile_error = msg
                blamed.add(i)
            live = [i for i in live if i not in bad]
        else:
            raise RuntimeError("batch still does not compile:\n%s" % out[-3000:])
        so = base + ".so"
        rc, out = self._cc(["-shared", "-Wl,-z,defs", "-o", so, base + ".o"] + self.build_runtime() + ["-lm", "-lc"], "link")
        if rc != 0:
            raise RuntimeError("link failed:\n%s" % out[-3000:])
        return so

    def _compile_unit(self, items, live, base, table):
        src_lines = PRELUDE.split("\n")
        owner = {}
        for i in live:
            start = len(src_lines) + 1
            wl = wrapper_lines(i, items[i])
            src_lines.extend(wl)
            for k in range(start, start + len(wl)):
                owner[k] = i
        if table:
            src_lines.append("const verif_fn verif_table[] = {")
            liveset = set(live)
            for i in range(len(items)):
                src_lines.append("\tf_%d," % i if i in liveset else "\t0,")
            src_lines.append("};")
            src_lines.append("const int verif_table_len = %d;" % len(items))
        with open(base + ".c", "w") as f:
            f.write("\n".join(src_lines) + "\n")
        rc, out = self._cc([self.opt, "-fPIC", "-Werror=implicit-function-declaration",
                            "-Werror=int-conversion", "-fno-strict-aliasing", "-fmax-errors=0",
                            "-fno-diagnostics-show-caret", "-fdiagnostics-color=never",
                            "-I" + self.jit, "-c", base + ".c", "-o", base + ".o"], "batch")
        return rc, out, owner

    def _blame(self, out, owner, base):
        bad = {}
        cur = None
        for ln in out.split("\n"):
            m = re.search(r": In function 'f_(\d+)':", ln)
            if m:
                cur = int(m.group(1))
                continue
            m = re.match(r"^([^:\n]+):(\d+):\d+: (?:fatal )?error: (.*)$", ln)
            if m:
                i = owner.get(int(m.group(2))) if m.group(1).endswith(os.path.basename(base) + ".c") else None
                if i is None:
                    i = cur
                if i is not None and i not in bad:
                    bad[i] = m.group(3)
        return bad

    def _blame_ext(self, out, owner, base, live, items):
        """_blame + gcc reports an undeclared function once per unit: every other user of it fails the same way"""
        bad = self._blame(out, owner, base)
        for msg in list(bad.values()):
            m = re.search(r"implicit declaration of function '(\w+)'", msg)
            if m:
                for i in live:
                    if i not in bad and re.search(r"\b%s\(" % re.escape(m.group(1)), items[i].ctext):
                        bad[i] = msg
        return bad

    def _filter_alone(self, items, live, base):
        keep = []
        for i in live:
            src = PRELUDE.split("\n") + wrapper_lines(i, items[i])
            with open(base + "_one.c", "w") as f:
                f.write("\n".join(src) + "\n")
            rc, out = self._cc([self.opt, "-fPIC", "-Werror=implicit-function-declaration",
                                "-Werror=int-conversion", "-fno-strict-aliasing",
                                "-fno-diagnostics-show-caret", "-fdiagnostics-color=never",
                                "-I" + self.jit, "-c", base + "_one.c", "-o", base + "_one.o"], "one")
            if rc == 0:
                keep.append(i)
            else:
                m = re.search(r"error: (.*)", out)
                items[i].compile_error = m.group(1) if m else "does not compile"
        return keep

    # -- running ----------------------------------------------------------
    def _plan(self, items):
        cached = getattr(self, "_plan_cache", None)
        if cached is not None and cached[0] is items:
            return cached[1]
        plan = self._make_plan(items)
        self._plan_cache = (items, plan)
        return plan

    def _make_plan(self, items):
        plan = []
        for i, it in enumerate(items):
            if it.ctext is None or it.compile_error is not None:
                continue
            for t, env in enumerate(it.envs):
                words = [env.key & M64]
                for (n, s) in it.ids:
                    v = env.read_id(n, s)
                    if s <= 64:
                        words.append(v)
                    else:
                        words.extend((v >> (64 * k)) & M64 for k in range(4))
                plan.append((i, t, words))
        return plan

    def build_runner(self):
        if getattr(self, "runner", None):
            return self.runner
        src = os.path.join(self.scratch, "verif_runner.c")
        exe = os.path.join(self.scratch, "verif_runner")
        with open(src, "w") as f:
            f.write(RUNNER_C)
        rc, out = self._cc(["-O1", "-o", exe, src, "-ldl"], "runner")
        if rc != 0:
            raise RuntimeError("cannot compile the runner:\n%s" % out[-2000:])
        self.runner = exe
        return exe

    def _plan_file(self, plan):
        cached = getattr(self, "_planfile_cache", None)
        if cached is not None and cached[0] is plan:
            return cached[1]
        self._planfile_n = getattr(self, "_planfile_n", 0) + 1
        path = os.path.join(self.scratch, "plan%d.bin" % self._planfile_n)
        with open(path, "wb") as f:
            f.write(struct.pack("<I", len(plan)))
            for (i, t, words) in plan:
                f.write(struct.pack("<iI%dQ" % len(words), i, len(words), *words))
        if cached is not None:
            try:
                os.unlink(cached[1])
            except OSError:
                pass
        self._planfile_cache = (plan, path)
        return path

    def _run_child(self, so, plan, start, only_one=False):
        """run plan[start:] (or plan[start] alone) in a fresh process -> (result lines, how it died or None)"""
        outpath = os.path.join(self.scratch, "stdout.bin")
        respath = os.path.join(self.scratch, "res.txt")
        self.stats["children"] += 1
        p = subprocess.run([self.build_runner(), so, self._plan_file(plan), respath, outpath, outpath + ".err",
                            str(start), "1" if only_one else "0", str(CPU_LIMIT_S)],
                           stdin=subprocess.DEVNULL, stdout=subprocess.DEVNULL, stderr=subprocess.DEVNULL)
        with open(respath) as f:
            lines = f.read().split("\n")
        died = None
        if p.returncode < 0:
            try:
                died = "crash:" + signal.Signals(-p.returncode).name
            except ValueError:
                died = "crash:signal%d" % -p.returncode
        elif p.returncode == 97:
            died = "exit-unarmed"
        elif p.returncode != 0:
            raise RuntimeError("harness runner failed (status %d): %s" % (p.returncode,
                                                                          [ln for ln in lines if ln.startswith("X ")]))
        return lines, died

    def run(self, items, so):
        plan = self._plan(items)
        outpath = os.path.join(self.scratch, "stdout.bin")
        if os.path.exists(outpath):
            os.unlink(outpath)
        start = 0
        while start < len(plan):
            lines, died = self._run_child(so, plan, start)
            begun = None
            for ln in lines:
                p = ln.split()
                if not p:
                    continue
                if p[0] == "B":
                    begun = int(p[1])
                elif p[0] == "R":
                    k = int(p[1])
                    i, t, _ = plan[k]
                    rc = int(p[2])
                    val = sum(int(p[3 + j], 16) << (64 * j) for j in range(4))
                    if rc == 0:
                        items[i].runs[t] = ("value", val & mask(items[i].expr.size))
                    elif 1000 <= rc < 2000:
                        items[i].runs[t] = ("exit:%d" % (rc - 1000), None)
                    elif rc == 2000:
                        items[i].runs[t] = ("cpu-limit", None)
                    else:
                        items[i].runs[t] = ("harness:%d" % rc, None)
                    begun = None
                    start = k + 1
                elif p[0] == "E":
                    i, t, _ = plan[int(p[1])]
                    st = items[i].runs.get(t)
                    if st and st[0].startswith("exit:"):
                        msg = bytes.fromhex(p[2]).decode("ascii", "replace").split("\n")[0]
                        items[i].runs[t] = (st[0], msg)
                elif p[0] == "S":
                    i, t, _ = plan[int(p[1])]
                    with open(outpath, "rb") as f:
                        f.seek(int(p[2]))
                        if not items[i].stdout:
                            items[i].stdout_t = t
                        items[i].stdout += f.read(int(p[3]) - int(p[2]))[:200]
            if died is None:
                break
            if begun is None:
                raise RuntimeError("child died (%s) outside a call" % died)
            self.stats["crashes"] += 1
            i, t, _ = plan[begun]
            # confirm alone in a fresh child
            lines2, died2 = self._run_child(so, plan, begun, only_one=True)
            items[i].runs[t] = (died, None)
            if died2 != died:
                items[i].unconfirmed.add(t)
            start = begun + 1

    def rerun_alone(self, items, so, i, t):
        """-> (status, value) of one call in a fresh child"""
        plan = self._plan(items)
        for k, (pi, pt, _) in enumerate(plan):
            if pi == i and pt == t:
                break
        else:
            return ("harness:no-plan", None)
        lines, died = self._run_child(so, plan, k, only_one=True)
        if died:
            return (died, None)
        for ln in lines:
            p = ln.split()
            if p and p[0] == "R":
                rc = int(p[2])
                val = sum(int(p[3 + j], 16) << (64 * j) for j in range(4))
                if rc == 0:
                    return ("value", val & mask(items[i].expr.size))
                if 1000 <= rc < 2000:
                    return ("exit:%d" % (rc - 1000), None)
                if rc == 2000:
                    return ("cpu-limit", None)
        return ("harness:no-result", None)

    def evaluate(self, items):
        so = self.build(items)
        if so is not None:
            self.run(items, so)
        return so
