"""native_x86 -- run single x86-64 instructions on the host CPU (reference side of C18).

    from vlib import native_x86 as nx
    nx.DATA_ADDR                      # address of the 4 KiB data window (below 4 GiB), after nx.lib()
    outs = nx.run_batch([nx.Case(code, gpr, rflags, xmm, mem), ...])
    out.status (0 ok | signal number | 0xfe child died), out.gpr[16], out.rflags, out.xmm[16], out.mem

The C helper (native_x86.c, next to this file) is compiled on demand with gcc into
/verif/.build/native_x86-<hash of the source>.so; a changed source gives a new file name, a
missing file is rebuilt.  Each batch runs in a forked child (fork done in C), so that a crash of the
tested instruction cannot kill the caller.
"""
import ctypes
import fcntl
import hashlib
import os
import subprocess

HERE = os.path.dirname(os.path.abspath(__file__))
VERIF = os.path.dirname(os.path.dirname(HERE))
SRC = os.path.join(HERE, "native_x86.c")
BUILD = os.path.join(VERIF, ".build")
WIN = 4096
FLAGMASK = 0xCD5
FLAG_BITS = {"cf": 0, "pf": 2, "af": 4, "zf": 6, "nf": 7, "df": 10, "of": 11}
GPR_NAMES = ["RAX", "RCX", "RDX", "RBX", "RSP", "RBP", "RSI", "RDI",
             "R8", "R9", "R10", "R11", "R12", "R13", "R14", "R15"]
SIGNAMES = {4: "SIGILL", 5: "SIGTRAP", 7: "SIGBUS", 8: "SIGFPE", 11: "SIGSEGV", 0xfe: "child-died",
            0xff: "not-run", 0xfd: "too-long"}


class NxState(ctypes.Structure):
    _fields_ = [("gpr", ctypes.c_uint64 * 16), ("rflags", ctypes.c_uint64), ("pad", ctypes.c_uint64),
                ("xmm", (ctypes.c_uint8 * 16) * 16)]


class NxCase(ctypes.Structure):
    _fields_ = [("code", ctypes.c_uint8 * 16), ("code_len", ctypes.c_uint32), ("status", ctypes.c_uint32),
                ("si_code", ctypes.c_uint32), ("pad", ctypes.c_uint32), ("fault_addr", ctypes.c_uint64),
                ("inp", NxState), ("out", NxState),
                ("mem_in", ctypes.c_uint8 * WIN), ("mem_out", ctypes.c_uint8 * WIN)]


_lib = None
DATA_ADDR = None


def so_path():
    with open(SRC, "rb") as f:
        h = hashlib.sha256(f.read()).hexdigest()[:16]
    return os.path.join(BUILD, "native_x86-%s.so" % h)


def ensure_built():
    path = so_path()
    if os.path.exists(path):
        return path
    os.makedirs(BUILD, exist_ok=True)
    with open(os.path.join(BUILD, ".native_x86.lock"), "w") as lf:
        fcntl.flock(lf, fcntl.LOCK_EX)
        if os.path.exists(path):
            return path
        tmp = path + ".tmp.%d" % os.getpid()
        p = subprocess.run(["gcc", "-O1", "-shared", "-fPIC", "-Wall", "-o", tmp, SRC],
                           stdout=subprocess.PIPE, stderr=subprocess.STDOUT)
        if p.returncode != 0:
            raise RuntimeError("native_x86: gcc failed:\n" + p.stdout.decode("utf-8", "replace"))
        os.replace(tmp, path)
    return path


def lib():
    global _lib, DATA_ADDR
    if _lib is None:
        l = ctypes.CDLL(ensure_built())
        l.nx_data_addr.restype = ctypes.c_uint64
        l.nx_case_size.restype = ctypes.c_uint64
        l.nx_run_batch.argtypes = [ctypes.c_void_p, ctypes.c_uint32]
        l.nx_run_batch.restype = ctypes.c_int
        rc = l.nx_init()
        if rc != 0:
            raise RuntimeError("native_x86: nx_init failed (%d)" % rc)
        if l.nx_case_size() != ctypes.sizeof(NxCase):
            raise RuntimeError("native_x86: structure layout mismatch")
        DATA_ADDR = l.nx_data_addr()
        _lib = l
    return _lib


def data_addr():
    lib()
    return DATA_ADDR


class Case(object):
    """code: bytes (<= 15); gpr: list of 16 ints (x86 numbering, index 4 = RSP ignored);
    rflags: int (only CF PF AF ZF SF DF OF are loaded); xmm: list of 16 ints (128-bit); mem: bytes(4096)."""
    __slots__ = ("code", "gpr", "rflags", "xmm", "mem")

    def __init__(self, code, gpr, rflags, xmm, mem):
        self.code, self.gpr, self.rflags, self.xmm, self.mem = code, gpr, rflags, xmm, mem


class Out(object):
    __slots__ = ("status", "si_code", "fault_addr", "gpr", "rflags", "xmm", "mem")

    def signame(self):
        return SIGNAMES.get(self.status, "signal %d" % self.status)


_CASE_SIZE = ctypes.sizeof(NxCase)
_OFF_OUT = NxCase.out.offset
_OFF_STATUS = NxCase.status.offset
_OFF_MEMOUT = NxCase.mem_out.offset
_ZERO_OUT = bytes(ctypes.sizeof(NxState))
_ZERO_MEM = bytes(WIN)
_M64 = 0xFFFFFFFFFFFFFFFF
_M128 = (1 << 128) - 1


def run_batch(cases):
    import struct
    l = lib()
    n = len(cases)
    if n == 0:
        return []
    parts = []
    for c in cases:
        code = bytes(c.code)
        if len(code) > 15 or len(c.mem) != WIN:
            raise ValueError("native_x86: bad case")
        parts.append(code.ljust(16, b"\0"))
        parts.append(struct.pack("<IIIIQ", len(code), 0xff, 0, 0, 0))
        parts.append(struct.pack("<16Q", *[g & _M64 for g in c.gpr]))
        parts.append(struct.pack("<QQ", c.rflags & FLAGMASK, 0))
        parts.append(b"".join((x & _M128).to_bytes(16, "little") for x in c.xmm))
        parts.append(_ZERO_OUT)
        parts.append(bytes(c.mem))
        parts.append(_ZERO_MEM)
    buf = ctypes.create_string_buffer(b"".join(parts), n * _CASE_SIZE)
    rc = l.nx_run_batch(ctypes.cast(buf, ctypes.c_void_p), n)
    if rc < 0:
        raise RuntimeError("native_x86: nx_run_batch failed (%d)" % rc)
    raw = buf.raw
    outs = []
    for i in range(n):
        base = i * _CASE_SIZE
        o = Out()
        o.status, o.si_code, _pad, o.fault_addr = struct.unpack_from("<IIIQ", raw, base + _OFF_STATUS)
        vals = struct.unpack_from("<16QQ", raw, base + _OFF_OUT)
        o.gpr = list(vals[:16])
        o.rflags = vals[16]
        xb = raw[base + _OFF_OUT + 144: base + _OFF_OUT + 400]
        o.xmm = [int.from_bytes(xb[16 * k:16 * k + 16], "little") for k in range(16)]
        o.mem = raw[base + _OFF_MEMOUT: base + _OFF_MEMOUT + WIN]
        outs.append(o)
    return outs
