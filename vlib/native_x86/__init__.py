"""native_x86 -- run single x86-64 instructions on the host CPU (reference side of C18).

    from vlib import native_x86 as nx
    nx.data_addr()                    # address of the 4 KiB data window (below 4 GiB)
    outs = nx.run_batch([nx.Case(code, gpr, rflags, xmm, mem), ...])
    out.status (0 ok | signal number | 0xfe child died), out.gpr[16], out.rflags, out.xmm[16], out.mem

The C helper (native_x86.c, next to this file) is compiled on demand with gcc into
/verif/.build/native_x86-<hash of the source> (an executable); a changed source gives a new file name,
a missing file is rebuilt.  The executable is a small server started once per Python process and fed
batches over pipes; it forks one child per batch (a crash of the tested instruction cannot kill the
caller, and the big Python process is never forked).
"""
import ctypes
import fcntl
import hashlib
import os
import subprocess

HERE = os.path.dirname(os.path.abspath(__file__))
VERIF = os.path.dirname(os.path.dirname(HERE))
SRC = os.path.join(HERE, "native_x86.c")
BUILD = os.path.join(VERIF, ".build")
WIN = 4096
FLAGMASK = 0xCD5
FLAG_BITS = {"cf": 0, "pf": 2, "af": 4, "zf": 6, "nf": 7, "df": 10, "of": 11}
GPR_NAMES = ["RAX", "RCX", "RDX", "RBX", "RSP", "RBP", "RSI", "RDI",
             "R8", "R9", "R10", "R11", "R12", "R13", "R14", "R15"]
SIGNAMES = {4: "SIGILL", 5: "SIGTRAP", 7: "SIGBUS", 8: "SIGFPE", 11: "SIGSEGV", 0xfe: "child-died",
            0xff: "not-run", 0xfd: "too-long"}


class NxState(ctypes.Structure):
    _fields_ = [("gpr", ctypes.c_uint64 * 16), ("rflags", ctypes.c_uint64), ("pad", ctypes.c_uint64),
                ("xmm", (ctypes.c_uint8 * 16) * 16)]


class NxCase(ctypes.Structure):
    _fields_ = [("code", ctypes.c_uint8 * 16), ("code_len", ctypes.c_uint32), ("status", ctypes.c_uint32),
                ("si_code", ctypes.c_uint32), ("pad", ctypes.c_uint32), ("fault_addr", ctypes.c_uint64),
                ("inp", NxState), ("out", NxState),
                ("mem_in", ctypes.c_uint8 * WIN), ("mem_out", ctypes.c_uint8 * WIN)]


_srv = {}          # pid -> (Popen, data address, shared mmap)


def exe_path():
    with open(SRC, "rb") as f:
        h = hashlib.sha256(f.read()).hexdigest()[:16]
    return os.path.join(BUILD, "native_x86-%s" % h)


def ensure_built():
    path = exe_path()
    if os.path.exists(path):
        return path
    os.makedirs(BUILD, exist_ok=True)
    with open(os.path.join(BUILD, ".native_x86.lock"), "w") as lf:
        fcntl.flock(lf, fcntl.LOCK_EX)
        if os.path.exists(path):
            return path
        tmp = path + ".tmp.%d" % os.getpid()
        p = subprocess.run(["gcc", "-O1", "-no-pie", "-Wall", "-o", tmp, SRC],
                           stdout=subprocess.PIPE, stderr=subprocess.STDOUT)
        if p.returncode != 0:
            raise RuntimeError("native_x86: gcc failed:\n" + p.stdout.decode("utf-8", "replace"))
        os.replace(tmp, path)
    return path


def _read_exact(f, n):
    chunks = []
    while n:
        c = f.read(n)
        if not c:
            raise RuntimeError("native_x86: server closed the pipe")
        chunks.append(c)
        n -= len(c)
    return b"".join(chunks)


MAX_BATCH = 256


def _start(fd):
    import struct
    p = subprocess.Popen([ensure_built(), "/dev/fd/%d" % fd], stdin=subprocess.PIPE, stdout=subprocess.PIPE, bufsize=0,
                         close_fds=True, pass_fds=(fd,))
    addr, csz = struct.unpack("<QQ", _read_exact(p.stdout, 16))
    if csz != ctypes.sizeof(NxCase):
        raise RuntimeError("native_x86: structure layout mismatch")
    return p, addr


def server():
    """the helper process of *this* process (started on first use, one per pid)
    -> [Popen, data address, mmap, fd of the shared memory object]"""
    pid = os.getpid()
    ent = _srv.get(pid)
    if ent is not None:
        if ent[0].poll() is None:
            return ent
        ent[0], addr = _start(ent[3])
        if addr != ent[1]:
            raise RuntimeError("native_x86: data window moved")
        return ent
    import mmap
    fd = os.memfd_create("native_x86-%d" % pid)      # anonymous shared memory, no file system path
    size = 4096 + MAX_BATCH * ctypes.sizeof(NxCase)
    os.ftruncate(fd, size)
    mm = mmap.mmap(fd, size)
    p, addr = _start(fd)
    _srv.clear()
    _srv[pid] = [p, addr, mm, fd]
    return _srv[pid]


def data_addr():
    return server()[1]


class Case(object):
    """code: bytes (<= 15); gpr: list of 16 ints (x86 numbering, index 4 = RSP ignored);
    rflags: int (only CF PF AF ZF SF DF OF are loaded); xmm: list of 16 ints (128-bit); mem: bytes(4096)."""
    __slots__ = ("code", "gpr", "rflags", "xmm", "mem")

    def __init__(self, code, gpr, rflags, xmm, mem):
        self.code, self.gpr, self.rflags, self.xmm, self.mem = code, gpr, rflags, xmm, mem


class Out(object):
    __slots__ = ("status", "si_code", "fault_addr", "gpr", "rflags", "xmm", "mem")

    def signame(self):
        return SIGNAMES.get(self.status, "signal %d" % self.status)


_CASE_SIZE = ctypes.sizeof(NxCase)
_OFF_OUT = NxCase.out.offset
_OFF_STATUS = NxCase.status.offset
_OFF_MEMOUT = NxCase.mem_out.offset
_ZERO_OUT = bytes(ctypes.sizeof(NxState))
_ZERO_MEM = bytes(WIN)
_M64 = 0xFFFFFFFFFFFFFFFF
_M128 = (1 << 128) - 1


def run_batch(cases):
    outs = []
    for i in range(0, len(cases), MAX_BATCH):
        outs.extend(_run_batch(cases[i:i + MAX_BATCH]))
    return outs


def _run_batch(cases):
    import struct
    n = len(cases)
    if n == 0:
        return []
    ent = server()
    mm = ent[2]
    parts = []
    for c in cases:
        code = bytes(c.code)
        if len(code) > 15 or len(c.mem) != WIN:
            raise ValueError("native_x86: bad case")
        parts.append(code.ljust(16, b"\0"))
        parts.append(struct.pack("<IIIIQ", len(code), 0xff, 0, 0, 0))
        parts.append(struct.pack("<16Q", *[g & _M64 for g in c.gpr]))
        parts.append(struct.pack("<QQ", c.rflags & FLAGMASK, 0))
        parts.append(b"".join((x & _M128).to_bytes(16, "little") for x in c.xmm))
        parts.append(_ZERO_OUT)
        parts.append(bytes(c.mem))
        parts.append(_ZERO_MEM)
    blob = b"".join(parts)
    del parts
    mm[4096:4096 + len(blob)] = blob
    del blob
    start = 0
    restarts = 0
    while start < n:
        ent = server()
        try:
            ent[0].stdin.write(struct.pack("<II", start, n))
            rc = struct.unpack("<i", _read_exact(ent[0].stdout, 4))[0]
        except (RuntimeError, OSError):
            # the server died while executing case `progress`
            ent[0].wait()
            prog = struct.unpack_from("<I", mm, 0)[0]
            if not (start <= prog < n) or restarts > n:
                raise RuntimeError("native_x86: server died outside a case")
            struct.pack_into("<I", mm, 4096 + prog * _CASE_SIZE + _OFF_STATUS, 0xfe)
            start = prog + 1
            restarts += 1
            continue
        if rc < 0:
            raise RuntimeError("native_x86: batch failed (%d)" % rc)
        break
    raw = mm[4096:4096 + n * _CASE_SIZE]
    outs = []
    for i in range(n):
        base = i * _CASE_SIZE
        o = Out()
        o.status, o.si_code, _pad, o.fault_addr = struct.unpack_from("<IIIQ", raw, base + _OFF_STATUS)
        vals = struct.unpack_from("<16QQ", raw, base + _OFF_OUT)
        o.gpr = list(vals[:16])
        o.rflags = vals[16]
        xb = raw[base + _OFF_OUT + 144: base + _OFF_OUT + 400]
        o.xmm = [int.from_bytes(xb[16 * k:16 * k + 16], "little") for k in range(16)]
        o.mem = raw[base + _OFF_MEMOUT: base + _OFF_MEMOUT + WIN]
        outs.append(o)
    return outs
