/* native_x86 -- execute one x86-64 instruction on the host CPU from a given register / flag /
 * XMM / memory-window state and report the resulting state.
 *
 * Layout of one execution:   load-state ; <instruction bytes> ; save-state
 * The load/save halves are the assembly stub below; the instruction bytes live in an RWX page and
 * are entered / left with plain jumps (which change no architectural state that is observed).
 * RSP is not loaded (the host stack is used), so tested instructions must not name RSP.
 * SIGFPE/SIGSEGV/SIGILL/SIGBUS/SIGTRAP are caught with sigsetjmp/siglongjmp and reported per case.
 *
 * Built as a small stand-alone server (main below): it is the child process in which all native
 * execution happens (the checking process fork+execs it and never executes generated code itself);
 * batches are exchanged through a MAP_SHARED file.  A server that dies anyway (uncatchable crash,
 * 20 s alarm) only loses the case it was executing: the caller reads the progress word, marks that
 * case 'child died' and starts a new server for the rest of the batch.  (A fork per batch was
 * measured to cost ~0.2 ms per touched page in this sandbox's VM, i.e. more than the test itself.)
 *   argv[1]:  shared batch file (mmap MAP_SHARED on both sides): page 0 progress word, then nx_case[]
 *   startup:  server writes  u64 data-window address, u64 sizeof(nx_case)   on stdout
 *   request:  u32 from, u32 n on stdin (cases already in the shared file)   reply: i32 (<0 error)
 */
#define _GNU_SOURCE
#include <signal.h>
#include <setjmp.h>
#include <stdint.h>
#include <string.h>
#include <stdlib.h>
#include <unistd.h>
#include <errno.h>
#include <fcntl.h>
#include <sys/stat.h>
#include <sys/mman.h>
#include <sys/wait.h>

#define NX_WIN 4096
#define NX_FLAGMASK 0xCD5ULL /* CF PF AF ZF SF DF OF */

typedef struct {
    uint64_t gpr[16];      /* x86 numbering: rax rcx rdx rbx rsp rbp rsi rdi r8..r15 (rsp ignored) */
    uint64_t rflags;
    uint64_t pad;
    uint8_t xmm[16][16];
} nx_state;                /* 400 bytes */

typedef struct {
    uint8_t code[16];
    uint32_t code_len;
    uint32_t status;       /* out: 0 ok, else signal number; 0xfe child died; 0xff not run */
    uint32_t si_code;
    uint32_t pad;
    uint64_t fault_addr;
    nx_state in;
    nx_state out;
    uint8_t mem_in[NX_WIN];
    uint8_t mem_out[NX_WIN];
} nx_case;

nx_state nx_in, nx_out;
uint64_t nx_saved_rsp;
void *nx_codeptr;
void nx_tramp(void);
void nx_tramp_back(void);

__asm__(
".intel_syntax noprefix\n"
".text\n"
".globl nx_tramp\n.type nx_tramp,@function\n"
"nx_tramp:\n"
"  push rbx\n  push rbp\n  push r12\n  push r13\n  push r14\n  push r15\n"
"  mov [rip+nx_saved_rsp], rsp\n"
"  lea rax, [rip+nx_in]\n"
"  movdqu xmm0, [rax+144]\n  movdqu xmm1, [rax+160]\n  movdqu xmm2, [rax+176]\n  movdqu xmm3, [rax+192]\n"
"  movdqu xmm4, [rax+208]\n  movdqu xmm5, [rax+224]\n  movdqu xmm6, [rax+240]\n  movdqu xmm7, [rax+256]\n"
"  movdqu xmm8, [rax+272]\n  movdqu xmm9, [rax+288]\n  movdqu xmm10, [rax+304]\n  movdqu xmm11, [rax+320]\n"
"  movdqu xmm12, [rax+336]\n  movdqu xmm13, [rax+352]\n  movdqu xmm14, [rax+368]\n  movdqu xmm15, [rax+384]\n"
"  push qword ptr [rax+128]\n  popfq\n"
"  mov rcx, [rax+8]\n  mov rdx, [rax+16]\n  mov rbx, [rax+24]\n  mov rbp, [rax+40]\n"
"  mov rsi, [rax+48]\n  mov rdi, [rax+56]\n  mov r8, [rax+64]\n  mov r9, [rax+72]\n"
"  mov r10, [rax+80]\n  mov r11, [rax+88]\n  mov r12, [rax+96]\n  mov r13, [rax+104]\n"
"  mov r14, [rax+112]\n  mov r15, [rax+120]\n"
"  mov rax, [rax]\n"
"  jmp qword ptr [rip+nx_codeptr]\n"
".globl nx_tramp_back\n"
"nx_tramp_back:\n"
"  mov [rip+nx_out], rax\n"
"  lea rax, [rip+nx_out]\n"
"  mov [rax+8], rcx\n  mov [rax+16], rdx\n  mov [rax+24], rbx\n  mov [rax+32], rsp\n  mov [rax+40], rbp\n"
"  mov [rax+48], rsi\n  mov [rax+56], rdi\n  mov [rax+64], r8\n  mov [rax+72], r9\n"
"  mov [rax+80], r10\n  mov [rax+88], r11\n  mov [rax+96], r12\n  mov [rax+104], r13\n"
"  mov [rax+112], r14\n  mov [rax+120], r15\n"
"  pushfq\n  pop qword ptr [rax+128]\n"
"  movdqu [rax+144], xmm0\n  movdqu [rax+160], xmm1\n  movdqu [rax+176], xmm2\n  movdqu [rax+192], xmm3\n"
"  movdqu [rax+208], xmm4\n  movdqu [rax+224], xmm5\n  movdqu [rax+240], xmm6\n  movdqu [rax+256], xmm7\n"
"  movdqu [rax+272], xmm8\n  movdqu [rax+288], xmm9\n  movdqu [rax+304], xmm10\n  movdqu [rax+320], xmm11\n"
"  movdqu [rax+336], xmm12\n  movdqu [rax+352], xmm13\n  movdqu [rax+368], xmm14\n  movdqu [rax+384], xmm15\n"
"  cld\n"
"  mov rsp, [rip+nx_saved_rsp]\n"
"  pop r15\n  pop r14\n  pop r13\n  pop r12\n  pop rbp\n  pop rbx\n"
"  ret\n"
".size nx_tramp, .-nx_tramp\n"
".att_syntax prefix\n"
);

static uint8_t *code_page;
static uint8_t *data_win;      /* NX_WIN bytes, below 4 GiB, guard pages around */
static sigjmp_buf jb;
static volatile int in_tramp;
static volatile uint32_t last_sicode;
static volatile uint64_t last_addr;

uint64_t nx_data_addr(void) { return (uint64_t)(uintptr_t)data_win; }
uint64_t nx_case_size(void) { return sizeof(nx_case); }
uint64_t nx_state_size(void) { return sizeof(nx_state); }

int nx_init(void)
{
    static const uintptr_t cands[] = {0x10000000u, 0x20000000u, 0x30000000u, 0x18000000u, 0x60000000u, 0};
    if (data_win)
        return 0;
    code_page = mmap(NULL, 4096, PROT_READ | PROT_WRITE | PROT_EXEC, MAP_PRIVATE | MAP_ANONYMOUS, -1, 0);
    if (code_page == MAP_FAILED)
        return -1;
    for (int i = 0; cands[i]; i++) {
        void *want = (void *)(cands[i] - 4096);
        void *p = mmap(want, 3 * 4096, PROT_NONE, MAP_PRIVATE | MAP_ANONYMOUS | MAP_FIXED_NOREPLACE, -1, 0);
        if (p == MAP_FAILED)
            continue;
        if (p != want) {
            munmap(p, 3 * 4096);
            continue;
        }
        if (mprotect((uint8_t *)p + 4096, 4096, PROT_READ | PROT_WRITE))
            return -2;
        data_win = (uint8_t *)p + 4096;
        return 0;
    }
    return -3;
}

static void handler(int sig, siginfo_t *si, void *uc)
{
    (void)uc;
    if (!in_tramp)
        _exit(100 + sig);
    last_sicode = (uint32_t)si->si_code;
    last_addr = (uint64_t)(uintptr_t)si->si_addr;
    siglongjmp(jb, sig);
}

static void run_one(nx_case *c)
{
    size_t n = c->code_len;
    if (n > 15) {
        c->status = 0xfd;
        return;
    }
    memcpy(code_page, c->code, n);
    code_page[n] = 0xff;            /* jmp qword ptr [rip+0] */
    code_page[n + 1] = 0x25;
    memset(code_page + n + 2, 0, 4);
    uint64_t back = (uint64_t)(uintptr_t)&nx_tramp_back;
    memcpy(code_page + n + 6, &back, 8);
    nx_codeptr = code_page;
    memcpy(&nx_in, &c->in, sizeof(nx_state));
    nx_in.rflags = 0x202ULL | (c->in.rflags & NX_FLAGMASK);
    memcpy(data_win, c->mem_in, NX_WIN);
    memset(&nx_out, 0, sizeof(nx_out));
    int sig = sigsetjmp(jb, 1);
    if (sig == 0) {
        in_tramp = 1;
        nx_tramp();
        in_tramp = 0;
        c->status = 0;
        c->si_code = 0;
        c->fault_addr = 0;
        memcpy(&c->out, &nx_out, sizeof(nx_state));
        c->out.rflags &= NX_FLAGMASK;
    } else {
        in_tramp = 0;
        c->status = (uint32_t)sig;
        c->si_code = last_sicode;
        c->fault_addr = last_addr;
    }
    memcpy(c->mem_out, data_win, NX_WIN);
}

static void install_handlers(void)
{
    static uint8_t altstack[65536];
    stack_t ss = {.ss_sp = altstack, .ss_size = sizeof(altstack), .ss_flags = 0};
    sigaltstack(&ss, NULL);
    struct sigaction sa;
    memset(&sa, 0, sizeof(sa));
    sa.sa_sigaction = handler;
    sa.sa_flags = SA_SIGINFO | SA_ONSTACK | SA_NODEFER;
    sigemptyset(&sa.sa_mask);
    int sigs[] = {SIGFPE, SIGSEGV, SIGILL, SIGBUS, SIGTRAP};
    for (unsigned i = 0; i < sizeof(sigs) / sizeof(sigs[0]); i++)
        sigaction(sigs[i], &sa, NULL);
    signal(SIGALRM, SIG_DFL);
    sigset_t set;
    sigemptyset(&set);
    sigprocmask(SIG_SETMASK, &set, NULL);
}

static int read_all(int fd, void *buf, size_t n)
{
    uint8_t *p = buf;
    while (n) {
        ssize_t r = read(fd, p, n);
        if (r == 0)
            return -1;
        if (r < 0) {
            if (errno == EINTR)
                continue;
            return -1;
        }
        p += r;
        n -= (size_t)r;
    }
    return 0;
}

static int write_all(int fd, const void *buf, size_t n)
{
    const uint8_t *p = buf;
    while (n) {
        ssize_t r = write(fd, p, n);
        if (r < 0) {
            if (errno == EINTR)
                continue;
            return -1;
        }
        p += r;
        n -= (size_t)r;
    }
    return 0;
}

int main(int argc, char **argv)
{
    /* argv[1]: path of the shared batch file (created and sized by the caller); layout: page 0 =
     * progress word, then the nx_case array.  This process is the isolated child: if a tested
     * instruction kills it, the caller reads the progress word, marks that case and starts a new one. */
    if (argc < 2)
        return 1;
    if (nx_init())
        return 2;
    signal(SIGPIPE, SIG_IGN);
    int fd = open(argv[1], O_RDWR);
    if (fd < 0)
        return 6;
    struct stat stt;
    if (fstat(fd, &stt))
        return 6;
    size_t cap = (size_t)stt.st_size;
    uint8_t *sh = mmap(NULL, cap, PROT_READ | PROT_WRITE, MAP_SHARED | MAP_POPULATE, fd, 0);
    if (sh == MAP_FAILED)
        return 4;
    close(fd);
    install_handlers();
    volatile uint32_t *progress = (volatile uint32_t *)sh;
    nx_case *sc = (nx_case *)(sh + 4096);
    uint64_t hello[2] = {nx_data_addr(), sizeof(nx_case)};
    if (write_all(1, hello, sizeof(hello)))
        return 3;
    for (;;) {
        uint32_t req[2];                /* from, n: run cases from..n-1 */
        if (read_all(0, req, 8) || req[1] == 0)
            return 0;
        int32_t rc = 1;
        if (sizeof(nx_case) * (size_t)req[1] + 4096 > cap)
            rc = -9;
        else {
            for (uint32_t i = req[0]; i < req[1]; i++) {
                *progress = i;
                alarm(20);
                run_one(&sc[i]);
            }
            alarm(0);
            *progress = req[1];
        }
        if (write_all(1, &rc, 4))
            return 5;
    }
}
