"""C33 — StrPatchwork behaves like a byte string that grows with padding.

Model-based histories against a bytearray + padding byte.  First op: ("init", hex, pad).
Positions are [0, n] (absolute n) or [1, d] (len + d, clipped at 0) so that reads and writes
inside, at `len` and past the end are all frequent.  Bytes come from the alphabet
{00, 61, 62, ff} so that searches hit.

Semantics demanded (uniform "zero-padded growable string"):
* int index i >= 0: the byte if i < len, else the padding byte; -len <= i < 0 as for bytes;
* slice a:b (0 <= a, b None or >= 0, no step): (content + padding up to b)[a:b]; reads never
  change the content;
* sp[i] = data / sp[a:a+len(data)] = data: the buffer grows with padding up to the end of the
  write if needed, then exactly bytes [a, a+len(data)) are replaced (equal-length slice writes
  only: that is what callers do; other lengths are out of domain);
* += appends; len / bytes() / `in` / find / rfind(pattern, start, end) agree with the model
  content at the time of the call.
"""
from vlib.runner import Check, ShardResult, Failure
from vlib import hyp
from vlib.hyp import CheckFailure

ALPHA = (0x00, 0x61, 0x62, 0xff)
DEFAULT_INIT = ["init", "", 0]


class Sim(object):
    last = None

    def __init__(self):
        self.sp = None
        self.nops = 0
        self.search_after_mutation = 0
        self.mutated = False
        self.last_mut = "none"
        Sim.last = self

    def _init(self, op):
        from miasm.loader.strpatchwork import StrPatchwork
        _, hx, pad = op
        self.m = bytearray(bytes.fromhex(hx))
        self.pad = bytes([pad])
        if pad == 0 and not hx:
            self.sp = StrPatchwork()
        elif pad == 0:
            self.sp = StrPatchwork(bytes(self.m))
        else:
            self.sp = StrPatchwork(bytes(self.m), self.pad)
        self.cfg = "init=%r pad=%r" % (bytes(self.m), self.pad)
        self._sync("init")

    def _fail(self, bucket, detail):
        raise CheckFailure(bucket, "[%s] op %d: %s" % (self.cfg, self.nops, detail))

    def _sync(self, what):
        b = bytes(self.sp)
        if b != bytes(self.m):
            self._fail("%s:content" % what, "content %r, expected %r" % (b, bytes(self.m)))
        if len(self.sp) != len(self.m):
            self._fail("%s:len" % what, "len %r, expected %r" % (len(self.sp), len(self.m)))

    def pos(self, p):
        kind, n = p
        if kind == 0:
            return n
        return max(0, len(self.m) + n)

    def where(self, i):
        n = len(self.m)
        if i < 0:
            return "negative"
        return "inside" if i < n else ("at-len" if i == n else "past-len")

    def step(self, op):
        if self.sp is None:
            if op[0] == "init":
                self._init(op)
                return
            self._init(DEFAULT_INIT)
        elif op[0] == "init":
            return
        self.nops += 1
        self.cur = op
        getattr(self, "op_" + op[0])(*op[1:])

    def _call(self, bucket, fn):
        try:
            return fn()
        except CheckFailure:
            raise
        except Exception as e:
            self._fail("%s:exception:%s" % (bucket, type(e).__name__), "%r raised %r" % (self.cur, e))

    # reads ------------------------------------------------------------
    def op_geti(self, p):
        i = self.pos(p)
        w = self.where(i)
        r = self._call("getitem-int:" + w, lambda: self.sp[i])
        exp = bytes(self.m[i:i + 1]) if i < len(self.m) else self.pad
        if r != exp:
            self._fail("getitem-int:" + w, "sp[%d] = %r, expected %r (len %d)" % (i, r, exp, len(self.m)))
        self._sync("getitem-int")

    def op_getneg(self, d):
        if not self.m:
            return
        i = -1 - (d % len(self.m))
        r = self._call("getitem-int:negative", lambda: self.sp[i])
        if r != bytes(self.m[i:][:1]):
            self._fail("getitem-int:negative", "sp[%d] = %r (len %d)" % (i, r, len(self.m)))
        self._sync("getitem-int")

    def op_gets(self, pa, pb):
        a = self.pos(pa)
        b = None if pb is None else self.pos(pb)
        n = len(self.m)
        w = "stop-none" if b is None else ("stop-" + self.where(b))
        r = self._call("getitem-slice:" + w, lambda: self.sp[a:b])
        padded = bytes(self.m) + (self.pad * max(0, b - n) if b is not None else b"")
        exp = padded[a:b]
        if r != exp:
            self._fail("getitem-slice:" + w, "sp[%r:%r] = %r, expected %r (len %d)" % (a, b, r, exp, n))
        self._sync("getitem-slice")

    def op_getstep(self, pa, pb, k):
        """slice read with a step (the implementation documents that it supports steps other than 1)"""
        a = self.pos(pa)
        b = self.pos(pb)
        n = len(self.m)
        w = "stop-" + self.where(b)
        r = self._call("getitem-slice-step:" + w, lambda: self.sp[a:b:k])
        padded = bytes(self.m) + self.pad * max(0, b - n)
        exp = padded[a:b:k]
        if r != exp:
            self._fail("getitem-slice-step:" + w, "sp[%r:%r:%r] = %r, expected %r (len %d)" % (a, b, k, r, exp, n))
        self._sync("getitem-slice")

    # writes -----------------------------------------------------------
    def _model_write(self, a, data):
        end = a + len(data)
        if end > len(self.m):
            self.m.extend(self.pad * (end - len(self.m)))
        self.m[a:end] = data
        self.mutated = True
        self.last_mut = "setitem"

    def op_seti(self, p, hx):
        a = self.pos(p)
        data = bytes.fromhex(hx)
        w = self.where(a) + ("" if data else ":empty")

        def f():
            self.sp[a] = data
        self._call("setitem-int:" + w, f)
        self._model_write(a, data)
        self._sync("setitem-int:" + w)

    def op_sets(self, p, hx):
        a = self.pos(p)
        data = bytes.fromhex(hx)
        w = self.where(a) + ("" if data else ":empty")

        def f():
            self.sp[a:a + len(data)] = data
        self._call("setitem-slice:" + w, f)
        self._model_write(a, data)
        self._sync("setitem-slice:" + w)

    def op_setnone(self, p):
        # `sp[i] = None` is an explicit no-op in the implementation
        a = self.pos(p)

        def f():
            self.sp[a] = None
        self._call("setitem-none", f)
        self._sync("setitem-none")

    def op_iadd(self, hx):
        data = bytes.fromhex(hx)

        def f():
            sp = self.sp
            sp += data
            if sp is not self.sp:
                self._fail("iadd:identity", "+= returned another object")
        self._call("iadd", f)
        self.m.extend(data)
        self.mutated = True
        self.last_mut = "iadd"
        self._sync("iadd")

    # searches ---------------------------------------------------------
    def _search(self, name, hx, start, end):
        pat = bytes.fromhex(hx)
        args = [pat]
        if start is not None:
            args.append(start)
            if end is not None:
                args.append(end)
        r = self._call(name, lambda: getattr(self.sp, name)(*args))
        exp = getattr(bytes(self.m), name)(*args)
        if self.mutated:
            self.search_after_mutation += 1
        if r != exp:
            self._fail("%s:mismatch:last-mutation=%s" % (name, self.last_mut),
                       "%s%r = %r, expected %r on %r" % (name, tuple(args), r, exp, bytes(self.m)))
        self._sync(name)

    def op_find(self, hx, start, end):
        self._search("find", hx, start, end)

    def op_rfind(self, hx, start, end):
        self._search("rfind", hx, start, end)

    def op_in(self, hx):
        pat = bytes.fromhex(hx)
        r = self._call("contains", lambda: pat in self.sp)
        if self.mutated:
            self.search_after_mutation += 1
        if r != (pat in bytes(self.m)):
            self._fail("contains:mismatch:last-mutation=%s" % self.last_mut,
                       "%r in sp = %r on %r" % (pat, r, bytes(self.m)))
        self._sync("contains")

    def finish(self):
        if self.sp is None:
            self._init(DEFAULT_INIT)


def history_strategy():
    from hypothesis import strategies as st
    byte = st.sampled_from(ALPHA)
    data = st.lists(byte, max_size=5).map(lambda l: bytes(l).hex())
    data1 = st.lists(byte, min_size=1, max_size=5).map(lambda l: bytes(l).hex())
    pat = st.lists(byte, min_size=1, max_size=3).map(lambda l: bytes(l).hex())
    init = st.tuples(st.just("init"), st.lists(byte, max_size=8).map(lambda l: bytes(l).hex()),
                     st.sampled_from([0, 0, 0xff, 0x61])).map(list)
    pos = st.one_of(st.tuples(st.just(0), st.integers(0, 24)).map(list),
                    st.tuples(st.just(1), st.integers(-3, 4)).map(list))
    optint = st.one_of(st.none(), st.integers(0, 24))
    op = st.one_of(
        st.tuples(st.just("geti"), pos).map(list),
        st.tuples(st.just("getneg"), st.integers(0, 7)).map(list),
        st.tuples(st.just("gets"), pos, st.one_of(st.none(), pos)).map(list),
        st.tuples(st.just("gets"), pos, pos).map(list),
        st.tuples(st.just("getstep"), pos, pos, st.integers(2, 4)).map(list),
        st.tuples(st.just("seti"), pos, st.one_of(data1, data1, data1, data)).map(list),
        st.tuples(st.just("sets"), pos, st.one_of(data1, data1, data1, data)).map(list),
        st.tuples(st.just("setnone"), pos).map(list),
        st.tuples(st.just("iadd"), data).map(list),
        st.tuples(st.just("iadd"), data1).map(list),
        st.tuples(st.just("find"), pat, optint, optint).map(list),
        st.tuples(st.just("find"), pat, st.none(), st.none()).map(list),
        st.tuples(st.just("rfind"), pat, optint, optint).map(list),
        st.tuples(st.just("rfind"), pat, st.none(), st.none()).map(list),
        st.tuples(st.just("in"), pat).map(list),
    )
    return st.tuples(init, st.lists(op, max_size=25)).map(lambda t: [t[0]] + t[1])


class C33(Check):
    pid = "C33"
    rule = ("Hypothesis histories: StrPatchwork(initial bytes <=8, padding 00/ff/61) then <=25 operations: int-index "
            "reads (inside, at len, past len, negative in range), slice reads a:b and a: with the stop inside/at/past "
            "len, int-index and equal-length slice writes (inside, straddling the end, at len, past len leaving a "
            "gap; empty data and None included), +=, find/rfind with optional start/end, `in`, len, bytes; content "
            "and len compared with a bytearray model after every operation. Bytes from {00,61,62,ff} so searches "
            "hit. Non-trivial: a search (find/rfind/in) executed after a write or append; distinct by history.")
    assumptions = ["indices and slice bounds are non-negative (negative int indices only within -len..-1), slice steps 1..4 on reads only",
                   "slice writes have len(data) == stop - start (callers' usage); other lengths are out of domain",
                   "the padding byte is a single byte",
                   "a write ending past the end grows the buffer with padding up to the end of the write "
                   "(also for an empty write: the buffer grows to its offset)"]
    level_text = ("randomized model-based testing of operation histories against a bytearray + padding model, "
                  "content compared after every operation")
    technique = "model-based stateful property testing (Hypothesis histories, bytearray model)"

    def nshards(self, tier):
        return 16

    def run_shard(self, tier, seed, shard, nshards):
        res = ShardResult()
        n = 15000 if tier == "thorough" else 1500

        def nontrivial(ops):
            s = Sim.last
            res.counters["searches_after_mutation"] += s.search_after_mutation
            for op in ops[1:]:
                res.counters["op:" + op[0]] += 1
            return s.search_after_mutation > 0
        hyp.survey_histories(res, history_strategy(), Sim, n, seed, nontrivial=nontrivial)
        return res

    def replay(self, case):
        return hyp.replay_history(Sim, case)

    def shrink(self, failure, tier):
        ops = failure.case["ops"]
        head, tail = ops[:1], ops[1:]

        def still(cand):
            f = hyp.run_history(Sim, head + cand)
            return f is not None and f.bucket == failure.bucket
        if len(tail) >= 2:
            tail = hyp.ddmin_list(tail, still)
        f = hyp.run_history(Sim, head + tail)
        if f is None or f.bucket != failure.bucket:
            return failure
        return Failure(f.bucket, f.detail, {"ops": head + tail})


CHECK = C33()
