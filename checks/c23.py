"""C23 — breakpoints fire exactly when control reaches their address.

Reference: the executed-instruction address sequence T of the program (python backend, single-step configuration
jit_maxline = 1 / max_exec_per_call = 1, cross-checked against the default configuration of both backends; programs
on which these disagree are C20/C21 matters and are dropped).  A *plan* registers callbacks on addresses of T (block
starts, mid-block instructions), on never-reached addresses, before the run / after a complete first run (code already
translated) / from inside another callback, removes them by callback or by address after k hits, and makes some
return a non-True value.  A small model walks T and produces the expected event log (hits in order, stops with the
value returned and jitter.pc); the real log, the executed-address trace and the final state must match on both backends.
"""
import collections
import random

from vlib.runner import Check, ShardResult, Failure
from vlib import ccorpus, jitlab
from checks import c20, c21

ARCHS = ["x86_32", "x86_64", "arml", "aarch64l", "mips32l", "ppc32b", "msp430"]
FUNCS = ["arr_loop", "loop_cond", "nested", "switch4"]
STEP_LIMIT = 4000


# ---------------------------------------------------------------------------------------------
# the model

def retval(v):
    return {"true": True, "false": False, "none": None}.get(v, v) if isinstance(v, str) else v


def expected_events(T, sentinel, plan):
    """-> (events, n_stops, hit feature info).  T: executed addresses; plan: dict(specs={id: spec},
    pre=[["bp"|"set_bp", id, addr], ...]).  Events use the jitlab format (without register logs and traces)."""
    specs = dict(plan["specs"])
    specs["S"] = {"ret": "false", "stop": True}
    reg = collections.OrderedDict()

    def add(cid, addr):
        lst = reg.setdefault(addr, [])
        if cid not in lst:
            lst.append(cid)

    def setbp(cid, addr):
        reg[addr] = [cid]

    def rm_cb(cid):
        for a in list(reg):
            if cid in reg[a]:
                reg[a].remove(cid)
                if not reg[a]:
                    del reg[a]

    def rm_addr(addr):
        reg.pop(addr, None)

    def apply(op):
        if op[0] == "bp":
            add(op[1], op[2])
        elif op[0] == "set_bp":
            setbp(op[1], op[2])
        elif op[0] == "rm_cb":
            rm_cb(op[1])
        elif op[0] == "rm_addr":
            rm_addr(op[1])
        else:
            raise ValueError(op)
    add("S", sentinel)
    for op in plan["pre"]:
        apply(op)
    hits = collections.Counter()
    if plan.get("mode") == "after_run1":
        hits["S"] = 1          # the sentinel callback already fired once at the end of the preliminary run
    events = []
    running = True
    for a in list(T) + [sentinel]:
        if a not in reg:
            continue
        for cid in list(reg[a]):
            if cid not in reg.get(a, []):
                continue            # removed by an earlier callback of this visit: must not be invoked any more
            hits[cid] += 1
            n = hits[cid]
            events.append(["bp", cid, a, n])
            spec = specs[cid]
            for act in spec.get("after", []):
                if act[0] == n or act[0] == 0:
                    apply(act[1:])
            if spec.get("stop"):
                running = False
            ret = spec.get("ret", "true")
            if spec.get("ret_at") and str(n) in spec["ret_at"]:
                ret = spec["ret_at"][str(n)]
            ret = retval(ret)
            if ret is not True:
                events.append(["cont", "ret", ret, a, running])
    nstops = sum(1 for e in events if e[0] == "cont")
    return events, nstops


def strip(events):
    out = []
    for e in events:
        if e[0] == "bp":
            out.append(e[:4])
        elif e[0] == "cont":
            out.append(e[:5])
    return out


# ---------------------------------------------------------------------------------------------
# scenarios

def base_case(prog):
    return {"arch": prog["arch"], "code": prog["code"], "base": prog["base"], "entry": prog["entry"],
            "args": prog["args"], "arr": prog["arr"], "map": "rw"}


def plan_scenario(prog, plan, nstops, backend):
    scn, _ = c20.build_scenario(base_case(prog), backend)
    scn["log_mn"] = True
    scn["step_limit"] = STEP_LIMIT
    sent = scn["script"][0]
    script = [sent]
    if plan.get("mode") == "after_run1":
        script += [["run", prog["entry"]], ["reset"], ["clear_exc"]]
    for op in plan["pre"]:
        script.append([op[0], op[1], op[2], plan["specs"][op[1]]])
    script.append(["init_run", prog["entry"]])
    script += [["cont"]] * (nstops + 2)
    # callbacks created inside other callbacks need their spec: the "after" ops carry it
    scn["script"] = script
    return scn


def with_specs(plan):
    """`after` ops of kind bp/set_bp get the spec of the callback they register appended (jitlab format)."""
    specs = {}
    for cid, spec in plan["specs"].items():
        sp = dict(spec)
        acts = []
        for act in spec.get("after", []):
            if act[1] in ("bp", "set_bp"):
                acts.append(list(act[:4]) + [plan["specs"][act[2]]])
            else:
                acts.append(list(act))
        sp["after"] = acts
        specs[cid] = sp
    # nested specs: one more level is enough for the generated plans (a callback added by a callback)
    for cid, sp in specs.items():
        for act in sp["after"]:
            if act[1] in ("bp", "set_bp"):
                act[4] = specs_shallow(plan, act[2])
    return dict(plan, specs=specs)


def specs_shallow(plan, cid):
    sp = dict(plan["specs"][cid])
    acts = []
    for act in sp.get("after", []):
        if act[1] in ("bp", "set_bp"):
            acts.append(list(act[:4]) + [dict(plan["specs"][act[2]], after=[])])
        else:
            acts.append(list(act))
    sp["after"] = acts
    return sp


def reference(lab, prog, res=None):
    """-> None (dropped) or dict(T=[...], final={backend: snapshot}, info={addr: insn info})"""
    case = base_case(prog)
    obs = {}
    runs = [("python", {"jit_maxline": 1, "max_exec_per_call": 1}, "single"),
            ("python", None, "py"), ("gcc", None, "gcc")]
    if prog["arch"].startswith("mips"):
        runs = runs[1:]        # single-step translation cuts delay slots (C21 finding): default-configuration trace
    for backend, options, key in runs:
        scn, _ = c20.build_scenario(case, backend)
        scn["log_mn"] = True
        scn["step_limit"] = STEP_LIMIT
        if options:
            scn["options"] = options
        o = lab.run(scn, backend)
        if "setup_error" in o:
            raise RuntimeError("jitlab setup error: %s\n%s" % (o["setup_error"], o.get("tb")))
        if "events" not in o:
            if res is not None:
                res.dropped["reference-run:" + ("time-limit" if "timeout" in o else "died")] += 1
            return None
        c = [e for e in o["events"] if e[0] == "cont"][-1]
        if c[1] != "ret" or c[2] is not False:
            if res is not None:
                res.dropped["reference-run-does-not-return:%s" % c20.term_desc(o)] += 1
            return None
        obs[key] = (c[5], o["final"])
    traces = [v[0] for v in obs.values()]
    if any(t != traces[0] for t in traces[1:]):
        if res is not None:
            res.dropped["reference-traces-disagree(C20/C21 matter)"] += 1
        return None
    T = traces[0]
    scn, _ = c20.build_scenario(case, "python")
    scn["script"] = [["insn_info", sorted(set(T))]]
    o = lab.run(scn, "python")
    info = {}
    for e in o.get("events", []):
        if e[0] == "insn_info":
            info = {int(k): v for k, v in e[1].items()}
    return {"T": T, "final": {"python": obs["py"][1], "gcc": obs["gcc"][1]}, "info": info}


def classify(T, entry, info):
    """-> dict addr -> 'start' | 'mid'; delay-slot instructions are excluded"""
    starts = {entry}
    for a, b in zip(T, T[1:]):
        i = info.get(a)
        if i is None or a + i[0] != b:
            starts.add(b)
    slots = set()
    for a in set(T):
        i = info.get(a)
        if i and i[1] and i[2]:      # a branch (breakflow) with delay slots
            cur = a + i[0]
            for _ in range(i[1]):
                slots.add(cur)
                j = info.get(cur)
                cur += j[0] if j else 4
    # the instruction following a delay slot is reached by fall-through of a block end: a block start
    out = {}
    for a in set(T):
        if a in slots:
            continue
        out[a] = "start" if a in starts else "mid"
    return out


# ---------------------------------------------------------------------------------------------
# plans

def fixed_plans(T, entry, cls, info, code_end):
    cnt = collections.Counter(T)
    mids = sorted((a for a in cls if cls[a] == "mid"), key=lambda a: (-cnt[a], a))
    starts = sorted((a for a in cls if cls[a] == "start" and a != entry), key=lambda a: (-cnt[a], a))
    plans = []
    if not mids:
        return plans
    m0 = mids[0]
    m1 = mids[len(mids) // 2]
    s0 = starts[0] if starts else entry
    plans.append(("mid-before", {"mode": "before", "pre": [["bp", "A", m0]], "specs": {"A": {}}}))
    plans.append(("mid-after-translation", {"mode": "after_run1", "pre": [["bp", "A", m0]], "specs": {"A": {}}}))
    plans.append(("mid-stop-resume", {"mode": "before", "pre": [["bp", "A", m0]],
                                      "specs": {"A": {"ret_at": {"2": "false", "3": 0}}}}))
    plans.append(("two-callbacks-first-self-removes", {
        "mode": "before", "pre": [["bp", "A", m0], ["bp", "B", m0]],
        "specs": {"A": {"after": [[1, "rm_cb", "A"]]}, "B": {}}}))
    plans.append(("added-by-callback-mid", {
        "mode": "before", "pre": [["bp", "A", s0]],
        "specs": {"A": {"after": [[1, "bp", "B", m1]]}, "B": {"ret_at": {"1": "none"}}}}))
    plans.append(("removed-by-address-from-other", {
        "mode": "before", "pre": [["bp", "A", m0], ["bp", "B", s0]],
        "specs": {"A": {}, "B": {"after": [[2, "rm_addr", m0]]}}}))
    inside = None
    for a in sorted(info):
        if info[a] and info[a][0] > 1 and (a + 1) not in info:
            inside = a + 1
            break
    never = [code_end + 0x40] + ([inside] if inside is not None else [])
    plans.append(("never-reached", {"mode": "before",
                                    "pre": [["bp", "N%d" % i, a] for i, a in enumerate(never)] + [["bp", "E", entry]],
                                    "specs": dict([("N%d" % i, {}) for i in range(len(never))] + [("E", {})])}))
    plans.append(("set_breakpoint-mid-after-translation", {"mode": "after_run1", "pre": [["set_bp", "A", m1]],
                                                           "specs": {"A": {}}}))
    plans.append(("self-remove-returning-false", {
        "mode": "after_run1", "pre": [["bp", "A", m0]],
        "specs": {"A": {"after": [[2, "rm_cb", "A"]], "ret_at": {"2": "false"}}}}))
    return plans


def random_plan(rng, T, entry, cls, code_end):
    cnt = collections.Counter(T)
    addrs = sorted(cls)
    ids = ["A", "B", "C", "D"]
    nb = rng.randint(1, 4)
    specs = {}
    pre = []
    pending = []
    for i in range(nb):
        cid = ids[i]
        r = rng.random()
        if r < 0.12:
            addr = code_end + 0x10 * (i + 1)
        else:
            addr = rng.choice(addrs)
        spec = {}
        k = rng.random()
        if k < 0.3:
            spec["ret_at"] = {str(rng.randint(1, 3)): rng.choice(["false", "none", 0, "tag"])}
        k = rng.random()
        if k < 0.25:
            spec.setdefault("after", []).append([rng.randint(1, 3), "rm_cb", cid])
        elif k < 0.4:
            spec.setdefault("after", []).append([rng.randint(1, 3), "rm_addr", addr])
        elif k < 0.55 and i > 0:
            spec.setdefault("after", []).append([rng.randint(1, 2), "rm_cb", ids[rng.randrange(i)]])
        specs[cid] = spec
        if i > 0 and rng.random() < 0.3:
            pending.append((cid, addr))
        else:
            pre.append(["bp", cid, addr])
    if not pre:
        cid, addr = pending.pop(0)
        pre.append(["bp", cid, addr])
    for cid, addr in pending:
        host = rng.choice([p[1] for p in pre])
        if any(p[1] == host and p[2] == addr for p in pre):
            pre.append(["bp", cid, addr])      # would be an addition at the visited address: register it up front
            continue
        specs[host].setdefault("after", []).append([rng.randint(1, 2), "bp", cid, addr])
    mode = "after_run1" if rng.random() < 0.5 else "before"
    return {"mode": mode, "pre": pre, "specs": specs}


def plan_features(plan, cls):
    f = set()
    f.add("after-translation" if plan.get("mode") == "after_run1" else "before")
    for op in plan["pre"]:
        f.add(cls.get(op[2], "never"))
        if op[0] == "set_bp":
            f.add("set_breakpoint")
    same = collections.Counter(op[2] for op in plan["pre"])
    for spec in plan["specs"].values():
        for act in spec.get("after", []):
            if act[1] in ("bp", "set_bp"):
                same[act[3]] += 1
    if any(v > 1 for v in same.values()):
        f.add("shared-address")
    for spec in plan["specs"].values():
        for act in spec.get("after", []):
            f.add({"bp": "added-in-callback", "set_bp": "added-in-callback", "rm_cb": "rm-by-callback",
                   "rm_addr": "rm-by-address"}[act[1]])
            if act[1] == "bp":
                f.add(cls.get(act[3], "never"))
        if spec.get("ret_at"):
            f.add("stop")
    return f


def judge_plan(lab, prog, ref, plan, backend):
    """-> None (inconclusive) | (bucket, detail) | "ok" """
    lay = jitlab.layout(prog["arch"])
    exp, nstops = expected_events(ref["T"], lay["sentinel"], plan)
    exp += [["cont", "ret", None, lay["sentinel"], False]] * (nstops + 2 - sum(1 for e in exp if e[0] == "cont"))
    scn = plan_scenario(prog, with_specs(plan), nstops, backend)
    o = lab.run(scn, backend)
    if "setup_error" in o:
        raise RuntimeError("jitlab setup error: %s\n%s" % (o["setup_error"], o.get("tb")))
    if "timeout" in o:
        return None
    pre = "%s|%s" % (prog["arch"], backend)
    if "died" in o:
        return (pre + "|worker-died", "worker process died (%r)" % o["died"])
    events = o["events"]
    if plan.get("mode") == "after_run1":
        # drop the events of the preliminary run (sentinel hit + its cont)
        k = next(i for i, e in enumerate(events) if e[0] == "cont")
        events = events[k + 1:]
    got = strip(events)
    if got != exp:
        i = 0
        while i < min(len(got), len(exp)) and got[i] == exp[i]:
            i += 1
        e = exp[i] if i < len(exp) else None
        g = got[i] if i < len(got) else None
        if g is not None and g[0] == "cont" and g[1] != "ret":
            kind = "run-raised:%s" % (g[2][0] if g[1] == "pyexc" else c20.flag_names(g[2]))
        elif e is not None and e[0] == "bp" and (g is None or g[0] != "bp" or g[1:3] != e[1:3]):
            later = any(x[0] == "bp" and x[1:3] == e[1:3] for x in got[i:])
            kind = "hit-order" if later and g is not None and g[0] == "bp" else "missed-hit"
            if g is not None and g[0] == "bp" and not any(x[0] == "bp" and x[1:3] == g[1:3] for x in exp[i:]):
                kind = "spurious-hit"
        elif g is not None and g[0] == "bp":
            kind = "spurious-hit"
        elif e is not None and g is not None and e[0] == "cont" and g[0] == "cont":
            kind = "stop-pc" if e[3] != g[3] else "stop-value"
        else:
            kind = "log-differs"
        return (pre + "|" + kind, "event %d: expected %r, got %r (expected log has %d entries, real one %d); plan %r"
                % (i, e, g, len(exp), len(got), plan))
    trace = []
    for ev in events:
        if ev[0] == "cont" and ev[5]:
            trace += ev[5]
    if trace != ref["T"]:
        i = 0
        while i < min(len(trace), len(ref["T"])) and trace[i] == ref["T"][i]:
            i += 1
        return (pre + "|trace-changed", "executed addresses differ from the breakpoint-free run at position %d: "
                "%s vs reference %s; plan %r" % (i, [hex(x) for x in trace[max(0, i - 2):i + 3]],
                                                 [hex(x) for x in ref["T"][max(0, i - 2):i + 3]], plan))
    d = jitlab.diff_snap(ref["final"][backend], o["final"])
    if d:
        return (pre + "|state-changed", "final state differs from the breakpoint-free run: %s; plan %r"
                % ("; ".join(d[:5]), plan))
    return "ok"


class C23(Check):
    pid = "C23"
    needs_build = True
    rule = ("programs: 4 loop/branch C functions (clang -O1; x86_32/64, arml, aarch64l, mips32l, ppc32b, msp430), "
            "x86_16 and MeP templates, plus a seeded generated function; per program 9 fixed plan shapes (mid-block "
            "before / after translation, stop and resume, two callbacks on one address with self-removal, added "
            "from a callback, removed by address from another callback, never-reached addresses incl. the middle "
            "of an instruction, set_breakpoint after translation, self-removal while returning False) and seeded "
            "random plans (1-4 callbacks on executed / unexecuted addresses, removal by callback or address after "
            "k hits, additions from callbacks, return values False/None/0/'tag'), both backends; expected log from "
            "a model walking the single-step reference trace. Non-trivial: the plan has a mid-block breakpoint "
            "registered after the code was translated (after a first run or from a callback); distinct by "
            "(program, backend, plan).")
    assumptions = ["python and gcc backends only (llvmlite absent)",
                   "the reference trace is the python single-step log_mn trace, required to equal the "
                   "default-configuration traces of both backends (otherwise the program is dropped: C20/C21 matter); "
                   "for MIPS the default-configuration trace is used (single-step cuts delay slots, C21 finding)",
                   "no breakpoint is placed on a delay-slot instruction (the block split there loses the branch; "
                   "recorded as a finding of C21/C23, not generated)",
                   "a callback never registers another callback on the address being visited (order undefined)",
                   "a callback removed by an earlier callback of the same visit must not be invoked; one registered "
                   "after the removed one must still be invoked"]
    level_text = ("model-based testing of the breakpoint registry and block splitting against a trace-derived "
                  "expected log, fixed plan shapes plus random plans")
    technique = "model-based testing (trace-walking reference model) with generated breakpoint plans"

    def nshards(self, tier):
        return 32 if tier == "thorough" else 16

    def programs(self, tier, wd, shard, nshards, seed):
        units = []
        for arch in ARCHS:
            for name in FUNCS:
                units.append(("c", arch, name))
        for arch in c20.ARCHS_T:
            n = len(jitlab.X86_16_TEMPLATES) if arch == "x86_16" else len(jitlab.MEP_TEMPLATES)
            for k in range(n):
                units.append(("t", arch, k))
        mine = [u for i, u in enumerate(units) if i % nshards == shard]
        progs = []
        by_arch = collections.OrderedDict()
        for u in mine:
            if u[0] == "c":
                by_arch.setdefault(u[1], []).append(u[2])
            else:
                p = jitlab.template_programs(u[1])[u[2]]
                if p["code"] is not None:
                    args, arr = c20.inputs_for(u[1], "rw")
                    progs.append(dict(arch=u[1], tag=p["tag"], opt="", code=p["code"].hex(), base=p["base"],
                                      entry=p["entry"], args=args, arr=arr))
        for arch, names in by_arch.items():
            funcs = [f for f in ccorpus.fixed_functions(arch) if f[0] in names]
            progs += c21.CHECK.compile(wd, arch, "-O1", funcs, "d%d" % shard, "rw")
        rng = random.Random(seed)
        if tier == "thorough" or shard % 4 == 0:
            arch = ARCHS[(shard // 4) % len(ARCHS)]
            funcs = ccorpus.gen_functions(rng.getrandbits(30) + 1, 1, arch)
            progs += c21.CHECK.compile(wd, arch, rng.choice(["-O1", "-O2"]), funcs, "r%d" % shard, "rw2")
        return progs

    def run_shard(self, tier, seed, shard, nshards):
        res = ShardResult()
        if not jitlab.shard_enabled(shard):
            res.dropped["shard-not-selected(VERIF_ONLY_SHARDS)"] += 1
            res.exhaustive["all-shards-run"] = False
            return res
        nrand = 12 if tier == "thorough" else 3
        rng = random.Random(seed ^ 0x5bd1e995)
        with jitlab.JitLab(time_limit=600 if tier == "thorough" else 300) as lab:
            wd = lab.workdir()
            for prog in self.programs(tier, wd, shard, nshards, seed):
                ref = reference(lab, prog, res)
                if ref is None:
                    continue
                cls = classify(ref["T"], prog["entry"], ref["info"])
                code_end = prog["base"] + len(prog["code"]) // 2
                plans = fixed_plans(ref["T"], prog["entry"], cls, ref["info"], code_end)
                for _ in range(nrand):
                    plans.append(("random", random_plan(rng, ref["T"], prog["entry"], cls, code_end)))
                for name, plan in plans:
                    feats = plan_features(plan, cls)
                    nt = "mid" in feats and ("after-translation" in feats or "added-in-callback" in feats)
                    for backend in ("python", "gcc"):
                        r = judge_plan(lab, prog, ref, plan, backend)
                        if r is None:
                            res.dropped["time-limit"] += 1
                            continue
                        res.case(nontrivial_key=(prog["arch"], prog["tag"], prog["opt"], backend, repr(plan))
                                 if nt else None,
                                 sample={"arch": prog["arch"], "program": prog["tag"], "backend": backend,
                                         "plan": plan} if nt and name == "random" else None)
                        res.counters["plan:" + name] += 1
                        for ft in feats:
                            res.counters["feature:" + ft] += 1
                        if r != "ok":
                            fl = sorted(feats - {"before", "start"})
                            bucket = "%s|%s" % (r[0], ",".join(fl))
                            res.fail(bucket, r[1] + " [program %s %s]" % (prog["tag"], prog["opt"]),
                                     dict(prog, backend=backend, plan=plan))
            if lab.stats["timeout"]:
                res.dropped["worker-time-limit"] += lab.stats["timeout"]
        return res

    def replay(self, case):
        with jitlab.shared() as lab:
            ref = reference(lab, case, None)
            if ref is None:
                return None
            cls = classify(ref["T"], case["entry"], ref["info"])
            r = judge_plan(lab, case, ref, case["plan"], case["backend"])
        if r is None or r == "ok":
            return None
        feats = plan_features(case["plan"], cls)
        return Failure("%s|%s" % (r[0], ",".join(sorted(feats - {"before", "start"}))), r[1], case)

    def shrink(self, failure, tier):
        """Drop callbacks / actions of the plan while the bucket is kept."""
        case = failure.case
        best = failure
        plan = case["plan"]
        with jitlab.shared() as lab:
            ref = reference(lab, case, None)
            if ref is None:
                return failure
            cls = classify(ref["T"], case["entry"], ref["info"])

            def bucket_of(pl):
                r = judge_plan(lab, case, ref, pl, case["backend"])
                if r is None or r == "ok":
                    return None, None
                feats = plan_features(pl, cls)
                return "%s|%s" % (r[0], ",".join(sorted(feats - {"before", "start"}))), r[1]
            changed = True
            budget = 25
            while changed and budget > 0:
                changed = False
                cands = []
                for cid in list(plan["specs"]):
                    used = any(act[1] == "bp" and act[2] == cid for sp in plan["specs"].values()
                               for act in sp.get("after", []))
                    pre = [op for op in plan["pre"] if op[1] != cid]
                    if pre and not used:
                        sp = {k: dict(v, after=[a for a in v.get("after", []) if not (a[1] == "rm_cb" and a[2] == cid)])
                              for k, v in plan["specs"].items() if k != cid}
                        cands.append(dict(plan, pre=pre, specs=sp))
                    if plan["specs"][cid].get("ret_at"):
                        sp = dict(plan["specs"])
                        sp[cid] = {k: v for k, v in sp[cid].items() if k != "ret_at"}
                        cands.append(dict(plan, specs=sp))
                for cand in cands:
                    budget -= 1
                    b, d = bucket_of(cand)
                    if b == failure.bucket:
                        plan = cand
                        best = Failure(b, d + " [program %s %s]" % (case["tag"], case["opt"]),
                                       dict(case, plan=cand))
                        changed = True
                        break
                    if budget <= 0:
                        break
        return best


CHECK = C23()
