"""C40 — constant propagation preserves behaviour.

Generated: structured IR graphs of a function (vlib.irgraphgen.graph over the x86_32 model-call
lifter: data registers, flags, 8/16-bit identifiers, stack / register / absolute memory cells read
and written, branches, bounded loops, modelled calls, parallel AssignBlock hazards); one shard in
eight takes x86_32 functions of the compiled-C corpus instead (vlib.ccorpus, clang -O0/-O1/-O2/-Os).
Two hazard-directed strata (vlib.ircstgen, PRNG-driven, 24 + 24 cases per shard in the quick tier) add what independent
draws make rare: (a) distinct constants stored to adjacent cells of one base, re-read at unaligned offsets / other
widths spanning them (the symbolic memory must glue slices of two constants), the loaded registers used through
copies / arithmetic and stored to sink cells; (b) loads through a pointer register that is path dependent (set
differently in two joining arms, modified in one arm, walked in a loop), the pointer redefined after the load
(also in the same AssignBlock, or by the loaded value) and the loaded value used afterwards.
propagate_cst_expr(lifter, copy, head, lifter.arch.regs.regs_init) is applied to a copy, as
example/expression/constant_propagation.py does.

Judged with the concrete interpreter on original vs rewritten graph, from 8 states consistent with
init_infos (every register X holds an arbitrary value and X_init the same value; 8 different memory
contents): same ordered memory writes (those that change memory), same exit destination, same sequence of executed blocks, same final value
of every register of the vocabulary.

Buckets name the root cause found by substitution: non-constant-pointer-read-propagated when the failure disappears
once a memory read counts as a "constant expression" only if its pointer is one (what is_expr_cst documents),
memory-read-propagated-as-constant when it
disappears once memory reads are not taken as "constant expressions" at all (is_expr_cst), via-simplifier when
it disappears with a pass-free ExpressionSimplifier in place of cst_propag's expr_simp, else mismatch.
"""
from vlib.runner import Check, ShardResult, Failure
from vlib import hyp
from vlib import irgraphgen as gg
from vlib import ircstgen as cg

_state = {}
REGS = [r for r in gg.STATE_REGS]


def voc():
    if "voc" not in _state:
        _state["voc"] = gg.Vocab(nvars=4, flags=2, small=True, mem=True, calls=True, rich=True, ncounters=3)
    return _state["voc"]


def where_of(ex):
    import traceback
    for fr in reversed(traceback.extract_tb(ex.__traceback__)):
        if "/miasm/" in fr.filename:
            return "%s:%s" % (fr.filename.split("/miasm/")[-1], fr.name)
    return "?"


def count_rewrites(a, b):
    n = 0
    for lk, blk in a.blocks.items():
        nb = b.blocks.get(lk)
        if nb is None or len(nb) != len(blk):
            n += 1
            continue
        for x, y in zip(blk, nb):
            if dict(x.items()) != dict(y.items()):
                n += 1
    return n


def _no_mem_cst(lifter, expr):
    """diagnosis only: the constant test of cst_propag, memory reads not being constants"""
    for element in expr.get_r(mem_read=True):
        if element.is_mem():
            return False
        if element.is_id() and element in lifter.arch.regs.all_regs_ids_init:
            continue
        if element.is_int():
            continue
        return False
    return True


def _ptr_checked_cst(lifter, expr):
    """diagnosis only: the constant test as documented ("only composed of ExprInt and init_regs", memory reads
    accepted) applied to the pointers of the memory reads too"""
    for element in expr.get_r(mem_read=True):
        if element.is_mem() or element.is_int():
            continue
        if element.is_id() and element in lifter.arch.regs.all_regs_ids_init:
            continue
        return False
    return True


def run_propag(lifter, ircfg, head, nosimp=False, nomem=False, ptrchk=False):
    """-> (copy rewritten, exception | None).  nosimp / nomem / ptrchk are used for the diagnosis of a failure only:
    pass-free expression simplifier / memory reads not taken as constant expressions / memory reads taken as
    constant expressions only when their pointer is one."""
    from miasm.analysis import cst_propag
    import logging
    cst_propag.LOG_CST_PROPAG.setLevel(logging.ERROR)
    work = gg.copy_ircfg(ircfg)
    saved = cst_propag.expr_simp
    saved_cst = cst_propag.SymbExecStateFix.is_expr_cst
    if nosimp:
        from miasm.expression.simplifications import ExpressionSimplifier
        cst_propag.expr_simp = ExpressionSimplifier()
    if nomem:
        cst_propag.SymbExecStateFix.is_expr_cst = lambda _, lifter_, expr: _no_mem_cst(lifter_, expr)
    elif ptrchk:
        cst_propag.SymbExecStateFix.is_expr_cst = lambda _, lifter_, expr: _ptr_checked_cst(lifter_, expr)
    try:
        try:
            cst_propag.propagate_cst_expr(lifter, work, head, lifter.arch.regs.regs_init)
        except Exception as ex:
            return work, ex
    finally:
        cst_propag.expr_simp = saved
        cst_propag.SymbExecStateFix.is_expr_cst = saved_cst
    return work, None


LIFTED_REGS = [(n, 32) for n in ("EAX", "EBX", "ECX", "EDX", "ESI", "EDI", "EBP", "ESP")] + \
              [(n, 1) for n in ("zf", "nf", "pf", "of", "cf", "af")]


def judge(case, stats=None, info=None):
    """case: {"graph": raw graph} | {"lifted": compiled function}"""
    fails = []
    if "lifted" in case:
        lifter, ircfg, head = gg.lift_function(case["lifted"])
        states = gg.lifted_states(lifter, 8, init_suffix="_init")
        REGS_ = LIFTED_REGS
    else:
        graph = case["graph"]
        lifter, ircfg, keys = gg.build(graph)
        head = keys[graph["head"]]
        states = gg.make_states(8, init_suffix="_init")
        REGS_ = REGS
    work, ex = run_propag(lifter, ircfg, head)
    if ex is not None:
        return [("exception:%s@%s" % (type(ex).__name__, where_of(ex)), "propagate_cst_expr raised %r" % ex)]
    nrw = count_rewrites(ircfg, work)
    if info is not None:
        info["rewritten"] = nrw
    if stats is not None:
        stats["assignblks-rewritten"] += nrw
    r = gg.compare_runs(ircfg, work, head, states=states, mode="sequence", regs=REGS_, same_path=True, stats=stats,
                        word="propagated", calls=False)
    if r:
        kind = r[0].split(":")[0]

        def still_fails(**kw):
            w, e = run_propag(lifter, ircfg, head, **kw)
            return e is not None or gg.compare_runs(ircfg, w, head, states=states, mode="sequence", regs=REGS_,
                                                    same_path=True, word="propagated", calls=False) is not None
        # root cause diagnosis by substitution
        if not still_fails(ptrchk=True):
            # a read through a pointer that is not a constant expression was propagated (the pointer may change)
            bucket = "non-constant-pointer-read-propagated:" + kind
        elif not still_fails(nomem=True):
            bucket = "memory-read-propagated-as-constant:" + kind
        elif not still_fails(nosimp=True):
            bucket = "via-simplifier:" + kind
        else:
            bucket = "mismatch:" + kind
        fails.append((bucket, r[1]))
    return fails


class C40(Check):
    pid = "C40"
    rule = ("Hypothesis: structured IR graphs of a function (vlib.irgraphgen: diamond / multi-way / counted, while, "
            "irreducible loops / loop through the head / early exits / modelled calls; memory reads and writes on "
            "stack, register-based and absolute cells; irgen's parallel-assignment hazards; <= 12 blocks; x86_32 "
            "model-call lifter); two PRNG-driven hazard strata of vlib.ircstgen (24 + 24 per shard quick, 150 + 150 "
            "thorough): distinct constants stored to adjacent cells of one base then loaded at unaligned offsets / "
            "other widths spanning them and used through registers and sink stores; loads through a path-dependent "
            "pointer register (diamond arms / if-then / loop walk; controls with constant pointers) that is redefined "
            "after the load, loaded value used afterwards; plus, in one shard of eight, x86_32 functions compiled "
            "from generated C and lifted. "
            "propagate_cst_expr with init_infos = arch.regs.regs_init on a copy; original and "
            "rewritten graph executed by the concrete interpreter from 8 states with X_init = X and 8 memory "
            "contents; memory writes, exit, block path and all vocabulary registers compared. Non-trivial: at least one "
            "AssignBlock was rewritten; distinct by serialised graph.")
    assumptions = ["operators without evaluation rule (call_func_*) are pure keyed hashes",
                   "a memory write storing the value the cell already holds is not an observable event",
                   "registers start with arbitrary distinct-looking values, so cells addressed from different "
                   "registers do not overlap except by generated offsets (the symbolic engine's no-alias model for "
                   "distinct symbolic bases is not challenged on purpose)"]
    level_text = ("randomized differential execution of the constant-propagated graph against the original on "
                  "generated functions")
    technique = "property-based differential testing with a concrete IR interpreter"

    def nshards(self, tier):
        return 32 if tier == "thorough" else 16

    def run_shard(self, tier, seed, shard, nshards):
        res = ShardResult()
        n = 360 if tier == "thorough" else 60
        if shard % 8 == 7:
            return self.run_lifted(res, seed, n)
        strat = gg.graph(voc(), depth=3, max_blocks=12)
        cnt = [0]

        def one(g):
            cnt[0] += 1
            info = {}
            fails = judge({"graph": g}, res.counters, info)
            for s in set(g["meta"]["shapes"]):
                res.counters["shape:" + s] += 1
            nt = info.get("rewritten", 0) > 0
            js = gg.ser(g)
            res.case(nontrivial_key=repr(js) if nt else None, sample=js if nt and cnt[0] % 41 == 1 else None)
            for b, d in fails:
                res.fail(b, d, {"graph": js})
        hyp.survey(strat, n, seed, one)
        # hazard-directed strata (vlib.ircstgen): adjacent constant cells re-read at other offsets / widths;
        # loads through path-dependent pointers redefined before the loaded value is used
        import random
        from vlib.runner import derive_seed
        nh = 150 if tier == "thorough" else 24
        for which, gen in (("cstmem", cg.const_cells_graph), ("pathptr", cg.path_pointer_graph)):
            for i in range(nh):
                g = gen(voc(), random.Random(derive_seed(seed, which, shard, i)))
                info = {}
                js = gg.ser(g)
                fails = judge({"graph": gg.deser(js)}, res.counters, info)
                for s in set(g["meta"]["shapes"]):
                    res.counters["shape:" + s] += 1
                nt = info.get("rewritten", 0) > 0
                res.counters[which + "-cases"] += 1
                res.case(nontrivial_key=repr(js) if nt else None, sample=js if nt and i == 5 and shard % 8 == 0 else None)
                for b, d in fails:
                    res.fail(b, d, {"graph": js})
        return res

    def run_lifted(self, res, seed, n):
        """functions of the compiled-C corpus (x86_32, -O0/-O1/-O2/-Os), lifted with the model-call lifter"""
        fns, dropped = gg.compile_functions(seed % 100000, 4)
        res.dropped.update(dropped)
        n = max(8, n // 2)
        fns.sort(key=lambda f: (f["tag"], f["opt"]))
        step = max(1, len(fns) // n)
        if step % 2 == 0:
            step += 1
        for fn in fns[::step][:n]:
            info = {}
            fails = judge({"lifted": fn}, res.counters, info)
            res.counters["lifted:" + fn["opt"]] += 1
            nt = info.get("rewritten", 0) > 0
            res.case(nontrivial_key=repr(fn) if nt else None,
                     sample={"lifted": dict(fn, code=fn["code"][:64] + "...")} if nt and fn["opt"] == "-O1" else None)
            for b, d in fails:
                res.fail(b, d, {"lifted": fn})
        return res

    def replay(self, case):
        if "lifted" in case:
            fails = judge(case)
            if not fails:
                return None
            return Failure(fails[0][0], fails[0][1], case)
        g = gg.deser(case["graph"])
        fails = judge({"graph": g})
        if not fails:
            return None
        want = case.get("_bucket")
        for b, d in fails:
            if want is None or b == want:
                return Failure(b, d, case)
        b, d = fails[0]
        return Failure(b, d, case)

    def shrink(self, failure, tier):
        if "lifted" in failure.case:
            return failure
        g = gg.deser(failure.case["graph"])

        def pred(x):
            return any(b == failure.bucket for b, _ in judge({"graph": x}))
        small = gg.shrink_graph(g, pred, budget=300 if tier == "quick" else 1500)
        for b, d in judge({"graph": small}):
            if b == failure.bucket:
                return Failure(b, d, {"graph": gg.ser(small)})
        return failure


CHECK = C40()
