"""C28 — the location database stays consistent.

Model-based histories over pools of 4 names and 4 offsets (offset 0 included).  The model is
{LocKey: [offset|None, set(names)]} (LocKeys are those returned by the database).  After every
call: the four private association tables are checked against the invariant of the statement
(written here, independently of consistency_check), consistency_check() must pass, and every
getter (per location, per pool name, per pool offset, .names/.offsets/.loc_keys) must agree with
the model.  A call that raises must leave all of that unchanged.

Expected outcome of each call, from the docstrings:
* add_location strict: raises iff the name or the offset is already known, else a new location;
* add_location non-strict: when nothing collides a new location; when the name and/or the offset
  designate one existing location that can carry both, that location (completed) is returned;
  when they conflict (two different locations, or the named location already has another
  offset) the call may raise (then unchanged) -- if it returns, the result must carry the
  requested name and offset and the state is re-read;
* add/remove_location_name, set/unset_location_offset(force), remove_location,
  get_or_create_*: as documented;
* merge(other): `other` is built by a nested history on a second database.  The merge is
  *compatible* when every foreign location touches at most one local location (through its
  names and offset) and every resulting location has at most one offset; then it must succeed,
  import every foreign association and keep every local one.  An incompatible merge may raise;
  then only consistency is required (the statement does not promise atomicity of a merge).
"""
import traceback

from vlib.runner import Check, ShardResult, Failure
from vlib import hyp
from vlib.hyp import CheckFailure

NAMES = ["a", "b", "c", "d"]
OFFSETS = [0, 1, 2, 0x1000]


def where_raised(e):
    tb = traceback.extract_tb(e.__traceback__)
    for fr in reversed(tb):
        if "/miasm/" in fr.filename:
            return fr.name
    return "?"


class Sim(object):
    last = None

    def __init__(self, nested=False):
        from miasm.core.locationdb import LocationDB
        self.db = LocationDB()
        self.locs = {}
        self.removed = []
        self.nops = 0
        self.rejected = 0
        self.collisions = 0
        self.merges = 0
        self.merges_compatible = 0
        self.nested = nested
        self.counters = {}
        if not nested:
            Sim.last = self

    # ---------------------------------------------------------------- model helpers
    def name_owner(self, name):
        for lk, (_, names) in self.locs.items():
            if name in names:
                return lk
        return None

    def offset_owner(self, off):
        if off is None:
            return None
        for lk, (o, _) in self.locs.items():
            if o == off:
                return lk
        return None

    def live(self):
        return sorted(self.locs, key=lambda lk: lk.key)

    def pick(self, i):
        lv = self.live()
        if not lv:
            return None
        return lv[i % len(lv)]

    def desc(self):
        return "{%s}" % ", ".join("%s:(%r,%s)" % (lk, o, sorted(n)) for lk, (o, n) in sorted(
            self.locs.items(), key=lambda kv: kv[0].key))

    def _fail(self, bucket, detail):
        pre = "[while building the foreign database of a merge] " if self.nested else ""
        raise CheckFailure(bucket, "%sop %d %r on %s: %s" % (pre, self.nops, self.cur, self.before, detail))

    # ---------------------------------------------------------------- observation
    def raw_invariant(self, what):
        db = self.db
        lks = set(db._loc_keys)
        o2l, l2o = db._offset_to_loc_key, db._loc_key_to_offset
        n2l, l2n = db._name_to_loc_key, db._loc_key_to_names
        for off, lk in o2l.items():
            if lk not in lks or l2o.get(lk, "absent") != off:
                self._fail("%s:tables-inconsistent:offset" % what, "offset %r -> %r but %r -> %r" % (off, lk, lk, l2o.get(lk)))
        for lk, off in l2o.items():
            if lk not in lks or o2l.get(off) != lk:
                self._fail("%s:tables-inconsistent:offset" % what, "%r -> offset %r but offset -> %r" % (lk, off, o2l.get(off)))
        for name, lk in n2l.items():
            if lk not in lks or name not in l2n.get(lk, ()):
                self._fail("%s:tables-inconsistent:name" % what, "name %r -> %r not listed (%r)" % (name, lk, l2n.get(lk)))
        for lk, names in l2n.items():
            if names and lk not in lks:
                self._fail("%s:tables-inconsistent:name" % what, "names of unknown %r" % lk)
            for name in names:
                if n2l.get(name) != lk:
                    self._fail("%s:tables-inconsistent:name" % what, "%r lists %r owned by %r" % (lk, name, n2l.get(name)))
        try:
            db.consistency_check()
        except AssertionError as e:
            self._fail("%s:consistency_check" % what, "consistency_check() fails")

    def read_state(self):
        db = self.db
        return {lk: [db.get_location_offset(lk), set(db.get_location_names(lk))] for lk in db.loc_keys}

    def sync(self, what):
        """full comparison of the database with the model"""
        self.raw_invariant(what)
        db = self.db
        st = self.read_state()
        if st != self.locs:
            self._fail("%s:state" % what, "database %s, expected %s" % (
                sorted((str(k), v[0], sorted(v[1])) for k, v in st.items()), self.desc()))
        for name in NAMES:
            own = self.name_owner(name)
            if db.get_name_location(name) != own:
                self._fail("%s:get_name_location" % what, "%r -> %r, expected %r" % (name, db.get_name_location(name), own))
            exp = self.locs[own][0] if own is not None else None
            if db.get_name_offset(name) != exp:
                self._fail("%s:get_name_offset" % what, "%r -> %r, expected %r" % (name, db.get_name_offset(name), exp))
        for off in OFFSETS:
            own = self.offset_owner(off)
            if db.get_offset_location(off) != own:
                self._fail("%s:get_offset_location" % what, "%r -> %r, expected %r" % (off, db.get_offset_location(off), own))
        exp_names = sorted(n for _, ns in self.locs.values() for n in ns)
        exp_offs = sorted(o for o, _ in self.locs.values() if o is not None)
        if sorted(db.names) != exp_names or sorted(db.offsets) != exp_offs:
            self._fail("%s:names-offsets" % what, "names %r offsets %r" % (db.names, db.offsets))
        for lk in self.removed:
            if db.get_location_offset(lk) is not None or db.get_location_names(lk):
                self._fail("%s:removed-location-has-data" % what, "%r" % lk)

    # ---------------------------------------------------------------- op plumbing
    def step(self, op):
        self.nops += 1
        self.cur = op
        self.before = self.desc()
        getattr(self, "op_" + op[0])(*op[1:])

    def attempt(self, fn):
        """-> (True, result) | (False, exception)"""
        try:
            return True, fn()
        except CheckFailure:
            raise
        except Exception as e:
            return False, e

    def expect_ok(self, what, fn):
        ok, r = self.attempt(fn)
        if not ok:
            self._fail("%s:unexpected-exception:%s@%s" % (what, type(r).__name__, where_raised(r)), "raised %r" % r)
        return r

    def expect_reject(self, what, fn):
        ok, r = self.attempt(fn)
        if ok:
            self._fail("%s:accepted-invalid" % what, "returned %r instead of raising" % (r,))
        self.rejected += 1
        self.sync(what + ":rejected")     # unchanged

    def new_loc(self, what, r, name, off):
        from miasm.expression.expression import LocKey
        if not isinstance(r, LocKey) or r in self.locs or r in self.removed:
            self._fail("%s:not-a-fresh-LocKey" % what, "returned %r" % (r,))
        self.locs[r] = [off, set([name]) if name is not None else set()]

    # ---------------------------------------------------------------- ops
    def op_add(self, ni, oi, strict):
        name = None if ni < 0 else NAMES[ni]
        off = None if oi < 0 else OFFSETS[oi]
        db = self.db
        nown = self.name_owner(name) if name is not None else None
        oown = self.offset_owner(off)
        cls = "name-%s,offset-%s" % ("none" if name is None else ("known" if nown is not None else "new"),
                                     "none" if off is None else ("known" if oown is not None else "new"))
        call = lambda: db.add_location(name=name, offset=off, strict=bool(strict))
        if strict:
            what = "add_location-strict:" + cls
            if nown is not None or oown is not None:
                return self.expect_reject(what, call)
            r = self.expect_ok(what, call)
            self.new_loc(what, r, name, off)
            return self.sync(what)
        what = "add_location-nonstrict:" + cls
        if nown is None and oown is None:
            r = self.expect_ok(what, call)
            self.new_loc(what, r, name, off)
            return self.sync(what)
        self.collisions += 1
        target = nown if nown is not None else oown
        conflict = False
        if nown is not None and oown is not None and nown != oown:
            conflict = True
        if nown is not None and off is not None and self.locs[nown][0] not in (None, off):
            conflict = True
        if conflict:
            what += ":conflict"
            ok, r = self.attempt(call)
            if not ok:
                self.rejected += 1
                return self.sync(what + ":rejected")
            # accepted: must carry what was requested; re-read the state
            self.raw_invariant(what)
            self.check_carries(what, r, name, off)
            self.locs = self.read_state()
            return self.sync(what)
        r = self.expect_ok(what, call)
        if name is not None:
            self.locs[target][1].add(name)
        if off is not None:
            self.locs[target][0] = off
        if r != target:
            self._fail(what + ":wrong-return", "returned %r, expected %r (the location carrying name %r / offset %r)"
                       % (r, target, name, off))
        self.sync(what)

    def check_carries(self, what, r, name, off):
        from miasm.expression.expression import LocKey
        db = self.db
        if not isinstance(r, LocKey) or r not in db.loc_keys:
            self._fail(what + ":wrong-return", "returned %r" % (r,))
        if name is not None and name not in db.get_location_names(r):
            self._fail(what + ":wrong-return", "returned %r which does not carry name %r" % (r, name))
        if off is not None and db.get_location_offset(r) != off:
            self._fail(what + ":wrong-return", "returned %r which does not carry offset %r" % (r, off))

    def op_addname(self, li, ni):
        lk = self.pick(li)
        if lk is None:
            return
        name = NAMES[ni]
        own = self.name_owner(name)
        call = lambda: self.db.add_location_name(lk, name)
        if own is not None and own != lk:
            return self.expect_reject("add_location_name:name-of-other", call)
        what = "add_location_name:" + ("already-own" if own == lk else "free")
        self.expect_ok(what, call)
        self.locs[lk][1].add(name)
        self.sync(what)

    def op_rmname(self, li, ni, owner):
        name = NAMES[ni]
        own = self.name_owner(name)
        lk = own if (owner and own is not None) else self.pick(li)
        if lk is None:
            return
        call = lambda: self.db.remove_location_name(lk, name)
        if own != lk:
            return self.expect_reject("remove_location_name:" + ("name-unknown" if own is None else "name-of-other"), call)
        self.expect_ok("remove_location_name:own", call)
        self.locs[lk][1].discard(name)
        self.sync("remove_location_name:own")

    def op_setoff(self, li, oi, force):
        lk = self.pick(li)
        if lk is None:
            return
        off = OFFSETS[oi]
        own = self.offset_owner(off)
        cur = self.locs[lk][0]
        call = lambda: self.db.set_location_offset(lk, off, force=bool(force))
        f = "force" if force else "noforce"
        if own is not None and own != lk:
            return self.expect_reject("set_location_offset:%s:offset-of-other" % f, call)
        if cur is not None and cur != off and not force:
            return self.expect_reject("set_location_offset:noforce:has-other-offset", call)
        what = "set_location_offset:%s:%s" % (f, "same" if cur == off else ("replace" if cur is not None else "fresh"))
        self.expect_ok(what, call)
        self.locs[lk][0] = off
        self.sync(what)

    def op_unsetoff(self, li):
        lk = self.pick(li)
        if lk is None:
            return
        call = lambda: self.db.unset_location_offset(lk)
        if self.locs[lk][0] is None:
            return self.expect_reject("unset_location_offset:no-offset", call)
        self.expect_ok("unset_location_offset", call)
        self.locs[lk][0] = None
        self.sync("unset_location_offset")

    def op_rmloc(self, li):
        lk = self.pick(li)
        if lk is None:
            return
        self.expect_ok("remove_location", lambda: self.db.remove_location(lk))
        del self.locs[lk]
        self.removed.append(lk)
        self.sync("remove_location")

    def op_rmstale(self, i):
        if not self.removed:
            return
        lk = self.removed[i % len(self.removed)]
        self.expect_reject("remove_location:unknown", lambda: self.db.remove_location(lk))

    def op_gcname(self, ni):
        name = NAMES[ni]
        own = self.name_owner(name)
        what = "get_or_create_name_location:" + ("known" if own is not None else "new")
        r = self.expect_ok(what, lambda: self.db.get_or_create_name_location(name))
        if own is None:
            self.new_loc(what, r, name, None)
        elif r != own:
            self._fail(what + ":wrong-return", "returned %r, expected %r" % (r, own))
        self.sync(what)

    def op_gcoff(self, oi):
        off = OFFSETS[oi]
        own = self.offset_owner(off)
        what = "get_or_create_offset_location:" + ("known" if own is not None else "new")
        r = self.expect_ok(what, lambda: self.db.get_or_create_offset_location(off))
        if own is None:
            self.new_loc(what, r, None, off)
        elif r != own:
            self._fail(what + ":wrong-return", "returned %r, expected %r" % (r, own))
        self.sync(what)

    # ---------------------------------------------------------------- merge
    def op_merge(self, subops):
        other = Sim(nested=True)
        other.cur, other.before = None, ""
        for sop in subops:
            if sop[0] == "merge":
                continue
            other.step(sop)          # the foreign database is checked as well
        foreign = [(o, set(n)) for _, (o, n) in sorted(other.locs.items(), key=lambda kv: kv[0].key)]
        self.merges += 1
        # compatibility: each foreign location touches <= 1 local location, offsets do not clash
        compatible = True
        targets = []
        offsets_of = {}
        for idx, (foff, fnames) in enumerate(foreign):
            hit = set()
            for n in fnames:
                own = self.name_owner(n)
                if own is not None:
                    hit.add(own)
            own = self.offset_owner(foff)
            if own is not None:
                hit.add(own)
            if len(hit) > 1:
                compatible = False
            tgt = sorted(hit, key=lambda lk: lk.key)[0] if hit else ("new", idx)
            targets.append(tgt)
            s = offsets_of.setdefault(tgt, set())
            if foff is not None:
                s.add(foff)
            if hit and self.locs[tgt][0] is not None:
                s.add(self.locs[tgt][0])
        if any(len(s) > 1 for s in offsets_of.values()):
            compatible = False
        touching = sum(1 for t in targets if not isinstance(t, tuple))
        what = "merge:" + ("compatible" if compatible else "incompatible")
        self.cur = ["merge", "foreign=%s" % other.desc()]
        old = {lk: [o, set(n)] for lk, (o, n) in self.locs.items()}
        ok, r = self.attempt(lambda: self.db.merge(other.db))
        # the foreign database must not be modified by the merge
        other.cur, other.before = self.cur, other.desc()
        other.sync("merge:foreign-db-after-merge")
        if not ok:
            if compatible:
                self._fail("merge:compatible-rejected:%s@%s" % (type(r).__name__, where_raised(r)),
                           "raised %r; local %s" % (r, self.desc()))
            self.rejected += 1
            self.raw_invariant(what + ":rejected")
            self.locs = self.read_state()
            return self.sync(what + ":rejected")
        if compatible:
            self.merges_compatible += 1
            if touching:
                self.collisions += 1
        self.raw_invariant(what)
        db = self.db
        # every foreign association imported
        for foff, fnames in foreign:
            owners = set(db.get_name_location(n) for n in fnames)
            if None in owners or len(owners) > 1:
                self._fail(what + ":association-not-imported", "names %r of one foreign location -> %r" % (sorted(fnames), owners))
            if foff is not None:
                lk = db.get_offset_location(foff)
                if lk is None or (owners and lk not in owners):
                    self._fail(what + ":association-not-imported", "foreign (%r,%r): offset -> %r, names -> %r"
                               % (foff, sorted(fnames), lk, owners))
        # every local association kept
        for lk, (o, names) in old.items():
            if lk not in db.loc_keys:
                self._fail(what + ":lost-own-association", "%r disappeared" % lk)
            if o is not None and db.get_location_offset(lk) != o:
                self._fail(what + ":lost-own-association", "%r offset %r -> %r" % (lk, o, db.get_location_offset(lk)))
            if not names <= set(db.get_location_names(lk)):
                self._fail(what + ":lost-own-association", "%r names %r -> %r" % (lk, sorted(names), db.get_location_names(lk)))
        # nothing invented
        exp_names = set(n for _, ns in old.values() for n in ns) | set(n for _, ns in foreign for n in ns)
        exp_offs = set(o for o, _ in old.values() if o is not None) | set(o for o, _ in foreign if o is not None)
        if set(db.names) != exp_names or set(db.offsets) != exp_offs:
            self._fail(what + ":invented-association", "names %r offsets %r" % (sorted(db.names), sorted(db.offsets)))
        self.locs = self.read_state()
        self.sync(what)

    def finish(self):
        pass


def op_strategies():
    from hypothesis import strategies as st
    ni = st.integers(0, 3)
    nio = st.integers(-1, 3)
    li = st.integers(0, 5)
    b = st.integers(0, 1)
    simple = st.one_of(
        st.tuples(st.just("add"), nio, nio, b).map(list),
        st.tuples(st.just("add"), nio, nio, st.just(0)).map(list),
        st.tuples(st.just("addname"), li, ni).map(list),
        st.tuples(st.just("rmname"), li, ni, b).map(list),
        st.tuples(st.just("setoff"), li, ni, b).map(list),
        st.tuples(st.just("unsetoff"), li).map(list),
        st.tuples(st.just("rmloc"), li).map(list),
        st.tuples(st.just("rmstale"), li).map(list),
        st.tuples(st.just("gcname"), ni).map(list),
        st.tuples(st.just("gcoff"), ni).map(list),
    )
    merge = st.tuples(st.just("merge"), st.lists(simple, max_size=6)).map(list)
    return simple, merge


def history_strategy():
    from hypothesis import strategies as st
    simple, merge = op_strategies()
    op = st.one_of(simple, simple, simple, simple, merge)
    return st.lists(op, max_size=16)


class C28(Check):
    pid = "C28"
    rule = ("Hypothesis histories of <=16 LocationDB calls over 4 names and 4 offsets (0 included): add_location "
            "strict/non-strict with name and/or offset, add/remove_location_name, set_location_offset with/without "
            "force, unset_location_offset, remove_location (live and already removed), get_or_create_name/offset_"
            "location, merge of a second database built by a nested history of <=6 calls. After every call: private "
            "tables checked against the invariant, consistency_check(), all getters vs a dict model; a raising call "
            "must leave everything unchanged. Non-trivial: the history contains a rejected call, a non-strict "
            "collision or a merge touching existing locations; distinct by history.")
    assumptions = ["loc_key arguments are LocKeys returned by this database (assert-guarded precondition), except "
                   "remove_location which documents KeyError for an unknown one",
                   "a non-strict add_location whose name and offset designate two different locations, or whose named "
                   "location already has another offset, may raise (unchanged) or return a location carrying both",
                   "a merge must succeed when every foreign location touches at most one local location and no location "
                   "ends with two offsets; otherwise it may raise and only consistency is required (no atomicity)",
                   "a database is not merged with itself"]
    level_text = ("randomized model-based testing of API call histories (merge included) against a dict model, every "
                  "state and every rejected call compared")
    technique = "model-based stateful property testing (Hypothesis histories, dict model)"

    def nshards(self, tier):
        return 16

    def run_shard(self, tier, seed, shard, nshards):
        res = ShardResult()
        n = 10000 if tier == "thorough" else 900

        def nontrivial(ops):
            s = Sim.last
            res.counters["rejected_calls"] += s.rejected
            res.counters["nonstrict_collisions_or_touching_merges"] += s.collisions
            res.counters["merges"] += s.merges
            res.counters["merges_compatible_ok"] += s.merges_compatible
            for op in ops:
                res.counters["op:" + op[0]] += 1
            return (s.rejected + s.collisions) > 0
        hyp.survey_histories(res, history_strategy(), Sim, n, seed, nontrivial=nontrivial)
        return res

    def replay(self, case):
        return hyp.replay_history(Sim, case)

    def shrink(self, failure, tier):
        ops = failure.case["ops"]

        def fails(cand):
            f = hyp.run_history(Sim, cand)
            return f is not None and f.bucket == failure.bucket
        if len(ops) >= 2:
            ops = hyp.ddmin_list(ops, fails)
        # shrink the nested history of each merge
        for i, op in enumerate(list(ops)):
            if op[0] == "merge" and len(op[1]) >= 2:
                sub = hyp.ddmin_list(op[1], lambda c: fails(ops[:i] + [["merge", c]] + ops[i + 1:]), budget=100)
                ops = ops[:i] + [["merge", sub]] + ops[i + 1:]
        f = hyp.run_history(Sim, ops)
        if f is None or f.bucket != failure.bucket:
            return failure
        return Failure(f.bucket, f.detail, {"ops": ops})


CHECK = C28()
