"""C08 — expressions are canonical (hash-consed) values that round-trip through repr/parse,
pickle, deepcopy, copy, replace_expr and visit.

A case is a *spec*: a JSON tree describing how to build the expression from its components
  ["int", value, size] ["id", name, size] ["idb", hex, size] ["loc", key, size]
  ["slice", spec, start, stop] ["mem", spec, size] ["cond", c, a, b]
  ["compose", [spec..]] ["op", name, [spec..]] ["assign", dst, src]
so that the oracle (expected width, expected identity of two independent bottom-up builds,
expected inequality after changing one component) is computed from the spec alone and never
from miasm objects.
"""
import copy
import pickle

from hypothesis import strategies as st

from vlib.runner import Check, ShardResult, Failure
from vlib import exprgen, hyp

# ----------------------------------------------------------------------------
# independent width computation (restated from the ExprOp docstring / C03 statement)

ONE_BIT_OPS = set(['==', '<u', '<s', '<=u', '<=s', 'parity', 'FLAG_EQ', 'FLAG_EQ_AND', 'FLAG_EQ_CMP',
                   'FLAG_SIGN_SUB', 'FLAG_SIGN_ADD', 'FLAG_ADD_CF', 'FLAG_ADD_OF', 'FLAG_SUB_CF', 'FLAG_SUB_OF',
                   'FLAG_EQ_ADDWC', 'FLAG_SIGN_ADDWC', 'FLAG_ADDWC_CF', 'FLAG_ADDWC_OF',
                   'FLAG_EQ_SUBWC', 'FLAG_SIGN_SUBWC', 'FLAG_SUBWC_CF', 'FLAG_SUBWC_OF',
                   'fcom_c0', 'fxam_c3', 'ucomiss_zf', 'access_segment_ok'])


def spec_size(s):
    k = s[0]
    if k in ("int", "id", "idb", "loc"):
        return s[2]
    if k == "slice":
        return s[3] - s[2]
    if k == "mem":
        return s[2]
    if k == "cond":
        return spec_size(s[2])
    if k == "compose":
        return sum(spec_size(x) for x in s[1])
    if k == "assign":
        # documented normalisation: an assignment to a slice is an assignment to the sliced expression
        return spec_size(s[1][1]) if s[1][0] == "slice" else spec_size(s[1])
    if k == "op":
        op = s[1]
        if op in ONE_BIT_OPS:
            return 1
        for pre in ("zeroExt_", "signExt_", "fp_to_sint", "fpconvert_fp"):
            if op.startswith(pre):
                return int(op[len(pre):])
        if op == "segm":
            return spec_size(s[2][1])
        return spec_size(s[2][0])
    raise ValueError(k)


def build(s):
    """bottom-up construction through the public constructors only"""
    import miasm.expression.expression as m
    k = s[0]
    if k == "int":
        return m.ExprInt(s[1], s[2])
    if k == "id":
        return m.ExprId(s[1], s[2])
    if k == "idb":
        return m.ExprId(bytes.fromhex(s[1]), s[2])
    if k == "loc":
        return m.ExprLoc(m.LocKey(s[1]), s[2])
    if k == "slice":
        return m.ExprSlice(build(s[1]), s[2], s[3])
    if k == "mem":
        return m.ExprMem(build(s[1]), s[2])
    if k == "cond":
        return m.ExprCond(build(s[1]), build(s[2]), build(s[3]))
    if k == "compose":
        return m.ExprCompose(*[build(x) for x in s[1]])
    if k == "op":
        return m.ExprOp(s[1], *[build(x) for x in s[2]])
    if k == "assign":
        return m.ExprAssign(build(s[1]), build(s[2]))
    raise ValueError(k)


def spec_children(s):
    k = s[0]
    if k in ("slice", "mem"):
        return [s[1]]
    if k == "cond":
        return [s[1], s[2], s[3]]
    if k == "compose":
        return list(s[1])
    if k == "op":
        return list(s[2])
    if k == "assign":
        return [s[1], s[2]]
    return []


def spec_with_children(s, kids):
    k = s[0]
    if k == "slice":
        return ["slice", kids[0], s[2], s[3]]
    if k == "mem":
        return ["mem", kids[0], s[2]]
    if k == "cond":
        return ["cond"] + kids
    if k == "compose":
        return ["compose", kids]
    if k == "op":
        return ["op", s[1], kids]
    if k == "assign":
        return ["assign"] + kids
    return s


def spec_norm(s):
    """same spec with integer literals reduced modulo 2^size (structural inequality of normalised specs
    is then inequality of the described expressions)"""
    if s[0] == "int":
        return ["int", s[1] % (1 << s[2]), s[2]]
    kids = spec_children(s)
    if not kids:
        return list(s)
    return spec_with_children(s, [spec_norm(c) for c in kids])


def spec_depth(s):
    kids = spec_children(s)
    return 1 + (max(spec_depth(c) for c in kids) if kids else 0)


def spec_nodes(s):
    return 1 + sum(spec_nodes(c) for c in spec_children(s))


def spec_leaves(s, out=None):
    out = [] if out is None else out
    kids = spec_children(s)
    if not kids:
        out.append(s)
    for c in kids:
        spec_leaves(c, out)
    return out


# ----------------------------------------------------------------------------
# one-component mutations that keep every width (so the mutated spec is constructible) and
# change the structure: the built expression must differ from the original.

OP_SWAP = {'+': '^', '^': '&', '&': '|', '|': '*', '*': '+', '<<': '>>', '>>': 'a>>', 'a>>': '<<<', '<<<': '>>>',
           '>>>': '<<', '/': '%', '%': 'udiv', 'udiv': 'umod', 'umod': 'sdiv', 'sdiv': 'smod', 'smod': '/',
           '==': '<u', '<u': '<s', '<s': '<=u', '<=u': '<=s', '<=s': '==',
           'cntleadzeros': 'cnttrailzeros', 'cnttrailzeros': 'cntleadzeros',
           'FLAG_ADD_CF': 'FLAG_ADD_OF', 'FLAG_ADD_OF': 'FLAG_SUB_CF', 'FLAG_SUB_CF': 'FLAG_SUB_OF',
           'FLAG_SUB_OF': 'FLAG_ADD_CF', 'FLAG_EQ_CMP': 'FLAG_EQ_AND', 'FLAG_EQ_AND': 'FLAG_SIGN_SUB',
           'FLAG_SIGN_SUB': 'FLAG_EQ_CMP'}


def _local_mutations(s):
    """variants of the node s itself (children untouched), same width"""
    k = s[0]
    if k == "int":
        yield ["int", s[1] + 1, s[2]]
    elif k == "id":
        yield ["id", s[1] + "_", s[2]]
        if s[1]:
            yield ["id", s[1][:-1], s[2]]
            if s[1].swapcase() != s[1]:
                yield ["id", s[1].swapcase(), s[2]]
    elif k == "idb":
        yield ["idb", s[1] + "5f", s[2]]
        yield ["id", bytes.fromhex(s[1]).decode("latin1"), s[2]]       # bytes name vs text name
    elif k == "loc":
        yield ["loc", s[1] + 1, s[2]]
        yield ["id", "loc_key_%d" % s[1], s[2]]
    elif k == "slice":
        inner = spec_size(s[1])
        if s[3] + 1 <= inner:
            yield ["slice", s[1], s[2] + 1, s[3] + 1]
        if s[2] >= 1:
            yield ["slice", s[1], s[2] - 1, s[3] - 1]
    elif k == "cond":
        if s[2] != s[3]:
            yield ["cond", s[1], s[3], s[2]]
    elif k == "compose":
        args = s[1]
        for i in range(len(args) - 1):
            if args[i] != args[i + 1]:
                yield ["compose", args[:i] + [args[i + 1], args[i]] + args[i + 2:]]
                break
        # split-free regrouping: {a, b} vs {{a, b}} keeps the width, changes the structure
        yield ["compose", [["compose", args]]]
    elif k == "op":
        op, args = s[1], s[2]
        if op in OP_SWAP and not (op == '-' and len(args) == 1):
            new = OP_SWAP[op]
            if not (new in ('<<', '>>', 'a>>', '<<<', '>>>', '/', '%', 'udiv', 'umod', 'sdiv', 'smod') and len(args) != 2):
                yield ["op", new, args]
        for i in range(len(args) - 1):
            if args[i] != args[i + 1] and spec_size(args[i]) == spec_size(args[i + 1]):
                yield ["op", op, args[:i] + [args[i + 1], args[i]] + args[i + 2:]]
                break
        if op in ('+', '^', '&', '|', '*'):
            yield ["op", op, args + [args[-1]]]
            if len(args) > 2:
                yield ["op", op, args[:-1]]
                yield ["op", op, [["op", op, args[:2]]] + args[2:]]
    elif k == "mem":
        pass
    elif k == "assign":
        pass


def _root_mutations(s):
    """width-changing variants allowed at the root only"""
    k = s[0]
    if k in ("int", "id", "idb", "loc"):
        yield [k, s[1], s[2] + 1]
    elif k == "mem":
        yield ["mem", s[1], s[2] + 8]
    elif k == "slice":
        if s[3] + 1 <= spec_size(s[1]):
            yield ["slice", s[1], s[2], s[3] + 1]
        if s[3] - 1 > s[2]:
            yield ["slice", s[1], s[2], s[3] - 1]
    elif k == "compose":
        yield ["compose", s[1] + [s[1][0]]]
        if len(s[1]) > 1:
            yield ["compose", s[1][1:]]
    elif k == "op":
        for pre in ("zeroExt_", "signExt_"):
            if s[1].startswith(pre):
                yield ["op", "%s%d" % (pre, int(s[1][len(pre):]) + 1), s[2]]
                yield ["op", ("signExt_" if pre == "zeroExt_" else "zeroExt_") + s[1][len(pre):], s[2]]


def mutations(s, path=()):
    """yield (path, mutated whole spec) — at most one change, anywhere in the tree.  Children of an
    assignment destination that is a slice are left alone at the top (the constructor documents a
    normalisation there), everything else is fair game."""
    for v in _local_mutations(s):
        yield v
    kids = spec_children(s)
    for i, c in enumerate(kids):
        for v in mutations(c):
            yield spec_with_children(s, kids[:i] + [v] + kids[i + 1:])


def all_mutations(s):
    for v in _root_mutations(s):
        yield v
    for v in mutations(s):
        yield v


# ----------------------------------------------------------------------------
# identifier names

PLAIN = "abcXYZ019_"
NONASCII = "\xe9\xdf\u4e2d\u0416\U0001F600\xf1\u20ac\u03a9"
NONPRINT = "\n\t\r\x00\x01\x1b\x7f\x85\xa0\u200b\u2028\ufeff\x0b\x0c"


def name_chars():
    return st.one_of(
        st.sampled_from(PLAIN), st.sampled_from(PLAIN),
        st.sampled_from("'\""), st.sampled_from("\\"), st.sampled_from("ntx0u ()[],<>{}@#%?="),
        st.sampled_from(NONASCII),
        st.characters(min_codepoint=0x80, max_codepoint=0x2FFFF, categories=("L", "N", "P", "S")),
        st.sampled_from(NONPRINT),
        st.characters(max_codepoint=0x2FFF, categories=("Cc", "Cf", "Zs", "Zl", "Zp")),
    )


def names():
    plain = st.text(alphabet=PLAIN, min_size=1, max_size=6)
    special = st.lists(name_chars(), min_size=0, max_size=6).map("".join)
    return st.one_of(plain, plain, special, special, special)


def name_features(name):
    """-> sorted list of features of a text name"""
    f = set()
    for ch in name:
        if not ch.isprintable():
            f.add("nonprintable")
        elif ch == "\\":
            f.add("backslash")
        elif ch == "'":
            f.add("squote")
        elif ch == '"':
            f.add("dquote")
        elif ord(ch) > 0x7f:
            f.add("nonascii")
    if name == "":
        f.add("empty")
    return sorted(f)


def name_stratum(name):
    f = name_features(name)
    if "nonprintable" in f:
        return "nonprintable"
    if not f:
        return "plain"
    return "+".join(f)


# ----------------------------------------------------------------------------
# spec strategies

SPECIAL_OPS1 = ['fp_to_sint32', 'fp_to_sint64', 'fpconvert_fp32', 'fpconvert_fp64', 'fcom_c0', 'fxam_c3', 'fsqrt',
                'call_func_ret', 'bsr', 'x86_cpuid']


@st.composite
def leaf(draw, w, cfg):
    k = draw(st.integers(0, 11))
    if k < 3:
        mode = draw(st.integers(0, 3))
        m = (1 << w) - 1
        v = draw(exprgen.const_values(w))
        if mode == 1:
            v = v - (1 << w)                     # negative literal
        elif mode == 2:
            v = v + (draw(st.integers(1, 5)) << w)   # over-wide literal
        elif mode == 3:
            v = -(draw(st.integers(0, 3)) << w) + v
        return ["int", v, w]
    if k < 9:
        if cfg.get("bytes") and draw(st.integers(0, 9)) == 0:
            return ["idb", draw(st.binary(min_size=0, max_size=4)).hex(), w]
        return ["id", draw(cfg["names"]), w]
    if k < 11:
        return ["loc", draw(st.integers(0, 40)), w]
    return ["mem", ["id", draw(cfg["names"]), draw(st.sampled_from([8, 16, 32, 64]))], w]


@st.composite
def tree(draw, w, depth, cfg):
    if depth <= 0 or draw(st.integers(0, 6)) == 0:
        return draw(leaf(w, cfg))
    sub = lambda ww: tree(ww, depth - 1, cfg)
    kinds = ['nary', 'binw', 'neg', 'cond', 'slice', 'un', 'compose1', 'mem', 'cond', 'special']
    if w >= 2:
        kinds += ['compose', 'compose', 'ext']
    if w == 1:
        kinds += ['cmp', 'flag2', 'flag3', 'cc', 'onebit']
    kind = draw(st.sampled_from(kinds))
    if kind == 'nary':
        n = draw(st.sampled_from([2, 2, 3, 4]))
        return ["op", draw(st.sampled_from(exprgen.NARY)), [draw(sub(w)) for _ in range(n)]]
    if kind == 'binw':
        return ["op", draw(st.sampled_from(exprgen.BINW + ['**'])), [draw(sub(w)), draw(sub(w))]]
    if kind == 'neg':
        return ["op", '-', [draw(sub(w))]]
    if kind == 'un':
        return ["op", draw(st.sampled_from(['cntleadzeros', 'cnttrailzeros', 'bsr', 'call_func_ret', 'fsqrt'])),
                [draw(sub(w))]]
    if kind == 'special':
        c = draw(st.integers(0, 2))
        if c == 0 and w in (32, 64):
            w2 = draw(st.sampled_from([16, 32, 64, 80]))
            return ["op", draw(st.sampled_from(['fp_to_sint%d', 'fpconvert_fp%d'])) % w, [draw(sub(w2))]]
        if c == 1:
            return ["op", 'segm', [draw(sub(16)), draw(sub(w))]]
        return ["op", draw(st.sampled_from(['call_func_stack', 'fadd', 'x86_cpuid'])), [draw(sub(w)), draw(sub(w))]]
    if kind == 'cond':
        cw = draw(st.one_of(st.just(1), st.just(w), exprgen.widths(1, 64)))
        return ["cond", draw(sub(cw)), draw(sub(w)), draw(sub(w))]
    if kind == 'slice':
        w2 = draw(st.one_of(st.sampled_from([w + 1, 2 * w, w + 8]), st.integers(w, w + 70)))
        start = draw(st.integers(0, w2 - w))
        if w2 == w and draw(st.booleans()):
            w2 += 1
        return ["slice", draw(sub(w2)), start, start + w]
    if kind == 'compose1':
        return ["compose", [draw(sub(w))]]
    if kind == 'compose':
        nparts = draw(st.integers(2, min(4, w)))
        cuts = sorted(draw(st.lists(st.integers(1, w - 1), min_size=nparts - 1, max_size=nparts - 1, unique=True)))
        b = [0] + cuts + [w]
        return ["compose", [draw(sub(b[i + 1] - b[i])) for i in range(len(b) - 1)]]
    if kind == 'ext':
        w2 = draw(st.integers(1, w - 1))
        return ["op", draw(st.sampled_from(["zeroExt_%d", "signExt_%d"])) % w, [draw(sub(w2))]]
    if kind == 'mem':
        return ["mem", draw(sub(draw(st.sampled_from([8, 16, 32, 64])))), w]
    w2 = draw(exprgen.widths(1, 128))
    if kind == 'cmp':
        return ["op", draw(st.sampled_from(exprgen.CMP)), [draw(sub(w2)), draw(sub(w2))]]
    if kind == 'flag2':
        return ["op", draw(st.sampled_from(exprgen.FLAG2 + ['FLAG_SIGN_ADD'])), [draw(sub(w2)), draw(sub(w2))]]
    if kind == 'flag3':
        return ["op", draw(st.sampled_from(exprgen.FLAG3)), [draw(sub(w2)), draw(sub(w2)), draw(sub(1))]]
    if kind == 'cc':
        op = draw(st.sampled_from(sorted(exprgen.CC)))
        return ["op", op, [draw(sub(1)) for _ in range(exprgen.CC[op])]]
    if kind == 'onebit':
        return ["op", draw(st.sampled_from(['parity', 'FLAG_EQ', 'fcom_c0', 'fxam_c3', 'ucomiss_zf'])), [draw(sub(w2))]]
    raise AssertionError(kind)


@st.composite
def specs(draw):
    cfg = {"names": names(), "bytes": True}
    w = draw(st.one_of(exprgen.widths(1, 128), exprgen.widths(1, 128), st.integers(129, 512)))
    depth = draw(st.integers(0, 3))
    top = draw(st.integers(0, 9))
    if top == 0:
        # assignment: destination identifier, memory cell, or a slice of an identifier
        dk = draw(st.integers(0, 2))
        src = draw(tree(w, depth, cfg))
        if dk == 0:
            dst = ["id", draw(cfg["names"]), w]
        elif dk == 1:
            dst = ["mem", draw(tree(draw(st.sampled_from([16, 32, 64])), max(depth - 1, 0), cfg)), w]
        else:
            w2 = w + draw(st.integers(0, 16))
            start = draw(st.integers(0, w2 - w))
            dst = ["slice", ["id", draw(cfg["names"]), w2], start, start + w]
        return ["assign", dst, src]
    return draw(tree(w, depth, cfg))


# ----------------------------------------------------------------------------
# judging

def _exc_where(ex):
    import traceback
    for fr in reversed(traceback.extract_tb(ex.__traceback__)):
        if "/miasm/" in fr.filename:
            return "%s:%s" % (fr.filename.split("/miasm/")[-1], fr.name)
    return "?"


def parse_ok(e):
    """-> (True, None) | (False, description)"""
    from miasm.expression.parser import str_to_expr
    try:
        r = str_to_expr(repr(e))
    except RuntimeError as ex:
        return False, "raises %s" % ex
    if r is e:
        return True, None
    return False, "gives %r" % (r,)


def _min_name(name, size, still_fails):
    """greedy character deletion keeping the failure"""
    cur = name
    changed = True
    while changed and len(cur) > 1:
        changed = False
        for i in range(len(cur)):
            cand = cur[:i] + cur[i + 1:]
            if still_fails(cand):
                cur = cand
                changed = True
                break
    return cur


def parse_bucket(e):
    """root-cause key of a repr/parse round-trip failure of e: smallest failing sub-expression"""
    import miasm.expression.expression as m
    from vlib import simplab
    subs = sorted(simplab.subexprs(e), key=simplab.size_of)
    for sub in subs:
        ok, why = parse_ok(sub)
        if ok:
            continue
        if isinstance(sub, m.ExprId):
            if isinstance(sub.name, bytes):
                return "parse:ExprId:bytes-name", sub, why
            small = _min_name(sub.name, sub.size, lambda n: not parse_ok(m.ExprId(n, sub.size))[0])
            return "parse:ExprId:name[%s]" % name_stratum(small), m.ExprId(small, sub.size), \
                parse_ok(m.ExprId(small, sub.size))[1]
        if isinstance(sub, m.ExprCompose) and len(sub.args) == 1:
            return "parse:ExprCompose:single-part", sub, why
        if isinstance(sub, m.ExprOp):
            return "parse:ExprOp:%s/%d" % (sub.op, len(sub.args)), sub, why
        return "parse:%s" % sub.__class__.__name__, sub, why
    return "parse:unattributed", e, parse_ok(e)[1]


INFO_PARSE = ("parse:ExprId:name[nonprintable]", "parse:ExprId:bytes-name")


def judge(spec, stats=None, mut_limit=12):
    """-> list of (bucket, detail)"""
    import miasm.expression.expression as m
    out = []
    try:
        e = build(spec)
        e2 = build(copy.deepcopy(spec))
    except Exception as ex:
        return [("build:exception:%s@%s" % (type(ex).__name__, _exc_where(ex)), "building %r raised %r" % (spec, ex))]
    rep = repr(e)

    # canonical object, equality, hash
    if e2 is not e:
        out.append(("identity:%s" % spec[0], "two constructions of %s are distinct objects" % rep))
    if not (e == e2) or (e != e2):
        out.append(("equality:%s" % spec[0], "two constructions of %s compare unequal" % rep))
    if hash(e) != hash(e2):
        out.append(("hash:%s" % spec[0], "two constructions of %s hash differently" % rep))
    # width
    try:
        want = spec_size(spec)
    except Exception:
        want = None
    if want is not None and e.size != want:
        out.append(("width:%s" % (spec[1] if spec[0] == "op" else spec[0]),
                    "%s has size %r, components give %d" % (rep, e.size, want)))
    # integer literal normalisation (value modulo 2^size)
    if spec[0] == "int":
        if int(e) != spec[1] % (1 << spec[2]) or e is not m.ExprInt(spec[1] % (1 << spec[2]), spec[2]):
            out.append(("int-normalisation", "ExprInt(%d, %d) is %s" % (spec[1], spec[2], rep)))

    # one changed component -> different expression
    n = 0
    for mut in all_mutations(spec_norm(spec)):
        if n >= mut_limit:
            break
        n += 1
        try:
            em = build(mut)
        except Exception as ex:
            out.append(("build:exception:%s@%s" % (type(ex).__name__, _exc_where(ex)),
                        "building %r raised %r" % (mut, ex)))
            break
        if em is e or em == e or not (em != e):
            out.append(("conflation:%s" % spec[0], "%r and %r build the same/equal expression %s" % (spec, mut, rep)))
            break
        if stats is not None:
            stats["mutations compared"] += 1

    # repr -> parser
    ok, why = parse_ok(e)
    if not ok:
        b, sub, why2 = parse_bucket(e)
        if b in INFO_PARSE:
            if stats is not None:
                stats["info:" + b + " (outside the stated name domain, not judged)"] += 1
        else:
            out.append((b, "str_to_expr(repr(e)) for e = %s %s" % (repr(sub), why2)))
    elif stats is not None:
        stats["parse round trips ok"] += 1

    # pickle, every protocol
    for proto in range(pickle.HIGHEST_PROTOCOL + 1):
        try:
            r = pickle.loads(pickle.dumps(e, proto))
            r2 = pickle.loads(pickle.dumps((e, [e, e2]), proto))
        except Exception as ex:
            out.append(("pickle:exception:%s" % type(ex).__name__, "pickle protocol %d of %s raised %r" % (proto, rep, ex)))
            break
        if r is not e or r2[0] is not e or r2[1][0] is not e or r2[1][1] is not e:
            out.append(("pickle:%s" % spec[0], "pickle protocol %d of %s gives %r" % (proto, rep, r)))
            break
    # copies and identity rewrites
    absent = m.ExprId("\x00verif-absent\x00", e.size)
    other = m.ExprInt(0, e.size)
    for name, fn in (("deepcopy", lambda: copy.deepcopy(e)),
                     ("deepcopy-in-list", lambda: copy.deepcopy([e])[0]),
                     ("copy", lambda: e.copy()),
                     ("replace_expr-empty", lambda: e.replace_expr({})),
                     ("replace_expr-absent", lambda: e.replace_expr({absent: other})),
                     ("visit-identity", lambda: e.visit(lambda x: x))):
        try:
            r = fn()
        except Exception as ex:
            out.append(("%s:exception:%s@%s" % (name, type(ex).__name__, _exc_where(ex)), "%s of %s raised %r" % (name, rep, ex)))
            continue
        if r is not e:
            out.append(("%s:%s" % (name, spec[0]), "%s of %s gives %r" % (name, rep, r)))
    return out


def strata_of(spec):
    out = set()
    for lf in spec_leaves(spec):
        if lf[0] == "id":
            out.add("name:" + name_stratum(lf[1]))
        elif lf[0] == "idb":
            out.add("name:bytes")
    return out


def nontrivial(spec):
    if spec_depth(spec) >= 3:      # depth >= 2 in edges
        return True
    return any(s not in ("name:plain",) for s in strata_of(spec))


class C08(Check):
    pid = "C08"
    rule = ("Hypothesis: expression trees given as component specs over all node kinds (ExprInt with negative and "
            "over-wide literals, widths 1..512; ExprId with names from plain / quote / backslash / printable "
            "non-ASCII strata; ExprLoc; ExprMem; ExprSlice; ExprCond; ExprCompose with 1..4 parts; ExprOp over "
            "every operator family incl. width-special ones (comparisons, flags, ext, segm, fp_to_sintN); top-level "
            "ExprAssign with identifier, memory or slice destination), depth <= 3. Judged: two independent "
            "bottom-up builds are the same object / equal / same hash; size equals the width computed from the "
            "spec; <= 12 single-component changes each build a different expression; str_to_expr(repr(e)) is e; "
            "pickle (protocols 0..5, alone and shared inside a container), deepcopy, copy(), replace_expr({}), "
            "replace_expr({absent: x}), visit(identity) all return e itself. Names with non-printable code points "
            "(control characters, NBSP, zero-width...) and bytes names are generated too but their parse round "
            "trip is only counted (informational stratum). Non-trivial: tree depth >= 2 or a non-plain name; "
            "distinct by spec.")
    assumptions = ["singleton mode (Expr.use_singleton = True, the default)",
                   "the name domain of the repr/parse round trip is text whose characters are all printable "
                   "(str.isprintable: what repr() leaves unescaped): ASCII incl. quotes, backslash, space, and "
                   "printable non-ASCII; control/format/separator characters and bytes names are informational",
                   "ExprAssign only at the root; slices stay inside their argument"]
    level_text = ("randomized testing of the hash-consing, equality, width and serialization identities of the "
                  "expression classes against an oracle computed from the component spec")
    technique = "property-based testing (Hypothesis generators of component specs, identity oracle)"

    def nshards(self, tier):
        return 32 if tier == "thorough" else 16

    def run_shard(self, tier, seed, shard, nshards):
        res = ShardResult()
        n = 6000 if tier == "thorough" else 900
        cnt = [0]

        def one(spec):
            cnt[0] += 1
            fails = judge(spec, res.counters)
            for s in strata_of(spec):
                res.counters[s] += 1
            res.counters["root:" + spec[0]] += 1
            nt = nontrivial(spec)
            res.case(nontrivial_key=repr(spec) if nt else None,
                     sample={"spec": spec} if nt and cnt[0] % 197 == 0 else None)
            for b, d in fails:
                res.fail(b, d, {"spec": spec})
        hyp.survey(specs(), n, seed, one)
        return res

    def replay(self, case):
        fails = judge(case["spec"], mut_limit=200)
        if not fails:
            return None
        want = case.get("_bucket")
        for b, d in fails:
            if want is None or b == want:
                return Failure(b, d, case)
        return Failure(fails[0][0], fails[0][1], case)

    def shrink(self, failure, tier):
        bucket = failure.bucket

        def bad(s):
            try:
                return any(b == bucket for b, _ in judge(s, mut_limit=200))
            except Exception:
                return False
        cur = failure.case["spec"]
        budget = [400]
        improved = True
        while improved and budget[0] > 0:
            improved = False
            # a sub-tree on its own
            stack = list(spec_children(cur))
            while stack and budget[0] > 0:
                c = stack.pop(0)
                budget[0] -= 1
                if bad(c):
                    cur = c
                    improved = True
                    break
                stack.extend(spec_children(c))
            if improved:
                continue
            # replace one child by a leaf
            kids = spec_children(cur)
            for i, c in enumerate(kids):
                if spec_children(c):
                    cand = spec_with_children(cur, kids[:i] + [["id", "s", spec_size(c)]] + kids[i + 1:])
                    budget[0] -= 1
                    if bad(cand):
                        cur = cand
                        improved = True
                        break
        # plain names wherever the failure survives it, then shorter names
        def leaves_paths(s, path=()):
            kids = spec_children(s)
            if not kids:
                yield path
            for i, c in enumerate(kids):
                for p in leaves_paths(c, path + (i,)):
                    yield p

        def get(s, path):
            for i in path:
                s = spec_children(s)[i]
            return s

        def put(s, path, new):
            if not path:
                return new
            kids = spec_children(s)
            kids[path[0]] = put(kids[path[0]], path[1:], new)
            return spec_with_children(s, kids)

        for path in list(leaves_paths(cur)):
            lf = get(cur, path)
            if lf[0] not in ("id", "idb") or budget[0] <= 0:
                continue
            cands = [["id", "s", lf[2]]]
            if lf[0] == "id":
                cands += [["id", lf[1][:i] + lf[1][i + 1:], lf[2]] for i in range(len(lf[1]))]
            again = True
            while again and budget[0] > 0:
                again = False
                for cand_leaf in cands:
                    budget[0] -= 1
                    cand = put(cur, path, cand_leaf)
                    if cand != cur and bad(cand):
                        cur = cand
                        lf = cand_leaf
                        cands = [["id", lf[1][:i] + lf[1][i + 1:], lf[2]] for i in range(len(lf[1]))] \
                            if lf[1] != "s" else []
                        again = True
                        break
        for b, d in judge(cur, mut_limit=200):
            if b == bucket:
                return Failure(b, d, {"spec": cur})
        return failure


CHECK = C08()
