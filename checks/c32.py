"""C32 — the assembler lays out programs at their pinned addresses.

Generator: assembly programs as text (x86_32, arml, mips32l, msp430) made of *segments* (maximal runs of
lines linked by fall-through: labelled blocks of template instructions, label references, data directives,
size-changing x86 jumps over ~128-byte fillers).  A segment ends with an unconditional transfer or a `.split`
directive.  At most one label per segment is pinned (head / middle / tail block).  The generator computes a
layout with *worst-case* line sizes (longest encoding of a label-free instruction, `max_instruction_len` for a
label-using one) and derives the pins and the destination interval from it, plus one free region able to hold
every unpinned segment, so a non-overlapping layout exists by construction.

Oracle (validity predicate, no second assembler): `asm_resolve_final` must succeed; pinned labels keep their
address; patches are disjoint and inside the interval; walking every segment from the final address of its
first label, each label is found exactly where the previous line ended (fall-through contiguity), each
instruction decodes (`mn.dis`) to the program's instruction with label references replaced by the final label
addresses, each data directive holds the expected bytes; every patch byte belongs to a walked line.
"""
import re

from vlib.runner import Check, ShardResult, Failure

ARCHS = ["x86_32", "arml", "mips32l", "msp430"]

# unit: granularity of addresses/gaps; data_unit: granularity of data sizes inside a block
ARCHINFO = {
    "x86_32": dict(unit=1, bases=[0x0, 0x1000, 0x401000, 0x7ffe0000], ptr=4, maxspan=None),
    "arml": dict(unit=4, bases=[0x0, 0x1000, 0x401000, 0x7ffe0000], ptr=4, maxspan=None),
    "mips32l": dict(unit=4, bases=[0x0, 0x1000, 0x401000, 0x80001000], ptr=4, maxspan=None),
    "msp430": dict(unit=2, bases=[0x0, 0x1000, 0xc000], ptr=2, maxspan=0x300),
}

TPL = {
    "x86_32": dict(
        plain=["MOV EAX, 0x1", "INC EBX", "XOR ECX, ECX", "ADD EAX, EBX", "MOV DWORD PTR [ESI + 0x10], EAX",
               "PUSH EBP", "NOP", "LEA EAX, DWORD PTR [EBX + ECX * 0x4]", "SUB ESP, 0x100", "CMP EAX, 0x7F",
               "TEST EAX, EAX", "MOVZX EAX, BYTE PTR [ESI]", "MOV EDX, 0x11223344", "POP EDI"],
        labref=["MOV EAX, {L}", "PUSH {L}", "MOV ECX, DWORD PTR [ESI + {L}]", "LEA EDX, DWORD PTR [EBX + {L}]",
                "ADD EBX, {L}", "CMP ECX, {L}"],
        cond=["JZ {L}", "JNZ {L}", "JB {L}", "JAE {L}", "JL {L}", "JG {L}", "JS {L}"],
        uncond=["JMP {L}"], ret=["RET", "JMP EAX"],
        call=["CALL {L}"], slot=None),
    "arml": dict(
        plain=["MOV R0, R1", "ADD R0, R0, 0x1", "CMP R0, R1", "LDRB R3, [R0]", "STMFD SP!, {R4, R5, LR}",
               "EOR R3, R3, R2", "SUB R2, R2, 0x10", "MOV R0, 0xFF", "LDR R1, [R2, 0x4]"],
        labref=[],
        cond=["BNE {L}", "BEQ {L}", "BGT {L}", "BCC {L}"],
        uncond=["B {L}"], ret=["BX LR", "LDMFD SP!, {R4, R5, PC}"],
        call=["BL {L}"], slot=None),
    "mips32l": dict(
        plain=["ADDIU A0, ZERO, 0x10", "ADDIU A1, A1, 0x1", "NOP", "ADDU V0, A0, A1", "LW T0, 0x4(SP)",
               "SW RA, 0x10(SP)", "LUI A0, 0x1234", "ORI A0, A0, 0x5678"],
        labref=[],
        cond=["BNE A0, ZERO, {L}", "BEQ A0, A1, {L}", "BGEZ A0, {L}", "BLTZ A1, {L}"],
        uncond=["J {L}", "B {L}"], ret=["JR RA"],
        call=["JAL {L}", "BAL {L}"], slot=["NOP", "ADDIU A2, A2, 0x1", "ADDU V0, A0, A1"]),
    "msp430": dict(
        plain=["mov.w 0x10, R10", "add.w 0x1, R11", "sub.w R10, R11", "mov.w SP, R4", "cmp.w 0x5, R6",
               "mov.w @R13, R9", "mov.w 0x10(R14), R13", "xor.w R15, R10", "bis.w 0x5A08, R5"],
        labref=["mov.w {L}, R9", "cmp.w {L}, R7", "add.w {L}, R8"],
        cond=["jnz {L}", "jz {L}", "jc {L}", "jge {L}"],
        uncond=["jmp {L}"], ret=["mov.w @SP+, PC"],
        call=["call {L}"], slot=None),
}

EXT = "ext_sym"
FIXPOINT_BUDGET = 100


class NoFixpoint(BaseException):
    pass
_state = {}


def arch_ctx(arch):
    """(mn, attrib, alignment, max_instruction_len)"""
    if arch not in _state:
        import logging
        from miasm.analysis.machine import Machine
        import warnings
        warnings.simplefilter("ignore")
        m = Machine(arch)
        for n in ("asmblock", "cpuhelper", "x86_arch", "armdis", "mips32dis", "msp430dis"):
            logging.getLogger(n).setLevel(logging.CRITICAL)
        attrib = getattr(m.dis_engine, "attrib", None)
        _state[arch] = (m.mn, attrib, m.mn.alignment, m.mn.max_instruction_len)
        _state[arch, "fast"] = FastMn(m.mn)
    return _state[arch]


class FastMn(object):
    """Stand-in for the mnemonic class handed to parse_txt: `fromstring` is memoised per instruction text
    (pyparsing costs ~100 ms per x86 line).  The first parse of a text goes through the real mn.fromstring in a
    private LocationDB; later uses copy that instruction and re-bind its label references to the caller's loc_db
    (get_or_create_name_location, as the real parser does).  Everything else is delegated."""

    def __init__(self, mn):
        self._mn = mn
        self._cache = {}

    def __getattr__(self, name):
        return getattr(self._mn, name)

    def fromstring(self, text, loc_db, attrib):
        import copy
        from miasm.core.locationdb import LocationDB
        from miasm.expression.expression import ExprLoc, get_expr_locs
        key = (text, attrib)
        ent = self._cache.get(key)
        if ent is None:
            tdb = LocationDB()
            ins = self._mn.fromstring(text, tdb, attrib)
            names = {}
            for a in ins.args:
                for el in get_expr_locs(a):
                    nm = sorted(tdb.get_location_names(el.loc_key))
                    if len(nm) != 1:
                        raise RuntimeError("unexpected location in %r" % text)
                    names[el] = nm[0]
            ent = self._cache[key] = (ins, names)
        ins, names = ent
        new = copy.copy(ins)
        repl = dict((el, ExprLoc(loc_db.get_or_create_name_location(nm), el.size)) for el, nm in names.items())
        new.args = [a.replace_expr(repl) if repl else a for a in ins.args]
        new.additional_info = copy.copy(ins.additional_info)
        return new


# ---------------------------------------------------------------------------------------------
# generator side


def _align_up(x, a):
    return x + (-x) % a


_wc_cache = {}


def worst_size(arch, text, has_label):
    """worst-case encoded size of an instruction line"""
    mn, attrib, _, maxlen = arch_ctx(arch)
    if has_label:
        return maxlen
    key = (arch, text)
    if key not in _wc_cache:
        from miasm.core.locationdb import LocationDB
        ins = mn.fromstring(text, LocationDB(), attrib)
        _wc_cache[key] = max(len(c) for c in mn.asm(ins))
    return _wc_cache[key]


def data_line(arch, kind, payload, labels):
    """-> ["data", text, items, size]   items: ["b", hex] | ["l", label, nbytes]"""
    ptr = ARCHINFO[arch]["ptr"]
    unit = ARCHINFO[arch]["unit"]
    if kind == "byte":
        n = max(1, payload % 9)
        if arch != "x86_32":
            n = _align_up(n, unit)
        vals = [(payload * 7 + i * 13) & 0xff for i in range(n)]
        return ["data", ".byte " + ", ".join("0x%x" % v for v in vals), [["b", bytes(vals).hex()]], n]
    if kind == "bytetail":      # possibly unaligned size: only used as last line of a block
        n = max(1, payload % 7)
        vals = [(payload * 5 + i * 3) & 0xff for i in range(n)]
        return ["data", ".byte " + ", ".join("0x%x" % v for v in vals), [["b", bytes(vals).hex()]], n]
    if kind == "string":
        n = payload % 12
        if arch != "x86_32":
            n = _align_up(n + 1, unit) - 1
        s = "".join(chr(0x61 + (payload + i) % 26) for i in range(n))
        return ["data", '.string "%s"' % s, [["b", (s.encode() + b"\x00").hex()]], n + 1]
    if kind == "filler":
        n = 100 + payload % 60
        if arch != "x86_32":
            n = _align_up(n + 1, unit) - 1
        s = "".join(chr(0x41 + (payload + i) % 26) for i in range(n))
        return ["data", '.string "%s"' % s, [["b", (s.encode() + b"\x00").hex()]], n + 1]
    if kind == "ptr":
        lab = labels[payload % len(labels)]
        cst = (payload * 2654435761) & ((1 << (8 * ptr)) - 1)
        # the operand is the bare label, or a label expression (label + constant)
        add = (4 if (payload >> 3) % 3 == 1 else 0x10) if (payload >> 3) % 3 else 0
        ref = lab if not add else "%s + 0x%x" % (lab, add)
        if ptr == 4:
            return ["data", ".long %s, 0x%x" % (ref, cst),
                    [["l", lab, 4, add], ["b", cst.to_bytes(4, "little").hex()]], 8]
        return ["data", ".word %s, 0x%x" % (ref, cst),
                [["l", lab, 2, add], ["b", cst.to_bytes(2, "little").hex()]], 4]
    raise ValueError(kind)


def build(spec):
    """Deterministic: abstract spec -> concrete case (lines, pins, interval) with a feasible layout.
    Returns (case, meta) ; meta has the classification used for counters.  None if the spec is out of domain."""
    arch = spec["arch"]
    T = TPL[arch]
    info = ARCHINFO[arch]
    unit = info["unit"]
    mn, attrib, align, maxlen = arch_ctx(arch)
    chains = spec["chains"]
    labels = []
    for ci, ch in enumerate(chains):
        for bi in range(len(ch["blocks"])):
            labels.append("L%d_%d" % (ci, bi))
    targets = list(labels)
    if spec.get("ext"):
        targets.append(EXT)

    def tgt(i):
        return targets[i % len(targets)]

    def ftgt(i, ci, bi, li):
        """target of a flow instruction; a jump to itself (first line of its own block) only when the spec asks"""
        t = tgt(i)
        if li == 0 and t == "L%d_%d" % (ci, bi) and not spec.get("selfloop"):
            t = tgt(i + 1)
        return t

    def slot_line(i):
        return ["ins", T["slot"][i % len(T["slot"])], False]

    lines = []          # concrete lines
    seginfo = []        # per chain: list of per-block worst sizes, total need
    for ci, ch in enumerate(chains):
        bsizes = []
        nlines = 0
        for bi, blk in enumerate(ch["blocks"]):
            lines.append(["label", "L%d_%d" % (ci, bi)])
            cur = []
            nb = len(blk)
            for li, ln in enumerate(blk):
                k = ln[0]
                if k == "plain":
                    cur.append(["ins", T["plain"][ln[1] % len(T["plain"])], False])
                elif k == "labref":
                    if T["labref"]:
                        cur.append(["ins", T["labref"][ln[1] % len(T["labref"])].replace("{L}", tgt(ln[2])), True])
                    else:
                        cur.append(data_line(arch, "ptr", ln[2], targets if arch != "msp430" else targets))
                elif k in ("cond", "call"):
                    cur.append(["ins", T[k][ln[1] % len(T[k])].replace("{L}", ftgt(ln[2], ci, bi, li)), True])
                    if T["slot"]:
                        cur.append(slot_line(ln[2]))
                elif k == "jmpdontsplit":
                    # an unconditional jump whose block stays glued to the next one
                    cur.append(["ins", T["uncond"][ln[1] % len(T["uncond"])].replace("{L}", ftgt(ln[2], ci, bi, li)), True])
                    if T["slot"]:
                        cur.append(slot_line(ln[2]))
                    cur.append(["dir", ".dontsplit"])
                elif k == "data":
                    kind = ln[1]
                    if kind == "bytetail" and (li != nb - 1 or arch in ("mips32l", "msp430") or
                                               (bi == len(ch["blocks"]) - 1 and ch["end"][0] != "split")):
                        kind = "byte"
                    cur.append(data_line(arch, kind, ln[2], targets))
                else:
                    raise ValueError(k)
            # end of chain?
            if bi == len(ch["blocks"]) - 1:
                end = ch["end"]
                if end[0] == "uncond":
                    cur.append(["ins", T["uncond"][end[1] % len(T["uncond"])].replace("{L}", tgt(end[2])), True])
                    if T["slot"]:
                        cur.append(slot_line(end[2]))
                elif end[0] == "ret":
                    cur.append(["ins", T["ret"][end[1] % len(T["ret"])], False])
                    if T["slot"]:
                        cur.append(slot_line(end[1]))
                elif end[0] == "split":
                    cur.append(["dir", ".split"])
                else:
                    raise ValueError(end)
                cur.append(["endseg"])
            size = 0
            for c in cur:
                if c[0] == "ins":
                    size += worst_size(arch, c[1], c[2])
                    nlines += 1
                elif c[0] == "data":
                    size += c[3]
                    nlines += 1
            bsizes.append(_align_up(size, max(align, unit)))
            lines.extend(cur)
        need = sum(bsizes) + (align - 1) * (nlines + len(bsizes) + 1) + 1
        seginfo.append((bsizes, _align_up(need, unit)))

    # layout
    pinned = [ci for ci, ch in enumerate(chains) if ch["pin"] is not None]
    unpinned = [ci for ci, ch in enumerate(chains) if ch["pin"] is None]
    order = sorted(pinned, key=lambda ci: (spec["order"][ci % len(spec["order"])], ci))
    big_need = sum(seginfo[ci][1] for ci in unpinned)
    if big_need:
        big_need += unit
    base = info["bases"][spec["base"] % len(info["bases"])]
    use_interval = spec["ivmode"] != 0
    if not use_interval and arch != "x86_32":
        base = 0     # unpinned segments may land at 0: keep everything within relative-branch range
    bigpos = spec["big"] % (len(order) + 1)
    if not use_interval:
        bigpos = len(order)
    gaps = spec["gaps"]
    cur = base
    pins = {}
    gap_ranges = []
    for idx, ci in enumerate(order):
        g = (gaps[idx % len(gaps)]) * unit
        if g:
            gap_ranges.append((cur, cur + g - 1))
        cur += g
        if idx == bigpos:
            cur += big_need
        bs = seginfo[ci][0]
        k = chains[ci]["pin"] % len(bs)
        pins["L%d_%d" % (ci, k)] = cur + sum(bs[:k])
        cur += sum(bs)
    if bigpos == len(order):
        cur += big_need
    g = gaps[len(order) % len(gaps)] * unit
    cur += g
    if cur == base:
        cur += unit
    end = cur - 1
    interval = None
    if use_interval:
        interval = [[base, end]]
        if spec["ivmode"] == 2 and gap_ranges:
            lo, hi = gap_ranges[spec["hole"] % len(gap_ranges)]
            if lo > base:
                interval = [[base, lo - 1], [hi + 1, end]]
    if info["maxspan"] is not None and end - base > info["maxspan"]:
        return None, "span exceeds the range of %s relative jumps" % arch
    if spec.get("ext"):
        # outside the destination range: LocationDB cannot hold two labels at one offset
        pins[EXT] = end + 1 + (spec["extoff"] % 64) * unit
    midpin = any(chains[ci]["pin"] % len(chains[ci]["blocks"]) != 0 for ci in pinned)
    case = {"arch": arch, "lines": lines, "pins": pins, "interval": interval}
    meta = {"midpin": midpin, "npinned": len(pinned), "nunpinned": len(unpinned),
            "nblocks": len(labels), "twopiece": bool(interval and len(interval) == 2)}
    return case, meta


def spec_strategy(arch):
    from hypothesis import strategies as st
    small = st.integers(0, 1 << 16)

    line = st.one_of(
        st.tuples(st.just("plain"), small),
        st.tuples(st.just("plain"), small),
        st.tuples(st.just("labref"), small, small),
        st.tuples(st.just("cond"), small, small),
        st.tuples(st.just("cond"), small, small),
        st.tuples(st.just("call"), small, small),
        st.tuples(st.just("jmpdontsplit"), small, small),
        st.tuples(st.just("data"), st.sampled_from(["byte", "bytetail", "string", "ptr", "filler"]), small),
    )
    block = st.lists(line, min_size=1, max_size=4)
    end = st.one_of(st.tuples(st.just("uncond"), small, small), st.tuples(st.just("ret"), small),
                    st.tuples(st.just("split")))
    maxch = 3 if arch == "msp430" else 5
    chain = st.fixed_dictionaries({
        "blocks": st.lists(block, min_size=1, max_size=3 if arch == "msp430" else 4),
        "end": end,
        "pin": st.one_of(st.none(), st.integers(0, 3), st.integers(0, 3), st.integers(0, 3)),
    })
    return st.fixed_dictionaries({
        "arch": st.just(arch),
        "chains": st.lists(chain, min_size=1, max_size=maxch),
        "order": st.lists(st.integers(0, 100), min_size=1, max_size=5),
        "gaps": st.lists(st.sampled_from([0, 0, 1, 2, 5, 16, 40]), min_size=1, max_size=6),
        "big": st.integers(0, 5),
        "base": st.integers(0, 3),
        "ivmode": st.sampled_from([0, 1, 1, 2, 2]),
        "hole": st.integers(0, 5),
        "ext": st.booleans(),
        "selfloop": st.sampled_from([False] * 5 + [True]),
        "extoff": st.integers(0, 0x4000),
    })


# ---------------------------------------------------------------------------------------------
# oracle side


def render(lines):
    out = []
    for ln in lines:
        if ln[0] == "label":
            out.append("%s:" % ln[1])
        elif ln[0] == "ins":
            out.append("    " + ln[1])
        elif ln[0] == "data":
            out.append(ln[1])
        elif ln[0] == "dir":
            out.append(ln[1])
    return "\n".join(out) + "\n"


def _slug(msg):
    msg = re.sub(r"0x[0-9a-fA-F]+|\d+", "N", msg)
    msg = re.sub(r"[^A-Za-z' +()]+", " ", msg).strip()
    return msg[:60]


def _where(ex):
    import traceback
    tb = traceback.extract_tb(ex.__traceback__)
    for fr in reversed(tb):
        if "/miasm/" in fr.filename:
            return "%s:%s" % (fr.filename.split("/miasm/")[-1], fr.name)
    return "?"


def pin_class(case):
    """'nopin' | 'headpin' | 'midpin' computed from the concrete lines (no generator data)"""
    pins = case["pins"]
    cls = "nopin"
    first = True
    lines = case["lines"]
    dslot = False
    for i, ln in enumerate(lines):
        if ln[0] == "endseg":
            first = True
            # a segment ended by a transfer followed by its delay-slot instruction, with more text after it
            if TPL[case["arch"]]["slot"] and i >= 2 and lines[i - 1][0] == "ins" and i + 1 < len(lines):
                dslot = True
        elif ln[0] == "label":
            if ln[1] in pins:
                if not first:
                    cls = "midpin"
                elif cls == "nopin":
                    cls = "headpin"
            first = False
    return cls + ("+dslot" if dslot else "")


def judge(case, stats=None):
    """-> (bucket, detail) or None"""
    from miasm.core import parse_asm, asmblock
    from miasm.core.locationdb import LocationDB
    from miasm.core.interval import interval
    from miasm.core.bin_stream import bin_stream_str
    from miasm.expression.expression import ExprInt
    from miasm.expression.simplifications import expr_simp

    arch = case["arch"]
    mn, attrib, align, maxlen = arch_ctx(arch)
    lines = case["lines"]
    text = render(lines)
    loc_db = LocationDB()
    pcls = pin_class(case)
    try:
        asmcfg = parse_asm.parse_txt(_state[arch, "fast"], attrib, text, loc_db)
    except Exception as ex:
        return ("%s:parse-fail:%s:%s" % (arch, type(ex).__name__, _where(ex)), "parse_txt raised %r on\n%s" % (ex, text))
    for name, addr in sorted(case["pins"].items()):
        loc_db.set_location_offset(loc_db.get_or_create_name_location(name), addr)
    iv = None
    if case["interval"] is not None:
        iv = interval([tuple(p) for p in case["interval"]])
    desc = "pins=%s interval=%s\n%s" % (
        {k: hex(v) for k, v in sorted(case["pins"].items())},
        None if case["interval"] is None else [[hex(a), hex(b)] for a, b in case["interval"]], text)
    # deterministic budget on the fix-point (no wall clock): block assemblies allowed = 100 per block
    nblk = max(1, len(asmcfg))
    calls = [0]
    real_assemble = asmblock.assemble_block

    def counting_assemble(*args, **kwargs):
        calls[0] += 1
        if calls[0] > FIXPOINT_BUDGET * nblk:
            raise NoFixpoint()
        return real_assemble(*args, **kwargs)
    asmblock.assemble_block = counting_assemble
    try:
        patches = asmblock.asm_resolve_final(mn, asmcfg, iv)
    except NoFixpoint:
        return ("%s:no-fixpoint:%s" % (arch, pcls),
                "asm_resolve_final still re-assembles blocks after %d block assemblies (%d blocks): the offset "
                "fix-point does not converge; %s" % (calls[0] - 1, nblk, desc))
    except Exception as ex:
        return ("%s:assemble-fail:%s:%s:%s" % (arch, pcls, type(ex).__name__, _slug(str(ex))),
                "asm_resolve_final raised %r at %s; feasible by construction; %s" % (ex, _where(ex), desc))

    finally:
        asmblock.assemble_block = real_assemble
    if stats is not None:
        r = -(-calls[0] // nblk)
        stats["block assemblies per block <=%d" % (2 if r <= 2 else 4 if r <= 4 else 8 if r <= 8 else 100)] += 1

    def off_of(name):
        try:
            return loc_db.get_location_offset(loc_db.get_name_location(name))
        except Exception:
            return None

    # pinned labels keep their address
    for name, addr in sorted(case["pins"].items()):
        if off_of(name) != addr:
            return ("%s:pin-moved:%s" % (arch, pcls),
                    "label %s pinned at 0x%x ends at %r; %s" % (name, addr, off_of(name), desc))
    # patches disjoint and inside the interval
    plist = sorted((int(k), bytes(v)) for k, v in patches.items())
    prev_end = None
    for off, data in plist:
        if prev_end is not None and off < prev_end:
            return ("%s:patch-overlap" % arch, "patch at 0x%x overlaps the previous one ending at 0x%x; %s"
                    % (off, prev_end, desc))
        prev_end = off + len(data)
        if case["interval"] is not None:
            if not any(a <= off and off + len(data) - 1 <= b for a, b in case["interval"]):
                return ("%s:patch-outside-interval:%s" % (arch, pcls),
                        "patch [0x%x,0x%x] outside the interval; %s" % (off, off + len(data) - 1, desc))
    if not plist:
        return ("%s:no-patch" % arch, desc)
    mem = {}
    for off, data in plist:
        for i, b in enumerate(data):
            mem[off + i] = b
    owned = set(mem)

    def window(a, n):
        return bytes(mem.get(a + i, 0) for i in range(n))

    def norm(e):
        bad = []

        def f(x):
            if x.is_loc():
                o = loc_db.get_location_offset(x.loc_key)
                if o is None:
                    bad.append(x)
                    return x
                return ExprInt(o, x.size)
            return x
        r = expr_simp(e.visit(f))
        return None if bad else r

    walked = set()
    addr = None
    nins = 0
    for ln in lines:
        k = ln[0]
        if k == "endseg":
            addr = None
            continue
        if k == "dir":
            continue
        if k == "label":
            o = off_of(ln[1])
            if o is None:
                return ("%s:label-unplaced" % arch, "label %s has no offset after assembly; %s" % (ln[1], desc))
            if addr is not None:
                exp = _align_up(addr, align)
                if o != exp:
                    return ("%s:not-contiguous:%s" % (arch, pcls),
                            "label %s at 0x%x but the preceding fall-through line ends at 0x%x; %s"
                            % (ln[1], o, addr, desc))
            addr = o
            continue
        if addr is None:
            raise RuntimeError("segment does not start with a label")
        if k == "data":
            pos = addr
            for it in ln[2]:
                if it[0] == "b":
                    exp = bytes.fromhex(it[1])
                    what = "const"
                else:
                    o = off_of(it[1])
                    if o is None:
                        return ("%s:label-unplaced" % arch, "label %s has no offset; %s" % (it[1], desc))
                    exp = ((o + (it[3] if len(it) > 3 else 0)) & ((1 << (8 * it[2])) - 1)).to_bytes(it[2], "little")
                    what = "label"
                rng = range(pos, pos + len(exp))
                got = window(pos, len(exp))
                if got != exp or not all(a in owned for a in rng):
                    return ("%s:data-mismatch:%s:%s" % (arch, ln[1].split()[0], what),
                            "at 0x%x expected %s (%s) for `%s`, patches hold %s; %s"
                            % (pos, exp.hex(), it[1] if what == "label" else "constant", ln[1], got.hex(), desc))
                walked.update(rng)
                pos += len(exp)
            addr = pos
            continue
        # instruction
        nins += 1
        want = _state[arch, "fast"].fromstring(ln[1], loc_db, attrib)
        mnemo = want.name
        if addr not in owned:
            return ("%s:missing-bytes:%s" % (arch, pcls), "no patch byte at 0x%x for `%s`; %s" % (addr, ln[1], desc))
        try:
            got = mn.dis(bin_stream_str(window(addr, maxlen + 8), base_address=addr), attrib, addr)
            if got.dstflow():
                got.dstflow2label(loc_db)
        except Exception as ex:
            return ("%s:decode-mismatch:%s" % (arch, mnemo),
                    "at 0x%x expected `%s`, decoding raised %r; %s" % (addr, ln[1], ex, desc))
        wargs = [norm(a) for a in want.args]
        gargs = [norm(a) for a in got.args]
        if got.name != want.name or wargs != gargs or None in wargs:
            return ("%s:decode-mismatch:%s" % (arch, mnemo),
                    "at 0x%x expected `%s` (args %s), patches decode to `%s` (args %s); %s"
                    % (addr, ln[1], [str(a) for a in wargs], got.to_string(loc_db), [str(a) for a in gargs], desc))
        rng = range(addr, addr + got.l)
        if not all(a in owned for a in rng):
            return ("%s:missing-bytes:%s" % (arch, pcls), "instruction at 0x%x only partly patched; %s" % (addr, desc))
        walked.update(rng)
        if stats is not None and arch == "x86_32" and ln[2] and mnemo.startswith("J"):
            stats["x86 jump %s" % ("short" if got.l == 2 else "near")] += 1
        addr += got.l
    if walked != owned:
        extra = sorted(owned - walked)
        return ("%s:stray-patch:%s" % (arch, pcls),
                "%d patch bytes belong to no program line, first at 0x%x; %s" % (len(extra), extra[0], desc))
    if stats is not None:
        stats["instructions decoded"] += nins
    return None


# ---------------------------------------------------------------------------------------------


def _shrink_spec(spec, bucket, budget=150):
    import copy

    def fails(sp):
        try:
            case, meta = build(sp)
        except Exception:
            return None
        if case is None:
            return None
        r = judge(case)
        if r is not None and r[0] == bucket:
            return case, r
        return None

    best = fails(spec)
    if best is None:
        return None
    calls = 0
    changed = True
    while changed and calls < budget:
        changed = False
        cands = []
        for ci in range(len(spec["chains"])):
            if len(spec["chains"]) > 1:
                s = copy.deepcopy(spec)
                del s["chains"][ci]
                cands.append(s)
            ch = spec["chains"][ci]
            for bi in range(len(ch["blocks"])):
                if len(ch["blocks"]) > 1:
                    s = copy.deepcopy(spec)
                    del s["chains"][ci]["blocks"][bi]
                    cands.append(s)
                for li in range(len(ch["blocks"][bi])):
                    if len(ch["blocks"][bi]) > 1:
                        s = copy.deepcopy(spec)
                        del s["chains"][ci]["blocks"][bi][li]
                        cands.append(s)
                    elif tuple(ch["blocks"][bi][li])[:1] != ("plain",):
                        s = copy.deepcopy(spec)
                        s["chains"][ci]["blocks"][bi][li] = ["plain", 6]
                        cands.append(s)
            if ch["pin"] is not None:
                s = copy.deepcopy(spec)
                s["chains"][ci]["pin"] = None
                cands.append(s)
            if tuple(ch["end"]) != ("split",):
                s = copy.deepcopy(spec)
                s["chains"][ci]["end"] = ["split"]
                cands.append(s)
        for key, val in (("ext", False), ("ivmode", 1), ("gaps", [0]), ("base", 1)):
            if spec[key] != val:
                s = copy.deepcopy(spec)
                s[key] = val
                cands.append(s)
        for s in cands:
            calls += 1
            r = fails(s)
            if r is not None:
                spec, best, changed = s, r, True
                break
            if calls >= budget:
                break
    return spec, best


class C32(Check):
    pid = "C32"
    rule = ("Hypothesis: programs as text for x86_32/arml/mips32l/msp430 made of 1..5 fall-through segments of 1..4 "
            "labelled blocks (template instructions, label references in immediates/memory operands/.long, "
            "conditional jumps and calls that split blocks, unconditional jumps glued with .dontsplit, "
            ".byte/.string/.long data, ~128-byte fillers making x86 jumps change size during the fix-point), each "
            "segment ended by an unconditional transfer or .split; at most one label per segment pinned at "
            "head/middle/tail, optional pinned external symbol; pins and destination interval (none / one piece / "
            "two pieces) derived from a layout computed with worst-case line sizes plus one free region holding all "
            "unpinned segments. Judged by the validity predicate on asm_resolve_final's patches and loc_db. "
            "Non-trivial: a pinned label that is not the head of its segment, or >= 2 pinned segments; distinct by "
            "program text + pins + interval.")
    assumptions = [
        "a segment (blocks linked by fall-through) holds at most one pinned label: two pins in one chain are "
        "rejected by BlockChain by contract ('Multiples pinned block detected')",
        "feasibility is established with worst-case sizes (longest candidate encoding; max_instruction_len for an "
        "instruction using a label) and one free region >= the sum of the unpinned segments: the first-fit placement "
        "of resolve_symbol is not required to solve tight packings",
        "on architectures whose blocks are aligned (ARM: 4) a block following data of unaligned size starts at the "
        "next aligned address: contiguity is judged modulo that padding",
        "decoding uses miasm's own disassembler and dstflow2label (disassembler side only, independent of the "
        "assembler's fixDstOffset); template instructions without labels are vetted to round-trip through "
        "mn.asm/mn.dis before use",
        "every label is followed by at least one line (empty labelled blocks are not generated)",
    ]
    level_text = ("randomized generation of feasible-by-construction pinned programs judged by an independent validity "
                  "predicate over the produced patches (placement, disjointness, contiguity, decode-back)")
    technique = "property-based testing with constructive feasibility and a decode-back validity oracle"

    def nshards(self, tier):
        return 32 if tier == "thorough" else 16

    def vet_templates(self, arch, res):
        """drop label-free templates that do not round trip through mn.asm / mn.dis (arch-level issue, not C32)"""
        from miasm.core.locationdb import LocationDB
        mn, attrib, _, _ = arch_ctx(arch)
        T = TPL[arch]
        for key in ("plain", "ret", "slot"):
            if not T.get(key):
                continue
            keep = []
            for t in T[key]:
                ok = False
                try:
                    ldb = LocationDB()
                    ins = mn.fromstring(t, ldb, attrib)
                    for c in mn.asm(ins):
                        d = mn.dis(c, attrib, 0)
                        ok = d.name == ins.name and [str(a) for a in d.args] == [str(a) for a in ins.args] \
                            and d.l == len(c)
                        if not ok:
                            break
                except Exception:
                    ok = False
                if ok:
                    keep.append(t)
                else:
                    res.dropped["template does not round-trip at instruction level: %s %s" % (arch, t)] += 1
            if not keep:
                raise RuntimeError("no usable %s template for %s" % (key, arch))
            T[key] = keep

    def run_shard(self, tier, seed, shard, nshards):
        from vlib import hyp
        res = ShardResult()
        arch = ARCHS[shard % len(ARCHS)]
        arch_ctx(arch)
        self.vet_templates(arch, res)
        n = {"x86_32": 80, "arml": 90, "mips32l": 110, "msp430": 170}[arch]
        if tier == "thorough":
            n *= 4
        cnt = [0]

        def one(spec):
            cnt[0] += 1
            case, meta = build(spec)
            if case is None:
                res.dropped[meta] += 1
                return
            r = judge(case, res.counters)
            pc = pin_class(case)
            res.counters["%s:%s" % (arch, pc)] += 1
            res.counters["pinned segments=%d" % min(meta["npinned"], 3)] += 1
            if meta["twopiece"]:
                res.counters["two-piece interval"] += 1
            if case["interval"] is None:
                res.counters["no interval"] += 1
            nt = meta["midpin"] or meta["npinned"] >= 2
            res.case(nontrivial_key=(render(case["lines"]), sorted(case["pins"].items()), case["interval"]) if nt else None,
                     sample={"arch": arch, "text": render(case["lines"]), "pins": case["pins"],
                             "interval": case["interval"]} if nt and cnt[0] % 40 == 0 else None)
            if r is not None:
                c = dict(case)
                c["spec"] = spec
                res.fail(r[0], r[1], c)
        hyp.survey(spec_strategy(arch), n, seed, one)
        return res

    def replay(self, case):
        arch_ctx(case["arch"])
        r = judge(case)
        if r is None:
            return None
        return Failure(r[0], r[1], case)

    def shrink(self, failure, tier):
        spec = failure.case.get("spec")
        if spec is None:
            return failure
        import json
        spec = json.loads(json.dumps(spec))
        out = _shrink_spec(spec, failure.bucket, budget=120 if tier == "quick" else 400)
        if out is None:
            return failure
        spec, (case, r) = out
        c = dict(case)
        c["spec"] = spec
        return Failure(r[0], r[1], c)


CHECK = C32()
