"""C27 — DiGraph algorithms match their textbook definitions.

Enumerated stratum: every digraph on n <= 4 nodes, self-loops included (2^(n*n) graphs), and in
the thorough tier every digraph on 5 nodes without self-loops (2^20), each with EVERY node taken
as head and as leaf.  Random stratum: Hypothesis graphs of 6..12 nodes (random edge insertion
order and node labelling), every node as head / leaf.

Oracles are written from the definitions with plain reachability on bit masks, none of miasm's
algorithms is reused:
  R(h)            nodes reachable from h
  d dom n         n in R(h) and (d == n or n not reachable from h once d is removed)
  idom(n)         the strict dominator of n that every other strict dominator of n dominates
  dominator tree  edges (idom(n), n)
  DF(x)           {y in R : x dominates a predecessor (in R) of y and x does not strictly dominate y}
  back edge       (u, v) in E, u in R, v dom u
  natural loop    of back edge (a, b): b + the nodes that reach a without going through b
  post-dominance  the same on the reversed graph from the leaf
  SCC / WCC       classes of mutual reachability / of undirected connectivity
  reachable_sons / parents / parents_stop_node, has_loop (a node reachable from one of its successors)
  find_path / find_path_from_src with cycles_count = 0: the simple paths from src to dst
  ([src] when src == dst)

Contracts taken from the code/docstrings and not exceeded: dominator dictionaries are keyed by the
nodes reachable from the head (co-reachable to the leaf); the head has no immediate dominator; the
dominance frontier dictionary may omit nodes whose frontier is empty; a natural loop body may or
may not contain nodes unreachable from the head (the textbook assumes there are none).
"""
import itertools

from vlib.runner import Check, ShardResult, Failure
import signal


class TimeLimit(BaseException):
    pass


def _on_limit(signum, frame):
    raise TimeLimit()


def call_with_cpu_limit(seconds, fn):
    """Protective limit on the CPU time of this process (ITIMER_PROF), so that a loaded machine
    cannot trigger it; a non-terminating algorithm still does."""
    old = signal.signal(signal.SIGPROF, _on_limit)
    signal.setitimer(signal.ITIMER_PROF, seconds)
    try:
        return fn()
    finally:
        signal.setitimer(signal.ITIMER_PROF, 0)
        signal.signal(signal.SIGPROF, old)

# ---------------------------------------------------------------------------------- oracles


class G(object):
    """plain adjacency on ints 0..n-1 with bit masks"""

    def __init__(self, n, edges):
        self.n = n
        self.succ = [0] * n
        self.pred = [0] * n
        for u, v in edges:
            self.succ[u] |= 1 << v
            self.pred[v] |= 1 << u

    def reach(self, start, adj, removed=-1):
        """mask of nodes reachable from start (start included) following adj, never entering `removed`"""
        if start == removed:
            return 0
        ban = 0 if removed < 0 else (1 << removed)
        seen = 1 << start
        todo = [start]
        while todo:
            u = todo.pop()
            m = adj[u] & ~seen & ~ban
            while m:
                b = m & -m
                seen |= b
                todo.append(b.bit_length() - 1)
                m ^= b
        return seen


def bits(m):
    out = []
    while m:
        b = m & -m
        out.append(b.bit_length() - 1)
        m ^= b
    return out


def dominators(g, h, adj):
    """-> (R mask, {n: mask of dominators of n}) for the nodes reachable from h along adj"""
    R = g.reach(h, adj)
    dom = {n: (1 << n) for n in bits(R)}
    for d in bits(R):
        if d == h:
            lost = R
        else:
            lost = R & ~g.reach(h, adj, removed=d)
        for n in bits(lost):
            dom[n] |= 1 << d
    return R, dom


def idoms(dom, h):
    out = {}
    for n, m in dom.items():
        if n == h:
            continue
        strict = m & ~(1 << n)
        cands = [d for d in bits(strict) if strict & ~dom[d] == 0]   # every strict dominator dominates d
        assert len(cands) == 1, (n, m, dom)
        out[n] = cands[0]
    return out


def simple_paths(g, src, dst, cap=20000):
    if src == dst:
        return [[src]]
    out = []
    path = [src]

    def rec(u, seen):
        for v in bits(g.succ[u] & ~seen):
            if v == dst:
                out.append(path + [v])
                if len(out) > cap:
                    raise OverflowError
            else:
                path.append(v)
                rec(v, seen | (1 << v))
                path.pop()
    rec(src, 1 << src)
    return out


# ---------------------------------------------------------------------------------- judge


def build(n, edges, labels, node_order):
    from miasm.core.graph import DiGraph
    dg = DiGraph()
    for i in node_order:
        dg.add_node(labels[i])
    for u, v in edges:
        dg.add_edge(labels[u], labels[v])
    return dg


class Judge(object):
    def __init__(self, n, edges, labels=None, node_order=None):
        self.n = n
        self.edges = [tuple(e) for e in edges]
        self.labels = labels if labels is not None else list(range(n))
        self.node_order = node_order if node_order is not None else list(range(n))
        self.back = {l: i for i, l in enumerate(self.labels)}
        self.g = G(n, self.edges)
        self.dg = build(n, self.edges, self.labels, self.node_order)
        self.fails = []
        self.selfloop = any(u == v for u, v in self.edges)

    def case(self, head):
        c = {"n": self.n, "edges": [list(e) for e in self.edges], "head": head}
        if self.labels != list(range(self.n)):
            c["labels"] = self.labels
        if self.node_order != list(range(self.n)):
            c["node_order"] = self.node_order
        return c

    def fail(self, bucket, detail, head):
        L = self.labels
        hd = (L[head[0]], L[head[1]]) if isinstance(head, tuple) else (None if head is None else L[head])
        self.fails.append((bucket, "nodes=%r edges=%r head/leaf=%r: %s" % (
            sorted(L), [(L[u], L[v]) for u, v in self.edges], hd, detail), self.case(head if not isinstance(head, tuple) else head[0])))

    def S(self, mask):
        return set(self.labels[i] for i in bits(mask))

    def call(self, name, head, fn):
        try:
            return True, fn()
        except Exception as e:
            self.fail("%s:exception:%s" % (name, type(e).__name__), "raised %r" % (e,), head)
            return False, None

    # ------------------------------------------------------------ graph level
    def graph_level(self):
        g, dg, L = self.g, self.dg, self.labels
        n = self.n
        fwd = [g.reach(i, g.succ) for i in range(n)]
        # SCC
        ok, r = self.call("compute_strongly_connected_components", None, lambda: list(dg.compute_strongly_connected_components()))
        if ok:
            exp = set(frozenset(L[j] for j in range(n) if (fwd[i] >> j) & 1 and (fwd[j] >> i) & 1) for i in range(n))
            got = [frozenset(c) for c in r]
            if set(got) != exp or len(got) != len(exp):
                self.fail("compute_strongly_connected_components", "got %r, expected %r" % (sorted(map(sorted, got)), sorted(map(sorted, exp))), None)
        # WCC
        ok, r = self.call("compute_weakly_connected_components", None, lambda: list(dg.compute_weakly_connected_components()))
        if ok:
            und = [g.succ[i] | g.pred[i] for i in range(n)]
            exp = set(frozenset(self.S(g.reach(i, und))) for i in range(n))
            got = [frozenset(c) for c in r]
            if set(got) != exp or len(got) != len(exp):
                self.fail("compute_weakly_connected_components", "got %r, expected %r" % (sorted(map(sorted, got)), sorted(map(sorted, exp))), None)
        # has_loop
        ok, r = self.call("has_loop", None, lambda: dg.has_loop())
        if ok:
            exp = any((fwd[v] >> u) & 1 for u in range(n) for v in bits(g.succ[u]))
            if bool(r) != exp:
                self.fail("has_loop", "returned %r, expected %r" % (r, exp), None)
        return exp if ok else None

    def paths(self, cap=20000):
        g, dg, L = self.g, self.dg, self.labels
        for s in range(self.n):
            for d in range(self.n):
                try:
                    exp = simple_paths(g, s, d, cap)
                except OverflowError:
                    return False
                exp = sorted([L[i] for i in p] for p in exp)
                for name in ("find_path", "find_path_from_src"):
                    ok, r = self.call(name, (s, d), lambda: getattr(dg, name)(L[s], L[d]))
                    if ok and sorted(r) != exp:
                        self.fail(name + (":src==dst" if s == d else ""), "%s(%r, %r) = %r, expected the simple paths %r" % (name, L[s], L[d], sorted(r), exp), s)
        return True

    # ------------------------------------------------------------ head level
    def head_level(self, h):
        g, dg, L = self.g, self.dg, self.labels
        H = L[h]
        hp = ":head-with-predecessors" if g.pred[h] else ""
        R, dom = dominators(g, h, g.succ)
        idom = idoms(dom, h)
        exp_dom = {L[k]: self.S(v) for k, v in dom.items()}
        # reachable sets
        ok, r = self.call("reachable_sons", h, lambda: list(dg.reachable_sons(H)))
        if ok and (set(r) != self.S(R) or len(r) != len(set(r))):
            self.fail("reachable_sons", "got %r, expected %r" % (r, sorted(self.S(R))), h)
        A = g.reach(h, g.pred)
        ok, r = self.call("reachable_parents", h, lambda: list(dg.reachable_parents(H)))
        if ok and (set(r) != self.S(A) or len(r) != len(set(r))):
            self.fail("reachable_parents", "got %r, expected %r" % (r, sorted(self.S(A))), h)
        # dominators
        ok, r = self.call("compute_dominators" + hp, h, lambda: dg.compute_dominators(H))
        if ok and {k: set(v) for k, v in r.items()} != exp_dom:
            self.fail("compute_dominators" + hp, "got %r, expected %r" % (r, exp_dom), h)
        # immediate dominators
        exp_idom = {L[k]: L[v] for k, v in idom.items()}
        ok, r = self.call("compute_immediate_dominators" + hp, h, lambda: dg.compute_immediate_dominators(H))
        if ok and dict(r) != exp_idom:
            self.fail("compute_immediate_dominators" + hp, "got %r, expected %r" % (r, exp_idom), h)
        # dominator tree
        ok, r = self.call("compute_dominator_tree" + hp, h, lambda: dg.compute_dominator_tree(H))
        if ok:
            te = list(r.edges())
            exp = set((v, k) for k, v in exp_idom.items())
            if set(te) != exp or len(te) != len(exp):
                self.fail("compute_dominator_tree" + hp, "edges %r, expected %r" % (te, sorted(exp)), h)
        # dominance frontier
        ok, r = self.call("compute_dominance_frontier" + hp, h, lambda: dg.compute_dominance_frontier(H))
        if ok:
            exp = {}
            for x in bits(R):
                df = set()
                for y in bits(R):
                    strictly = (dom[y] >> x) & 1 and x != y
                    if strictly:
                        continue
                    if any((dom[p] >> x) & 1 for p in bits(g.pred[y] & R)):
                        df.add(L[y])
                if df:
                    exp[L[x]] = df
            got = {k: set(v) for k, v in r.items() if v}
            if got != exp:
                # narrower root cause: the only difference is that the head itself is missing from frontiers
                exp_nohead = {k: v - {H} for k, v in exp.items() if v - {H}}
                sub = ":only-the-head-is-missing-from-frontiers" if (hp and got == exp_nohead) else ""
                self.fail("compute_dominance_frontier" + hp + sub, "got %r, expected %r" % (got, exp), h)
        # back edges
        exp_back = set((u, v) for u in bits(R) for v in bits(g.succ[u]) if (dom[u] >> v) & 1)
        ok, r = self.call("compute_back_edges" + hp, h, lambda: list(dg.compute_back_edges(H)))
        if ok:
            exp = set((L[u], L[v]) for u, v in exp_back)
            if set(r) != exp or len(r) != len(exp):
                self.fail("compute_back_edges" + hp, "got %r, expected %r" % (r, sorted(exp)), h)
        # natural loops
        ok, r = self.call("compute_natural_loops" + hp, h, lambda: list(dg.compute_natural_loops(H)))
        if ok:
            got_edges = [e for e, _ in r]
            if set(got_edges) != set((L[u], L[v]) for u, v in exp_back) or len(got_edges) != len(exp_back):
                self.fail("compute_natural_loops" + hp, "loops of back edges %r, expected %r" % (got_edges, sorted(exp_back)), h)
            else:
                for (a, b), body in r:
                    ia, ib = self.back[a], self.back[b]
                    full = (1 << ib) | (g.reach(ia, g.pred, removed=ib) if ia != ib else 0)
                    body = set(body)
                    if not (self.S(full & R) <= body <= self.S(full)):
                        self.fail("compute_natural_loops" + hp, "loop of %r: body %r, expected %r (reachable part) .. %r"
                                  % ((a, b), sorted(body), sorted(self.S(full & R)), sorted(self.S(full))), h)
        # ---- the same node as leaf
        lp = ":leaf-with-successors" if g.succ[h] else ""
        PR, pdom = dominators(g, h, g.pred)
        exp_pdom = {L[k]: self.S(v) for k, v in pdom.items()}
        ok, r = self.call("compute_postdominators" + lp, h, lambda: dg.compute_postdominators(H))
        if ok and {k: set(v) for k, v in r.items()} != exp_pdom:
            self.fail("compute_postdominators" + lp, "got %r, expected %r" % (r, exp_pdom), h)
        exp_ipdom = {L[k]: L[v] for k, v in idoms(pdom, h).items()}
        ok, r = self.call("compute_immediate_postdominators" + lp, h, lambda: dg.compute_immediate_postdominators(H))
        if ok and dict(r) != exp_ipdom:
            self.fail("compute_immediate_postdominators" + lp, "got %r, expected %r" % (r, exp_ipdom), h)
        return bool(g.pred[h])

    def stop_node(self, leaf, head):
        """reachable_parents_stop_node(leaf, head) = ancestors of leaf once the edges entering head are cut"""
        g, L = self.g, self.labels
        cut = G(self.n, [(u, v) for u, v in self.edges if v != head])
        exp = self.S(cut.reach(leaf, cut.pred))
        ok, r = self.call("reachable_parents_stop_node", leaf, lambda: list(self.dg.reachable_parents_stop_node(L[leaf], L[head])))
        if ok and (set(r) != exp or len(r) != len(set(r))):
            self.fail("reachable_parents_stop_node", "(leaf=%r, head=%r) got %r, expected %r" % (L[leaf], L[head], r, sorted(exp)), leaf)


LIMIT_S = 10     # CPU seconds per graph (normal cost: 1..50 ms); a hit is inconclusive, never a verdict


def judge_all(n, edges, heads, labels=None, node_order=None, paths=True):
    """-> (failures, has_cycle, [head has predecessor...], timed_out)"""
    j = Judge(n, edges, labels, node_order)
    out = {"cyc": None, "hp": []}

    def body():
        out["cyc"] = j.graph_level()
        if paths:
            j.paths()
        for h in heads:
            out["hp"].append(j.head_level(h))
            for leaf in range(n):
                j.stop_node(leaf, h)
    timed_out = False
    try:
        call_with_cpu_limit(LIMIT_S, body)
    except TimeLimit:
        timed_out = True
    hp = out["hp"] + [False] * (len(list(heads)) - len(out["hp"]))
    return j.fails, out["cyc"], hp, timed_out


def graph_from_index(n, idx, selfloops):
    pairs = [(u, v) for u in range(n) for v in range(n) if selfloops or u != v]
    return [p for k, p in enumerate(pairs) if (idx >> k) & 1]


# ---------------------------------------------------------------------------------- check


class C27(Check):
    pid = "C27"
    rule = ("exhaustive: every digraph on 1..4 nodes with self-loops (2+16+512+65536 graphs; quick tier: all of them) "
            "and, thorough tier, every digraph on 5 nodes without self-loops (2^20), each with every node as head and "
            "as leaf; random: Hypothesis digraphs of 6..12 nodes with shuffled node labels and edge insertion order, "
            "every node as head/leaf. All of dominators, post-dominators, immediate (post-)dominators, dominator "
            "tree, dominance frontier, back edges, natural loops, SCC, WCC, reachable sons/parents/parents_stop_node, "
            "has_loop, find_path and find_path_from_src (cycles_count=0, all src/dst pairs) compared with oracles "
            "written from the definitions on bit-mask reachability. Non-trivial: the graph has a cycle or the head "
            "has a predecessor; distinct by (graph, head).")
    assumptions = ["graphs have no parallel edges (DiGraph.add_edge would list them twice)",
                   "find_path* are only judged for cycles_count=0 (simple paths); on random graphs only when n<=8 and <=14 edges",
                   "a natural loop body may include or omit nodes unreachable from the head",
                   "the dominance frontier is the textbook one also when the head has predecessors (the head can then "
                   "belong to frontiers)"]
    level_text = ("exhaustive comparison with definition-level oracles on all digraphs up to 4 nodes (5 nodes without "
                  "self-loops in the thorough tier) x every head/leaf, randomized beyond")
    technique = "exhaustive small-scope enumeration + property-based testing against definitional oracles"

    def nshards(self, tier):
        return 64 if tier == "thorough" else 16

    def run_shard(self, tier, seed, shard, nshards):
        res = ShardResult()
        strata = [(1, True, 1), (2, True, 1), (3, True, 1), (4, True, 1)]
        if tier == "thorough":
            strata.append((5, False, 1))
        for n, selfloops, stride in strata:
            nb = n * n if selfloops else n * (n - 1)
            cnt = 0
            complete = True
            for idx in range(shard, 1 << nb, nshards):
                edges = graph_from_index(n, idx, selfloops)
                fails, cyc, hp, tl = judge_all(n, edges, range(n))
                for b, d, c in fails:
                    res.fail(b, d, c)
                if tl:
                    complete = False
                    res.notes.append("time limit: n=%d edges=%r" % (n, edges))
                    res.dropped["time-limit %ds on one graph (inconclusive)" % LIMIT_S] += 1
                    if sum(res.dropped.values()) >= 3:
                        res.dropped["shard abandoned after 3 time limits"] += 1
                        res.exhaustive["n=%d%s" % (n, "" if selfloops else "_noselfloop")] = False
                        return res
                    continue
                cnt += 1
                res.evaluations += n
                res.nontrivial_extra += sum(1 for x in hp if (x or cyc))
            res.counters["graphs_n=%d%s" % (n, "" if selfloops else "_noselfloop")] += cnt
            res.exhaustive["n=%d%s" % (n, "" if selfloops else "_noselfloop")] = complete
        res.samples.append({"n": 4, "edges": graph_from_index(4, 4321 + shard * 997, True), "head": shard % 4})
        # random stratum
        from hypothesis import strategies as st
        from vlib import hyp

        @st.composite
        def graphs(draw):
            n = draw(st.integers(6, 12))
            dens = draw(st.sampled_from([1, 1, 2, 3]))
            pair = st.tuples(st.integers(0, n - 1), st.integers(0, n - 1))
            edges = draw(st.lists(pair, min_size=n // 2, max_size=dens * n, unique=True))
            labels = draw(st.permutations(list(range(n))))
            order = draw(st.permutations(list(range(n))))
            return n, [list(e) for e in edges], list(labels), list(order)
        nrand = 2500 if tier == "thorough" else 500
        if tier == "thorough" and shard >= 16:
            nrand = 0

        def one(v):
            n, edges, labels, order = v
            do_paths = n <= 8 and len(edges) <= 14
            if sum(res.dropped.values()) >= 3:
                return
            fails, cyc, hp, tl = judge_all(n, edges, range(n), labels, order, paths=do_paths)
            if tl:
                res.notes.append("time limit: n=%d edges=%r labels=%r order=%r" % (n, edges, labels, order))
                res.dropped["time-limit %ds on one graph (inconclusive)" % LIMIT_S] += 1
            res.counters["random_graphs"] += 1
            res.counters["random_graphs_with_paths_checked" if do_paths else "random_graphs_paths_skipped"] += 1
            for h in range(n):
                res.case(nontrivial_key=(n, edges, labels, order, h) if (cyc or hp[h]) else None,
                         sample={"n": n, "edges": edges, "labels": labels, "node_order": order, "head": h}
                         if (h == 0 and res.counters["random_graphs"] % 40 == 1) else None)
            for b, d, c in fails:
                res.fail(b, d, c)
        if nrand:
            hyp.survey(graphs(), nrand, seed, one)
        return res

    def replay(self, case):
        n = case["n"]
        fails, _, _, _ = judge_all(n, case["edges"], [case["head"]] if case.get("head") is not None else range(n),
                                case.get("labels"), case.get("node_order"),
                                paths=(n <= 8 and len(case["edges"]) <= 14))
        want = case.get("_bucket")
        for b, d, c in fails:
            if want is None or b == want:
                return Failure(b, d, case)
        if fails:
            b, d, c = fails[0]
            return Failure(b, d, case)
        return None

    def shrink(self, failure, tier):
        case = dict(failure.case)
        case["_bucket"] = failure.bucket

        def fails(c):
            f = self.replay(c)
            return f is not None and f.bucket == failure.bucket
        if not fails(case):
            return failure
        # drop edges one at a time
        changed = True
        while changed:
            changed = False
            for i in range(len(case["edges"])):
                cand = dict(case)
                cand["edges"] = case["edges"][:i] + case["edges"][i + 1:]
                if fails(cand):
                    case = cand
                    changed = True
                    break
        f = self.replay(case)
        return Failure(f.bucket, f.detail, case)


CHECK = C27()
