"""C30 — AsmCFG edges mirror block constraints.

Model-based histories over 5 loc_keys.  There is no separate model: the *blocks' `bto` sets are
the specification* and the graph must mirror them.  After every API call (raising or not) the
invariant of the statement is evaluated from public accessors:

  P          = blocks of the graph (cfg.blocks)
  expected   = {(b.loc_key, c.loc_key) : b in P, c in b.bto, c.loc_key has a block in P}
  edges      : set(cfg.edges()) == expected, no edge listed twice,
               keys(cfg.edges2constraint) == expected,
               edges2constraint[e] is the kind of one of the constraints of e's source to e's destination
  pendings   : {k : cfg.pendings[k] non-empty} == {c.loc_key : b in P, c in b.bto, c.loc_key without block}

plus the direct effect of the call (block added / removed, edge present with the requested kind /
absent, blocks not concerned keep their `bto`; rebuild_edges() never changes a `bto`).

Operations: add_block of a new block object (constraints: any list over the 5 loc_keys, self-loops
and same-kind duplicates included), add_block of a loc_key already present (no-op), re-adding a
block object deleted earlier, del_block, add_edge between present blocks, del_edge of an existing
edge, direct edits of a block's `bto` (add / remove / change kind) followed by rebuild_edges() as
its docstring requires, rebuild_edges() alone, merge() with a second AsmCFG built from fresh block
objects (possibly for loc_keys already present).

Two constraints of *different kinds* to one destination in the same block are rejected by an
assertion in add_edge by design (callers run AsmBlock.fix_constraints first); such blocks are out
of domain and never generated (same-kind duplicate constraint objects are).  When an operation
raises AssertionError the history stops after the invariant has been judged.
"""
from vlib.runner import Check, ShardResult, Failure
from vlib import hyp
from vlib.hyp import CheckFailure

NLOC = 5


class Sim(object):
    last = None

    def __init__(self):
        from miasm.core.locationdb import LocationDB
        from miasm.core.asmblock import AsmCFG, AsmConstraint
        self.loc_db = LocationDB()
        self.keys = [self.loc_db.add_location() for _ in range(NLOC)]
        self.kidx = {k: i for i, k in enumerate(self.keys)}
        self.kinds = [AsmConstraint.c_to, AsmConstraint.c_next]
        self.cfg = AsmCFG(self.loc_db)
        self.deleted = []          # block objects removed from the graph
        self.nops = 0
        self.stats = {"deletions": 0, "merges": 0, "rebuilds_after_edit": 0, "pending_resolved": 0}
        self.stopped = False
        Sim.last = self

    # ------------------------------------------------------------------ helpers
    def mkblock(self, cfgspec):
        from miasm.core.asmblock import AsmBlock, AsmConstraint
        ki, cons = cfgspec
        b = AsmBlock(self.loc_db, self.keys[ki % NLOC])
        seen = {}
        for d, k in cons:
            d %= NLOC
            k %= 2
            # one kind per destination (first one wins); same-kind duplicates are kept
            k = seen.setdefault(d, k)
            b.bto.add(AsmConstraint(self.keys[d], self.kinds[k]))
        return b

    def present(self, cfg=None):
        cfg = cfg or self.cfg
        return sorted(cfg.blocks, key=lambda b: self.kidx[b.loc_key])

    def bto_desc(self, b):
        return sorted((self.kidx[c.loc_key], self.kinds.index(c.c_t)) for c in b.bto)

    def desc(self, cfg=None):
        cfg = cfg or self.cfg
        return "blocks{%s} edges%s pend%s" % (
            ", ".join("%d:%s" % (self.kidx[b.loc_key], self.bto_desc(b)) for b in self.present(cfg)),
            sorted((self.kidx[s], self.kidx[d], self.kinds.index(cfg.edges2constraint.get((s, d), self.kinds[0])))
                   for s, d in cfg.edges()),
            sorted(self.kidx[k] for k, v in cfg.pendings.items() if v))

    def _fail(self, bucket, detail):
        raise CheckFailure(bucket, "op %d %r; before: %s; after: %s; %s"
                           % (self.nops, self.cur, self.before, self.desc(), detail))

    def snapshot_bto(self):
        return {id(b): (b, self.bto_desc(b)) for b in self.present()}

    def invariant(self, what, cfg=None):
        cfg = cfg or self.cfg
        blocks = list(cfg.blocks)
        bykey = {}
        for b in blocks:
            if b.loc_key in bykey:
                self._fail(what + ":two-blocks-one-loc_key", "%r" % b.loc_key)
            bykey[b.loc_key] = b
            if cfg.loc_key_to_block(b.loc_key) is not b:
                self._fail(what + ":loc_key_to_block", "%r" % b.loc_key)
        expected = {}
        exp_pend = set()
        for b in blocks:
            for c in b.bto:
                if c.loc_key in bykey:
                    expected.setdefault((b.loc_key, c.loc_key), set()).add(c.c_t)
                else:
                    exp_pend.add(c.loc_key)
        edges = list(cfg.edges())
        es = set(edges)
        ix = lambda e: (self.kidx[e[0]], self.kidx[e[1]])
        if len(edges) != len(es):
            self._fail(what + ":edge-listed-twice", "%r" % sorted(map(ix, edges)))
        missing = sorted(map(ix, set(expected) - es))
        extra = sorted(map(ix, es - set(expected)))
        if missing:
            self._fail(what + ":constraint-without-edge", "missing edges %r" % missing)
        if extra:
            self._fail(what + ":edge-without-constraint", "extra edges %r" % extra)
        if set(cfg.edges2constraint) != es:
            self._fail(what + ":edges2constraint-keys", "%r vs edges %r" % (
                sorted(map(ix, cfg.edges2constraint)), sorted(map(ix, es))))
        for e, kinds in expected.items():
            if cfg.edges2constraint[e] not in kinds:
                self._fail(what + ":edge-kind", "edge %r labelled %r, constraints %r" % (ix(e), cfg.edges2constraint[e], sorted(kinds)))
        for b in blocks:
            succ = set(cfg.successors(b.loc_key))
            if succ != set(d for (s, d) in es if s == b.loc_key):
                self._fail(what + ":successors", "block %d" % self.kidx[b.loc_key])
            pred = set(cfg.predecessors(b.loc_key))
            if pred != set(s for (s, d) in es if d == b.loc_key):
                self._fail(what + ":predecessors", "block %d" % self.kidx[b.loc_key])
        pend = set(k for k, v in cfg.pendings.items() if v)
        if pend != exp_pend:
            self._fail(what + ":pendings", "pendings %r, absent constraint destinations %r" % (
                sorted(self.kidx[k] for k in pend), sorted(self.kidx[k] for k in exp_pend)))
        # who waits: a stale or missing waiter becomes a wrong / missing edge when the destination arrives
        got = set((self.kidx[k], id(p.waiter), p.constraint) for k, v in cfg.pendings.items() for p in v)
        exp = set((self.kidx[c.loc_key], id(b), c.c_t) for b in blocks for c in b.bto if c.loc_key not in bykey)
        if got != exp:
            names = {id(b): "block %d" % self.kidx[b.loc_key] for b in blocks}
            show = lambda t: sorted((k, names.get(w, "a block not in the graph"), c) for k, w, c in t)
            self._fail(what + ":pendings-waiters", "unexpected %r, missing %r" % (show(got - exp), show(exp - got)))

    def frame(self, what, snap, concerned):
        """blocks still present and not concerned keep their bto"""
        now = {id(b): b for b in self.present()}
        for i, (b, d) in snap.items():
            if i in now and b.loc_key not in concerned and self.bto_desc(b) != d:
                self._fail(what + ":bto-of-unrelated-block-changed", "block %d: %r -> %r" % (self.kidx[b.loc_key], d, self.bto_desc(b)))

    # ------------------------------------------------------------------ plumbing
    def step(self, op):
        if self.stopped:
            return
        self.nops += 1
        self.cur = op
        self.before = self.desc()
        getattr(self, "op_" + op[0])(*op[1:])

    def call(self, what, fn):
        """-> (ok, result).  AssertionError = rejection by design: judge the invariant, stop."""
        try:
            return True, fn()
        except CheckFailure:
            raise
        except AssertionError as e:
            self.stopped = True
            self.invariant(what + ":after-AssertionError")
            return False, e
        except Exception as e:
            self._fail("%s:exception:%s" % (what, type(e).__name__), "raised %r" % e)

    # ------------------------------------------------------------------ ops
    def _add_block(self, what, b):
        cfg = self.cfg
        snap = self.snapshot_bto()
        holder = cfg.loc_key_to_block(b.loc_key)
        already = holder is not None
        waited = b.loc_key in set(k for k, v in cfg.pendings.items() if v)
        ok, r = self.call(what, lambda: cfg.add_block(b))
        if not ok:
            return
        if already:
            what += ":loc_key-present"
            if r or cfg.loc_key_to_block(b.loc_key) is not holder:
                self._fail(what, "returned %r" % (r,))
        else:
            if not r or cfg.loc_key_to_block(b.loc_key) is not b or b.loc_key not in cfg.nodes():
                self._fail(what + ":not-added", "returned %r" % (r,))
            if waited:
                self.stats["pending_resolved"] += 1
        self.frame(what, snap, set())
        self.invariant(what)

    def op_newblock(self, ki, cons):
        self._add_block("add_block", self.mkblock((ki, cons)))

    def op_readd(self, i):
        if not self.deleted:
            return
        self._add_block("add_block:re-add-deleted", self.deleted[i % len(self.deleted)])

    def op_delblock(self, i):
        pr = self.present()
        if not pr:
            return
        b = pr[i % len(pr)]
        cfg = self.cfg
        snap = self.snapshot_bto()
        preds = set(cfg.predecessors(b.loc_key))
        has_pending = any(c.loc_key not in set(x.loc_key for x in pr) for c in b.bto)
        what = "del_block" + (":block-with-pending-constraints" if has_pending else "")
        ok, _ = self.call(what, lambda: cfg.del_block(b))
        if not ok:
            return
        self.stats["deletions"] += 1
        self.deleted.append(b)
        if cfg.loc_key_to_block(b.loc_key) is not None or b.loc_key in cfg.nodes():
            self._fail(what + ":not-removed", "")
        self.frame(what, snap, preds | {b.loc_key})
        self.invariant(what)

    def op_addedge(self, si, di, k):
        pr = self.present()
        if not pr:
            return
        s = pr[si % len(pr)]
        d = pr[di % len(pr)]
        kind = self.kinds[k % 2]
        cfg = self.cfg
        snap = self.snapshot_bto()
        known = cfg.edges2constraint.get((s.loc_key, d.loc_key))
        what = "add_edge:" + ("new" if known is None else ("same-kind" if known == kind else "other-kind"))
        ok, _ = self.call(what, lambda: cfg.add_edge(s.loc_key, d.loc_key, kind))
        if not ok:
            if known is None or known == kind:
                self._fail(what + ":unexpected-AssertionError", "")
            return
        if known is not None and known != kind:
            self._fail(what + ":accepted", "edge kept kind %r" % cfg.edges2constraint.get((s.loc_key, d.loc_key)))
        if (s.loc_key, d.loc_key) not in cfg.edges() or cfg.edges2constraint.get((s.loc_key, d.loc_key)) != kind:
            self._fail(what + ":not-added", "")
        self.frame(what, snap, {s.loc_key})
        self.invariant(what)

    def op_deledge(self, i):
        cfg = self.cfg
        edges = sorted(cfg.edges(), key=lambda e: (self.kidx[e[0]], self.kidx[e[1]]))
        if not edges:
            return
        s, d = edges[i % len(edges)]
        snap = self.snapshot_bto()
        sb = cfg.loc_key_to_block(s)
        ndup = len([c for c in sb.bto if c.loc_key == d]) if sb is not None else 0
        what = "del_edge" + (":duplicate-constraints" if ndup > 1 else "")
        ok, _ = self.call(what, lambda: cfg.del_edge(s, d))
        if not ok:
            return
        self.stats["deletions"] += 1
        if (s, d) in cfg.edges():
            self._fail(what + ":not-removed", "")
        self.frame(what, snap, {s})
        self.invariant(what)

    def op_editbto(self, bi, edits):
        from miasm.core.asmblock import AsmConstraint
        pr = self.present()
        if not pr:
            return
        b = pr[bi % len(pr)]
        for ed in edits:
            cons = sorted(b.bto, key=lambda c: (self.kidx[c.loc_key], c.c_t))
            if ed[0] == "add":
                dst = self.keys[ed[1] % NLOC]
                kind = self.kinds[ed[2] % 2]
                for c in cons:          # one kind per destination: reuse the kind already there
                    if c.loc_key == dst:
                        kind = c.c_t
                b.bto.add(AsmConstraint(dst, kind))
            elif ed[0] == "rm" and cons:
                b.bto.remove(cons[ed[1] % len(cons)])
            elif ed[0] == "flip" and cons:
                c0 = cons[ed[1] % len(cons)]
                kind = self.kinds[1 - self.kinds.index(c0.c_t)]
                for c in cons:          # all the constraints to that destination change kind
                    if c.loc_key == c0.loc_key:
                        c.c_t = kind
        self.cur = list(self.cur) + ["-> bto %r" % self.bto_desc(b)]
        self._rebuild("rebuild_edges:after-bto-edit")
        self.stats["rebuilds_after_edit"] += 1

    def op_rebuild(self):
        self._rebuild("rebuild_edges:in-sync")

    def _rebuild(self, what):
        snap = self.snapshot_bto()
        ok, _ = self.call(what, lambda: self.cfg.rebuild_edges())
        if not ok:
            return
        for i, (b, d) in snap.items():
            if self.bto_desc(b) != d:
                self._fail(what + ":bto-changed", "block %d: %r -> %r" % (self.kidx[b.loc_key], d, self.bto_desc(b)))
        self.invariant(what)

    def op_merge(self, specs, edges):
        from miasm.core.asmblock import AsmCFG
        other = AsmCFG(self.loc_db)
        main = self.cfg
        try:
            self.cfg = other            # so that failures while building `other` describe it
            for spec in specs:
                ok, _ = self.call("merge:building-other:add_block", lambda: other.add_block(self.mkblock(spec)))
                if not ok:
                    return
            pr = self.present(other)
            for si, di, k in edges:
                if not pr:
                    break
                s, d = pr[si % len(pr)], pr[di % len(pr)]
                if other.edges2constraint.get((s.loc_key, d.loc_key)) is None:
                    other.add_edge(s.loc_key, d.loc_key, self.kinds[k % 2])
            self.invariant("merge:building-other")
        finally:
            self.cfg = main
        odesc = self.desc(other)
        self.cur = ["merge", odesc]
        oblocks = [b.loc_key for b in other.blocks]
        oedges = {e: other.edges2constraint[e] for e in other.edges()}
        conflict = any(main.edges2constraint.get(e, k) != k for e, k in oedges.items())
        what = "merge" + (":conflicting-edge-kind" if conflict else "")
        ok, _ = self.call(what, lambda: main.merge(other))
        if not ok:
            if not conflict:
                # a kind conflict may also come from a pending constraint of ours resolved by the merge
                pass
            return
        self.stats["merges"] += 1
        for k in oblocks:
            if main.loc_key_to_block(k) is None:
                self._fail(what + ":block-not-imported", "block %d" % self.kidx[k])
        for e, k in oedges.items():
            if e not in main.edges() or main.edges2constraint.get(e) != k:
                self._fail(what + ":edge-not-imported", "edge %r" % ((self.kidx[e[0]], self.kidx[e[1]]),))
        self.invariant(what)

    def finish(self):
        pass


def history_strategy():
    from hypothesis import strategies as st
    k5 = st.integers(0, NLOC - 1)
    kind = st.integers(0, 1)
    cons = st.lists(st.tuples(k5, kind).map(list), max_size=4)
    spec_ops = st.tuples(st.just("newblock"), k5, cons).map(list)
    edit = st.one_of(st.tuples(st.just("add"), k5, kind).map(list),
                     st.tuples(st.just("rm"), k5).map(list),
                     st.tuples(st.just("flip"), k5).map(list))
    op = st.one_of(
        spec_ops, spec_ops, spec_ops,
        st.tuples(st.just("readd"), k5).map(list),
        st.tuples(st.just("delblock"), k5).map(list),
        st.tuples(st.just("delblock"), k5).map(list),
        st.tuples(st.just("addedge"), k5, k5, kind).map(list),
        st.tuples(st.just("addedge"), k5, k5, kind).map(list),
        st.tuples(st.just("deledge"), st.integers(0, 11)).map(list),
        st.tuples(st.just("deledge"), st.integers(0, 11)).map(list),
        st.tuples(st.just("editbto"), k5, st.lists(edit, min_size=1, max_size=3)).map(list),
        st.just(["rebuild"]),
        st.tuples(st.just("merge"), st.lists(st.tuples(k5, cons).map(list), max_size=3),
                  st.lists(st.tuples(k5, k5, kind).map(list), max_size=2)).map(list),
    )
    return st.lists(op, max_size=14)


class C30(Check):
    pid = "C30"
    rule = ("Hypothesis histories of <=14 AsmCFG mutations over 5 loc_keys: add_block of fresh block objects with "
            "<=4 constraints (self-loops, same-kind duplicate constraint objects, destinations without block), "
            "add_block of a present loc_key, re-adding a deleted block object, del_block, add_edge between present "
            "blocks (new / same kind / other kind), del_edge of an existing edge, direct bto edits (add/remove/"
            "change kind) followed by rebuild_edges(), rebuild_edges() alone, merge() with "
            "a second graph of <=3 fresh blocks and <=2 extra edges. After every call (raising or not) edges, "
            "edges2constraint, successors/predecessors and pendings are recomputed from the blocks' bto and "
            "compared. Non-trivial: the history performed a deletion or a merge; distinct by history.")
    assumptions = ["every node has an AsmBlock (add_edge is only called between present blocks)",
                   "a block carries one kind per destination (callers run fix_constraints; add_edge asserts otherwise); "
                   "duplicates are several constraint objects of the same kind to one destination",
                   "an AssertionError is a rejection by design: the invariant is judged once more and the history stops",
                   "the content of a pending entry (which block waits, with which kind) is checked too: a stale or "
                   "missing waiter turns into a wrong or missing edge as soon as the destination block is added"]
    level_text = ("randomized model-based testing of mutation histories; the edge/pending sets are recomputed from the "
                  "blocks' constraints after every call")
    technique = "model-based stateful property testing (Hypothesis histories, invariant recomputed from block constraints)"

    def nshards(self, tier):
        return 16

    def run_shard(self, tier, seed, shard, nshards):
        res = ShardResult()
        n = 10000 if tier == "thorough" else 1200

        def nontrivial(ops):
            s = Sim.last
            for k, v in s.stats.items():
                res.counters[k] += v
            if s.stopped:
                res.dropped["history stopped at an AssertionError (rejection by design)"] += 1
            for op in ops:
                res.counters["op:" + op[0]] += 1
            return (s.stats["deletions"] + s.stats["merges"]) > 0
        hyp.survey_histories(res, history_strategy(), Sim, n, seed, nontrivial=nontrivial)
        return res

    def replay(self, case):
        return hyp.replay_history(Sim, case)

    def shrink(self, failure, tier):
        ops = failure.case["ops"]

        def fails(cand):
            f = hyp.run_history(Sim, cand)
            return f is not None and f.bucket == failure.bucket
        if len(ops) >= 2:
            ops = hyp.ddmin_list(ops, fails)
        f = hyp.run_history(Sim, ops)
        if f is None or f.bucket != failure.bucket:
            return failure
        return Failure(f.bucket, f.detail, {"ops": ops})


CHECK = C30()
