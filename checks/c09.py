"""C09 — possible_values(expr) covers exactly the concrete value.

Generator: conditional-rich expression trees (ExprCond nested in operands, slices,
compositions, memory pointers, other conditionals' branches and conditions).
Oracle: the reference evaluator S.  For every valuation v on which S(expr, v) is defined:
  (a) some alternative has all its constraints satisfied under v
      (CondConstraintZero: S(c.expr) == 0, CondConstraintNotZero: S(c.expr) != 0);
  (b) every alternative whose constraints are all satisfied has S(value, v) == S(expr, v).
"""
from hypothesis import strategies as st

from vlib.runner import Check, ShardResult, Failure
from vlib import exprgen, hyp, simplab
from vlib.refeval import S, Undefined, Uninterpreted

MAX_ALTS = 512


def _m():
    import miasm.expression.expression as m
    return m


# ----------------------------------------------------------------------------
# generator

COND_W = [1, 1, 1, 2, 8]


@st.composite
def leaf(draw, w):
    m = _m()
    k = draw(st.integers(0, 9))
    if k < 3:
        return draw(exprgen.ints(w))
    if k < 9:
        return draw(exprgen.ids(w))
    return m.ExprLoc(m.LocKey(draw(st.integers(0, 3))), w)


@st.composite
def condition(draw, depth):
    """condition of an ExprCond: from a small pool (so that equal and different conditions both occur),
    a comparison, or itself a tree with conditionals"""
    m = _m()
    k = draw(st.integers(0, 9))
    cw = draw(st.sampled_from(COND_W))
    if k < 5:
        return m.ExprId("c%d_%d" % (draw(st.integers(0, 2)), cw), cw)
    if k < 7:
        w = draw(st.sampled_from([1, 4, 8]))
        return m.ExprOp(draw(st.sampled_from(exprgen.CMP)), draw(exprgen.ids(w)), draw(st.one_of(exprgen.ids(w), exprgen.ints(w))))
    if k < 8:
        # operator-shaped conditions over multi-bit operands (a rewrite of "negated flag"-like conditions is only
        # valid for 1-bit operands): X op const with const in {1, mask, msb, ...}, -X, extensions
        w = draw(st.sampled_from([1, 2, 4, 8]))
        x = draw(exprgen.ids(w))
        shape = draw(st.integers(0, 5))
        if shape <= 3:
            op = ['&', '^', '|', '+'][shape]
            cst = draw(st.one_of(st.sampled_from([1, (1 << w) - 1, 1 << (w - 1), 0]).map(lambda v: m.ExprInt(v, w)),
                                 exprgen.ints(w)))
            return m.ExprOp(op, x, cst)
        if shape == 4:
            return m.ExprOp('-', x)
        return m.ExprOp("zeroExt_%d" % (w + 4), x)
    return draw(crich(cw, max(depth - 1, 0)))


@st.composite
def crich(draw, w, depth):
    m = _m()
    if depth <= 0 or draw(st.integers(0, 11)) == 0:
        return draw(leaf(w))
    sub = lambda ww: crich(ww, depth - 1)
    kinds = ['cond'] * 9 + ['nary', 'nary', 'binw', 'binw', 'slice', 'slice', 'mem', 'mem', 'neg', 'cnt']
    if w >= 2:
        kinds += ['compose', 'compose', 'ext']
    if w == 1:
        kinds += ['cmp', 'flag', 'parity']
    kind = draw(st.sampled_from(kinds))
    if kind == 'cond':
        return m.ExprCond(draw(condition(depth)), draw(sub(w)), draw(sub(w)))
    if kind == 'nary':
        n = draw(st.sampled_from([2, 2, 3]))
        return m.ExprOp(draw(st.sampled_from(exprgen.NARY)), *[draw(sub(w)) for _ in range(n)])
    if kind == 'binw':
        return m.ExprOp(draw(st.sampled_from(exprgen.BINW)), draw(sub(w)), draw(sub(w)))
    if kind == 'neg':
        return m.ExprOp('-', draw(sub(w)))
    if kind == 'cnt':
        return m.ExprOp(draw(st.sampled_from(['cntleadzeros', 'cnttrailzeros'])), draw(sub(w)))
    if kind == 'slice':
        w2 = draw(st.sampled_from([w + 1, 2 * w, w + 8]))
        start = draw(st.sampled_from(sorted({0, w2 - w, (w2 - w) // 2})))
        return m.ExprSlice(draw(sub(w2)), start, start + w)
    if kind == 'compose':
        nparts = draw(st.integers(2, min(3, w)))
        cuts = sorted(draw(st.lists(st.integers(1, w - 1), min_size=nparts - 1, max_size=nparts - 1, unique=True)))
        b = [0] + cuts + [w]
        return m.ExprCompose(*[draw(sub(b[i + 1] - b[i])) for i in range(len(b) - 1)])
    if kind == 'ext':
        w2 = draw(st.integers(1, w - 1))
        return m.ExprOp(draw(st.sampled_from(["zeroExt_%d", "signExt_%d"])) % w, draw(sub(w2)))
    if kind == 'mem':
        return m.ExprMem(draw(sub(draw(st.sampled_from([8, 16, 32, 64])))), w)
    w2 = draw(st.sampled_from([1, 3, 8, 16]))
    if kind == 'cmp':
        return m.ExprOp(draw(st.sampled_from(exprgen.CMP)), draw(sub(w2)), draw(sub(w2)))
    if kind == 'flag':
        return m.ExprOp(draw(st.sampled_from(exprgen.FLAG2)), draw(sub(w2)), draw(sub(w2)))
    if kind == 'parity':
        return m.ExprOp('parity', draw(sub(w2)))
    raise AssertionError(kind)


@st.composite
def cases(draw):
    m = _m()
    w = draw(st.one_of(st.sampled_from([1, 2, 3, 4, 8, 8, 16, 32, 64]), exprgen.widths(1, 64)))
    depth = draw(st.sampled_from([1, 2, 2, 3, 3, 3]))
    e = draw(crich(w, depth))
    if not value_conds(e):
        e = m.ExprCond(draw(condition(1)), e, draw(crich(w, depth - 1)))
    if draw(st.integers(0, 11)) == 0:
        e = m.ExprAssign(m.ExprId("dst%d" % w, w), e)
    return e


# ----------------------------------------------------------------------------
# independent structural measures

def value_conds(e):
    """ExprCond nodes that possible_values has to split on: those not inside a condition"""
    cn = e.__class__.__name__
    if cn == 'ExprCond':
        return [e] + value_conds(e.src1) + value_conds(e.src2)
    if cn == 'ExprAssign':
        return value_conds(e.src)
    out = []
    for c in simplab.children(e):
        out.extend(value_conds(c))
    return out


def cond_contexts(e, parent="root", out=None):
    """kinds of the nodes directly enclosing a conditional"""
    out = set() if out is None else out
    cn = e.__class__.__name__
    if cn == 'ExprCond':
        out.add(parent)
        cond_contexts(e.cond, "condition of a conditional", out)
        cond_contexts(e.src1, "branch of a conditional", out)
        cond_contexts(e.src2, "branch of a conditional", out)
        return out
    kind = {"ExprMem": "memory pointer", "ExprSlice": "slice", "ExprCompose": "composition",
            "ExprAssign": "assignment"}.get(cn)
    if kind is None and cn == 'ExprOp':
        kind = "operand of " + simplab._kind(e)
    for c in simplab.children(e):
        cond_contexts(c, kind, out)
    return out


def n_alternatives(e):
    cn = e.__class__.__name__
    if cn == 'ExprCond':
        return n_alternatives(e.src1) + n_alternatives(e.src2)
    if cn == 'ExprAssign':
        return n_alternatives(e.src)
    n = 1
    for c in simplab.children(e):
        n *= n_alternatives(c)
    return n


# ----------------------------------------------------------------------------
# judging

def ser(e):
    import re
    return re.sub(r"<LocKey (-?\d+)>", r"LocKey(\1)", repr(e))


def _holds(c, env):
    """True / False / None (undefined)"""
    name = c.__class__.__name__
    try:
        v = S(c.expr, simplab.clone_env(env))
    except Undefined:
        return None
    if name == 'CondConstraintZero':
        return v == 0
    if name == 'CondConstraintNotZero':
        return v != 0
    raise Uninterpreted("constraint class %s" % name)


def check_one(e, stats=None):
    """-> None | (kind, detail)"""
    from miasm.expression.expression_helper import possible_values
    target = e.src if e.__class__.__name__ == 'ExprAssign' else e
    alts = list(possible_values(e))
    if stats is not None:
        stats["alternatives"] += len(alts)
    for a in alts:
        if a.value.size != target.size:
            return ("alternative-width", "possible_values(%s) has alternative %s of size %d" % (e, a.value, a.value.size))
    n_env = 0
    for env, _ in simplab.valuations(target, nrandom=16, exhaustive_bits=8):
        try:
            want = S(target, simplab.clone_env(env))
        except Undefined:
            if stats is not None:
                stats["valuations dropped: expression undefined (division by zero)"] += 1
            continue
        n_env += 1
        nsat = 0
        unknown = 0
        for a in alts:
            st_ = True
            for c in a.constraints:
                h = _holds(c, env)
                if h is False:
                    st_ = False
                    break
                if h is None:
                    st_ = None
            if st_ is None:
                unknown += 1
                continue
            if not st_:
                continue
            nsat += 1
            try:
                got = S(a.value, simplab.clone_env(env))
            except Undefined:
                return ("satisfied-alternative-undefined",
                        "possible_values(%s): alternative %s with constraints %s holds under %s but divides by zero; "
                        "expression evaluates to 0x%x" % (e, a.value, sorted(map(repr, a.constraints)),
                                                          simplab.env_desc(env), want))
            if got != want:
                return ("satisfied-alternative-wrong-value",
                        "possible_values(%s): alternative %s with constraints %s holds under %s and evaluates to 0x%x; "
                        "expression evaluates to 0x%x" % (e, a.value, sorted(map(repr, a.constraints)),
                                                          simplab.env_desc(env), got, want))
        if nsat == 0:
            if unknown:
                if stats is not None:
                    stats["valuations dropped: a constraint is undefined"] += 1
                continue
            return ("no-alternative-satisfied",
                    "possible_values(%s): none of the %d alternatives has all constraints satisfied under %s "
                    "(expression evaluates to 0x%x)" % (e, len(alts), simplab.env_desc(env), want))
    if stats is not None:
        stats["valuations"] += n_env
    return None


def _where(ex):
    import traceback
    for fr in reversed(traceback.extract_tb(ex.__traceback__)):
        if "/miasm/" in fr.filename:
            return "%s:%s" % (fr.filename.split("/miasm/")[-1], fr.name)
    return "?"


def judge(e, stats=None, attribute=True):
    """-> (bucket, detail) | None"""
    try:
        r = check_one(e, stats)
    except Uninterpreted:
        if stats is not None:
            stats["dropped: uninterpreted operator"] += 1
        return None
    except RecursionError:
        return ("exception:RecursionError", "possible_values(%s)" % e)
    except Exception as ex:
        return ("exception:%s@%s" % (type(ex).__name__, _where(ex)), "possible_values(%s) raised %r" % (e, ex))
    if r is None:
        return None
    kind, detail = r
    if not attribute:
        return (kind, detail)
    # root cause: smallest sub-expression that fails the same way on its own
    for sub in sorted(simplab.subexprs(e), key=simplab.size_of):
        if sub is e:
            break
        r2 = judge(sub, None, attribute=False)
        if r2 is not None and r2[0] == kind:
            return ("%s:%s" % (kind, simplab._kind(sub)), r2[1] + " [inside %s]" % e)
    return ("%s:%s" % (kind, simplab._kind(e)), detail)


class C09(Check):
    pid = "C09"
    rule = ("Hypothesis: trees of widths 1..64, depth <= 3, where ExprCond is the most frequent node and occurs "
            "in operands of n-ary/binary/unary/comparison/flag operators, in slices, compositions, memory "
            "pointers, branches and conditions of other conditionals (conditions from a pool of 1/2/8-bit "
            "identifiers, comparisons, masks, or nested trees); optionally wrapped in ExprAssign; <= 512 "
            "alternatives. Valuations: all when identifiers total <= 8 bits, else 5 boundary + 16 pseudo-random, "
            "hash memory. Judged with S: >= 1 alternative has all constraints satisfied; every such alternative "
            "evaluates to S(expr). Non-trivial: >= 2 conditionals outside conditions with different conditions; "
            "distinct by expression text.")
    assumptions = ["CondConstraintZero(c) means S(c)=0, CondConstraintNotZero(c) means S(c)!=0",
                   "valuations on which the expression divides by zero are dropped; an alternative whose "
                   "constraint divides by zero is neither satisfied nor unsatisfied",
                   "the value of an ExprAssign is the value of its source"]
    level_text = ("randomized differential testing of the case split against the reference evaluator on "
                  "conditional-rich expressions")
    technique = "property-based differential testing (Hypothesis generators, reference evaluator oracle)"

    def nshards(self, tier):
        return 32 if tier == "thorough" else 16

    def run_shard(self, tier, seed, shard, nshards):
        res = ShardResult()
        n = 6000 if tier == "thorough" else 700
        cnt = [0]

        def one(e):
            cnt[0] += 1
            na = n_alternatives(e)
            if na > MAX_ALTS:
                res.dropped["more than %d alternatives" % MAX_ALTS] += 1
                return
            conds = value_conds(e)
            nt = len(set(c.cond for c in conds)) >= 2
            res.counters["value conditionals: %s" % (len(conds) if len(conds) < 7 else "7+")] += 1
            for ctx in cond_contexts(e):
                res.counters["parent:" + ctx] += 1
            r = judge(e, res.counters)
            res.case(nontrivial_key=repr(e) if nt else None,
                     sample={"expr": str(e), "alternatives": na} if nt and cnt[0] % 89 == 0 else None)
            if r is not None:
                res.fail(r[0], r[1], {"expr": ser(e)})
        hyp.survey(cases(), n, seed, one)
        return res

    def replay(self, case):
        e = simplab.deser(case["expr"])
        r = judge(e)
        if r is None:
            return None
        return Failure(r[0], r[1], case)

    def shrink(self, failure, tier):
        e = simplab.deser(failure.case["expr"])

        def pred(x):
            r = judge(x)
            return r is not None and r[0] == failure.bucket
        small = simplab.shrink_expr(e, pred, budget=300 if tier == "quick" else 1500)
        r = judge(small)
        if r is not None and r[0] == failure.bucket:
            return Failure(r[0], r[1], {"expr": ser(small)})
        return failure

    def extra_evidence(self, m):
        return {"cond_parent_contexts": {k[7:]: v for k, v in m.counters.items() if k.startswith("parent:")}}


CHECK = C09()
