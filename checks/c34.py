"""C34 — typed memory views (miasm.core.types) read back what they write and stay in bounds.

Generated: a type definition (nested Struct / Union / Array / BitField / Ptr / Num, named and
anonymous members) as a JSON tree, a view address inside a VmMngr page pre-filled with a
pattern, and a list of writes.  Oracle (independent of types.py): the C layout rules the module
documents -- struct members packed in order, union members at offset 0 and size = max, array
element i at i*sizeof(elem), BitField bits counted from the LSB of the backing number, Num
= struct format, Str = text + NUL in the named encoding -- applied to a bytearray model of the
page.  After every write through the view: the whole page equals the model (so bytes outside the
field's extent are unchanged and bytes inside are the encoding of the value), the value read
back through the view equals the written one (modulo the bit width), and sizeof / get_offset /
get_addr agree with the model layout.
"""
import struct

from vlib.runner import Check, ShardResult, Failure
from vlib import hyp
from vlib.hyp import CheckFailure

PAGE = 0x10000
PAGE_SIZE = 0x800
VIEW = 0x100           # view base = PAGE + VIEW + delta
SCRATCH = 0x600        # pointer targets / source structs / strings live here
MAX_TYPE = 0x200

NUMFMT = ["B", "H", "I", "Q", "b", "h", "i", "q", "<B", "<H", "<I", "<Q", ">H", ">I", ">Q", "<h", ">i", "<q", ">b",
          "=I", "=H", "<f", "<d", ">f", ">d", "f", "d"]
UNSIGNED = ["B", "H", "I", "Q", "<B", "<H", "<I", "<Q", ">H", ">I", ">Q", "=I", "=H"]
SIGNED_INT = ["b", "h", "i", "q", "<h", ">i", "<q", ">b"]
PTRFMT = ["<I", "<Q", ">I", "I", "<H", ">Q"]
ENCODINGS = ["ascii", "latin1", "ansi", "utf8", "utf16"]
CODEC = {"ascii": "ascii", "latin1": "latin1", "ansi": "latin1", "utf8": "utf-8", "utf16": "utf-16-le"}


def fill_pattern(n):
    return bytes((0xA5 ^ (k * 29) ^ (k >> 5)) & 0xFF for k in range(n))


def endian_of(fmt):
    return "big" if fmt[0] in ">!" else "little"      # '<', '=', '@', none: this host is little endian


def is_float(fmt):
    return fmt[-1] in "fd"


def size_of(spec):
    k = spec[0]
    if k in ("num", "ptr", "bits"):
        return struct.calcsize(spec[1])
    if k == "struct":
        return sum(size_of(s) for _, s in spec[1])
    if k == "union":
        return max(size_of(s) for _, s in spec[1])
    if k == "array":
        return size_of(spec[1]) * spec[2]
    raise ValueError(spec)


def depth_of(spec):
    k = spec[0]
    if k in ("struct", "union"):
        return 1 + max(depth_of(s) for _, s in spec[1])
    if k == "array":
        return 1 + depth_of(spec[1])
    return 0


def has_bits(spec):
    k = spec[0]
    if k == "bits":
        return True
    if k in ("struct", "union"):
        return any(has_bits(s) for _, s in spec[1])
    if k == "array":
        return has_bits(spec[1])
    return False


class Node(object):
    """one addressable piece of the generated type, with the layout the model assigns to it"""
    __slots__ = ("kind", "spec", "off", "size", "path", "flat", "extra", "parent_kind", "ok")

    def __init__(self, kind, spec, off, size, path, flat, extra=None, parent_kind=None, ok=True):
        self.kind, self.spec, self.off, self.size = kind, spec, off, size
        self.path, self.flat, self.extra, self.parent_kind = path, flat, extra, parent_kind
        self.ok = ok        # False: the __anon_N step(s) of `path` are hit by the name collision (see anon_keys)


def anon_keys(spec):
    """names `__anon_N` that an aggregate's field table contains (its own anonymous members and,
    because anonymous members are flattened into their parent, those of its anonymous members)"""
    keys = set()
    if spec[0] in ("struct", "union"):
        cnt = 0
        for name, sub in spec[1]:
            if not name:
                keys.add("__anon_%x" % cnt)
                cnt += 1
                keys |= anon_keys(sub)
    return keys


def shadowed_anon_names(spec):
    """`__anon_N` names of spec's own anonymous members that a *later* anonymous member's flattened
    table redefines (types.py Struct._gen_fields copies the inner `__anon_N` keys into the parent)"""
    out = set()
    members = spec[1]
    cnt = 0
    for j, (name, sub) in enumerate(members):
        if name:
            continue
        aname = "__anon_%x" % cnt
        cnt += 1
        for name2, sub2 in members[j + 1:]:
            if not name2 and aname in anon_keys(sub2):
                out.add(aname)
    return out


def walk(spec, off, path, flat, out, parent_kind=None, ok=True, anon=False, parent_flat=None):
    """model layout: fills out with Nodes (depth first).  `path` goes through the documented
    `__anon_N` names of anonymous members, `flat` uses the flattened member names instead (None
    for an anonymous member itself)"""
    k = spec[0]
    node = Node(k, spec, off, size_of(spec), path, None if anon else flat, parent_kind=parent_kind, ok=ok)
    out.append(node)
    below = parent_flat if anon else flat        # flattened prefix for this node's members
    if k in ("struct", "union"):
        cur = off
        cnt = 0
        bad = shadowed_anon_names(spec)
        for name, sub in spec[1]:
            if name:
                walk(sub, cur, path + [("f", name)], below + [("f", name)], out, k, ok)
            else:
                aname = "__anon_%x" % cnt
                cnt += 1
                walk(sub, cur, path + [("f", aname)], None, out, k, ok and aname not in bad, True, below)
            if k == "struct":
                cur += size_of(sub)
    elif k == "array":
        es = size_of(spec[1])
        for i in range(spec[2]):
            walk(spec[1], off + i * es, path + [("i", i)], below + [("i", i)], out, k, ok)
    elif k == "bits":
        boff = 0
        for name, nb in spec[2]:
            out.append(Node("bit", spec, off, node.size, path + [("f", name)], below + [("f", name)],
                            (boff, nb), "bits", ok))
            boff += nb


def build(spec, T, counter):
    k = spec[0]
    if k == "num":
        return T.Num(spec[1])
    if k == "ptr":
        tgt = spec[2]
        return T.Ptr(spec[1], T.Num(tgt[1]) if tgt[0] == "num" else T.Str(tgt[1]))
    if k == "struct":
        counter[0] += 1
        name = "S%d" % counter[0]
        return T.Struct(name, [(n, build(s, T, counter)) for n, s in spec[1]])
    if k == "union":
        return T.Union([(n, build(s, T, counter)) for n, s in spec[1]])
    if k == "array":
        return T.Array(build(spec[1], T, counter), spec[2])
    if k == "bits":
        return T.BitField(T.Num(spec[1]), [(n, b) for n, b in spec[2]])
    raise ValueError(spec)


def num_value(fmt, seed):
    """a value of the format's domain derived from an integer seed (JSON-friendly, shrinks to 0)"""
    c = fmt[-1]
    if c in "fd":
        raw = struct.pack("<Q", seed & 0xFFFFFFFFFFFFFFFF)
        v = struct.unpack("<d", raw)[0] if c == "d" else struct.unpack("<f", raw[:4])[0]
        if v != v or v in (float("inf"), float("-inf")):
            v = float(seed % 1000) / 8
        return v
    n = 8 * struct.calcsize(fmt)
    v = seed & ((1 << n) - 1)
    if c in "bhiq" and v >= 1 << (n - 1):
        v -= 1 << n
    return v


def text_value(enc, seed, n):
    hi = {"ascii": 0x7F, "latin1": 0xFF, "ansi": 0xFF}.get(enc, 0x2FFFF)
    out = []
    x = seed
    for _ in range(n):
        x = (x * 6364136223846793005 + 1442695040888963407) & 0xFFFFFFFFFFFFFFFF
        c = 1 + (x >> 20) % hi
        if x & 3 and hi > 0xFF:
            c = 1 + (x >> 20) % 0x250          # mostly short code points
        if 0xD800 <= c <= 0xDFFF:
            c = 0x41
        out.append(chr(c))
    return "".join(out)


class Lab(object):
    """one case: real view + page model"""

    def __init__(self, case):
        import miasm.core.types as T
        from miasm.jitter import VmMngr
        self.T = T
        T.DYN_MEM_STRUCT_CACHE.clear()
        self.spec = case["spec"]
        self.base = PAGE + VIEW + (case["delta"] & 7)
        vm = VmMngr.Vm()
        vm.init_memory_page_pool()
        vm.init_code_bloc_pool()
        vm.init_memory_breakpoint()
        vm.set_little_endian()
        self.model = bytearray(fill_pattern(PAGE_SIZE))
        vm.add_memory_page(PAGE, 3, bytes(self.model), "c34")
        self.vm = vm
        self.nodes = []
        walk(self.spec, 0, [], [], self.nodes)
        try:
            self.type = build(self.spec, T, [0])
            self.view = self.type.lval(vm, self.base)
        except Exception as e:
            raise CheckFailure("build:%s" % type(e).__name__, "building %r: %r" % (self.spec, e))
        self.leaves = [n for n in self.nodes if n.kind in ("num", "ptr", "bit")]
        self.arrays = [n for n in self.nodes if n.kind == "array"]
        self.aggs = [n for n in self.nodes if n.path and (
            (n.kind == "array" and n.spec[1][0] == "num") or n.kind in ("struct", "union", "bits"))]
        self.ptrs = [n for n in self.nodes if n.kind == "ptr"]

    # -- access through the view ------------------------------------------------------------
    def get_at(self, path):
        cur = self.view
        for kind, x in path:
            cur = cur.get_field(x) if kind == "f" else cur[x]
        return cur

    def set_at(self, path, val, attr=False):
        cont = self.get_at(path[:-1])
        kind, x = path[-1]
        if kind == "f":
            if attr:
                setattr(cont, x, val)
            else:
                cont.set_field(x, val)
        else:
            cont[x] = val

    def pick_path(self, node, alt):
        """-> (path, how) or (None, None) when the only route is an `__anon_N` name hit by the collision"""
        if node.flat is not None and node.flat != node.path and (alt & 1 or not node.ok):
            return node.flat, "flattened"
        if not node.ok:
            return None, None
        return node.path, "direct"

    # -- judging ----------------------------------------------------------------------------
    def compare_page(self, what, lo, hi, kind):
        real = self.vm.get_mem(PAGE, PAGE_SIZE)
        if real == bytes(self.model):
            return
        diff = [k for k in range(PAGE_SIZE) if real[k] != self.model[k]]
        outside = [k for k in diff if not (lo <= PAGE + k < hi)]
        self.model[:] = real
        if outside:
            raise CheckFailure("bytes-outside-extent:%s" % kind,
                               "%s: field extent [0x%x,0x%x) but bytes at %s changed" %
                               (what, lo, hi, ["0x%x" % (PAGE + k) for k in outside[:8]]))
        raise CheckFailure("bytes-inside-extent:%s" % kind,
                           "%s: stored bytes at %s are not the encoding of the value" %
                           (what, ["0x%x" % (PAGE + k) for k in diff[:8]]))

    def put(self, addr, data):
        self.model[addr - PAGE:addr - PAGE + len(data)] = data

    def static_checks(self):
        T = self.T
        top = self.nodes[0]
        try:
            sz = self.view.sizeof()
            sz2 = self.view.get_size()
            sz3 = self.type.size
        except Exception as e:
            raise CheckFailure("sizeof:raises:%s" % type(e).__name__, "%r: %r" % (self.spec, e))
        if not (sz == sz2 == sz3 == top.size):
            raise CheckFailure("sizeof:%s" % top.kind, "sizeof %r get_size %r Type.size %r, layout gives %d for %r"
                               % (sz, sz2, sz3, top.size, self.spec))
        for n in self.nodes:
            if not n.path or n.path[-1][0] != "f":
                continue
            for path in ([n.path] + ([n.flat] if n.flat is not None and n.flat != n.path else [])):
                collide = path is n.path and not n.ok
                if collide and not self.route_ok(path[:-1]):
                    continue        # the container itself is not reachable through this route
                try:
                    cont = self.get_at(path[:-1]) if len(path) > 1 else self.view
                    name = path[-1][1]
                    parent_off = self.offset_of(path[:-1])
                    off = cont.get_offset(name)
                    ad = cont.get_addr(name)
                except Exception as e:
                    if collide:
                        raise CheckFailure("anonymous-member-name-collision", "%r path %r: %r" % (self.spec, path, e))
                    raise CheckFailure("get_offset:raises:%s" % type(e).__name__, "%r path %r: %r" % (self.spec, path, e))
                if off != n.off - parent_off or ad != self.base + n.off:
                    if collide:
                        raise CheckFailure("anonymous-member-name-collision",
                                           "get_offset(%r) = %r on the container at path %r, but that anonymous member "
                                           "is at offset %d; type %r" % (name, off, path[:-1], n.off - parent_off, self.spec))
                    raise CheckFailure("get_offset:%s-in-%s" % (n.kind, n.parent_kind),
                                       "path %r: get_offset %r get_addr 0x%x, layout offset %d (container at %d), "
                                       "type %r" % (path, off, ad, n.off, parent_off, self.spec))

    def route_ok(self, path):
        for n in self.nodes:
            if n.path == path:
                return n.ok
            if n.flat is not None and n.flat == path:
                return True
        return True

    def route(self, node):
        """a usable access path for the node, or None"""
        if node.ok:
            return node.path
        return node.flat

    def offset_of(self, path):
        for n in self.nodes:
            if n.path == path or (n.flat is not None and n.flat == path):
                return n.off
        raise KeyError(path)

    # -- ops --------------------------------------------------------------------------------
    def op_w(self, li, seed, alt):
        if not self.leaves:
            return
        n = self.leaves[li % len(self.leaves)]
        path, how = self.pick_path(n, alt)
        if path is None:
            return
        lo = self.base + n.off
        if n.kind == "bit":
            boff, nb = n.extra
            fmt = n.spec[1]
            v = seed & ((1 << (nb + 2)) - 1)
            e = endian_of(fmt)
            old = int.from_bytes(self.model[lo - PAGE:lo - PAGE + n.size], e)
            mask = (1 << nb) - 1
            new = (old & ~(mask << boff)) | ((v & mask) << boff)
            data = new.to_bytes(n.size, e)
            exp = v & mask
            kind = "bit"
        else:
            fmt = n.spec[1]
            v = num_value(fmt, seed)
            data = struct.pack(fmt, v)
            exp = v
            kind = n.kind
        kind = "%s-in-%s" % (kind, n.parent_kind)
        what = "%s write %r at path %r (%s) of %r @0x%x" % (kind, v, path, how, self.spec, self.base)
        try:
            if n.kind == "ptr" and alt & 2:
                self.get_at(path).val = v
            else:
                self.set_at(path, v, attr=bool(alt & 4) and how == "direct" and path[-1][0] == "f"
                            and not path[-1][1].startswith("__"))
        except Exception as e:
            self.model[:] = self.vm.get_mem(PAGE, PAGE_SIZE)
            raise CheckFailure("write-raises:%s:%s" % (kind, type(e).__name__), "%s: %r" % (what, e))
        self.put(lo, data)
        self.compare_page(what, lo, lo + n.size, kind)
        try:
            got = self.get_at(path)
            if n.kind == "ptr":
                got = got.val
        except Exception as e:
            raise CheckFailure("read-raises:%s:%s" % (kind, type(e).__name__), "%s: %r" % (what, e))
        same = (struct.pack(fmt, got) == struct.pack(fmt, exp)) if (n.kind == "num" and is_float(fmt)) else got == exp
        if not same:
            raise CheckFailure("readback:%s" % kind, "%s: read back %r, expected %r" % (what, got, exp))

    def op_wa(self, ai, seed, alt):
        """aggregate assignment: list to an array of numbers, a same-typed view to a struct/union,
        an integer to a whole bit-field"""
        if not self.aggs:
            return
        n = self.aggs[ai % len(self.aggs)]
        T = self.T
        lo = self.base + n.off
        path, how = self.pick_path(n, alt)
        if path is None:
            return
        if n.kind == "array":
            fmt = n.spec[1][1]
            vals = [num_value(fmt, seed * (k + 3) + k) for k in range(n.spec[2])]
            data = b"".join(struct.pack(fmt, v) for v in vals)
            val = vals
            kind = "array-list"
        elif n.kind == "bits":
            fmt = n.spec[1]
            val = num_value(fmt, seed)
            data = struct.pack(fmt, val)
            kind = "bitfield-whole"
        else:
            src_addr = PAGE + SCRATCH
            data = bytes((seed * 31 + 7 * k + (k >> 2)) & 0xFF for k in range(n.size))
            self.vm.set_mem(src_addr, data)
            self.put(src_addr, data)
            try:
                val = self.get_at(path).__class__(self.vm, src_addr)     # same MemType, other address
            except Exception as e:
                raise CheckFailure("read-raises:%s-copy:%s" % (n.kind, type(e).__name__), "%r path %r: %r"
                                   % (self.spec, path, e))
            kind = "%s-copy" % n.kind
        what = "%s at path %r (%s) of %r @0x%x value %r" % (kind, path, how, self.spec, self.base,
                                                             val if n.kind != "struct" else "<view>")
        try:
            self.set_at(path, val)
        except Exception as e:
            self.model[:] = self.vm.get_mem(PAGE, PAGE_SIZE)
            raise CheckFailure("write-raises:%s:%s" % (kind, type(e).__name__), "%s: %r" % (what, e))
        self.put(lo, data)
        self.compare_page(what, lo, lo + n.size, kind)
        if n.kind == "array":
            try:
                got = list(self.get_at(path))
            except Exception as e:
                raise CheckFailure("read-raises:%s:%s" % (kind, type(e).__name__), "%s: %r" % (what, e))
            if [struct.pack(fmt, g) for g in got] != [struct.pack(fmt, v) for v in vals]:
                raise CheckFailure("readback:%s" % kind, "%s: read back %r" % (what, got))
        elif n.kind != "bits":
            got = bytes(self.get_at(path))
            if got != data:
                raise CheckFailure("readback:%s" % kind, "%s: raw %s, expected %s" % (what, got.hex(), data.hex()))

    def op_oob(self, ai, idx, seed):
        """index outside [-len, len): must raise, or at least not touch anything outside the array"""
        if not self.arrays:
            return
        n = self.arrays[ai % len(self.arrays)]
        length = n.spec[2]
        es = size_of(n.spec[1])
        cand = list(range(length, length * es + 2)) + [-length - 1, -length - 2]
        i = cand[idx % len(cand)]
        elem = n.spec[1]
        if elem[0] in ("num", "ptr"):
            v = num_value(elem[1], seed)
        else:
            return
        rpath = self.route(n)
        if rpath is None:
            return
        what = "array %r of length %d at path %r: [%d] = %r (type %r)" % (n.spec, length, rpath, i, v, self.spec)
        try:
            self.get_at(rpath)[i] = v
        except Exception:
            self.compare_page(what + " raised", 0, 0, "array-index-out-of-range-raised")
            return
        lo = self.base + n.off
        real = self.vm.get_mem(PAGE, PAGE_SIZE)
        self.model[:] = real
        raise CheckFailure("array-index-out-of-range-accepted",
                           "%s was accepted (writes at offset %d of an array of %d bytes)" % (what, i * es, n.size))

    def op_sl(self, ai, a, b, seed):
        if not self.arrays:
            return
        arrs = [n for n in self.arrays if n.spec[1][0] == "num"]
        if not arrs:
            return
        n = arrs[ai % len(arrs)]
        length = n.spec[2]
        a %= length + 1
        b %= length + 1
        if a > b:
            a, b = b, a
        fmt = n.spec[1][1]
        es = size_of(n.spec[1])
        vals = [num_value(fmt, seed + 11 * k) for k in range(b - a)]
        kind = "array-slice-to-end" if b == length else "array-slice"
        sl = slice(a, b)
        if b == length and seed & 1:
            kind = "array-slice-open-end"
            sl = slice(a, None)
        rpath = self.route(n)
        if rpath is None:
            return
        what = "%s [%d:%d] = %r on array %r at path %r of %r" % (kind, a, b, vals, n.spec, rpath, self.spec)
        try:
            self.get_at(rpath)[sl] = vals
        except Exception as e:
            self.model[:] = self.vm.get_mem(PAGE, PAGE_SIZE)
            raise CheckFailure("write-raises:%s:%s" % (kind, type(e).__name__), "%s: %r" % (what, e))
        lo = self.base + n.off + a * es
        self.put(lo, b"".join(struct.pack(fmt, v) for v in vals))
        self.compare_page(what, lo, lo + (b - a) * es, kind)
        try:
            got = self.get_at(rpath)[sl]
        except Exception as e:
            raise CheckFailure("read-raises:%s:%s" % (kind, type(e).__name__), "%s: %r" % (what, e))
        if [struct.pack(fmt, g) for g in got] != [struct.pack(fmt, v) for v in vals]:
            raise CheckFailure("readback:%s" % kind, "%s: read back %r" % (what, got))

    def op_str(self, ei, off, seed, n):
        enc = ENCODINGS[ei % len(ENCODINGS)]
        s = text_value(enc, seed, n % 12)
        addr = PAGE + SCRATCH + (off % 64)
        data = (s + "\x00").encode(CODEC[enc])
        what = "Str(%r) at 0x%x = %r" % (enc, addr, s)
        try:
            view = self.T.Str(enc).lval(self.vm, addr)
            view.val = s
        except Exception as e:
            self.model[:] = self.vm.get_mem(PAGE, PAGE_SIZE)
            raise CheckFailure("write-raises:str-%s:%s" % (enc, type(e).__name__), "%s: %r" % (what, e))
        self.put(addr, data)
        self.compare_page(what, addr, addr + len(data), "str-" + enc)
        try:
            got = view.val
            gsz = view.get_size()
            raw = bytes(view)
        except Exception as e:
            raise CheckFailure("read-raises:str-%s:%s" % (enc, type(e).__name__), "%s: %r" % (what, e))
        if got != s:
            raise CheckFailure("readback:str-" + enc, "%s: read back %r" % (what, got))
        if gsz != len(data) or raw != data:
            raise CheckFailure("sizeof:str-" + enc, "%s: get_size %r raw %r, encoded length %d" % (what, gsz, raw, len(data)))

    def op_wd(self, pi, off, seed, n):
        """set a pointer member to a scratch address, then write through .deref"""
        if not self.ptrs:
            return
        node = self.ptrs[pi % len(self.ptrs)]
        fmt = node.spec[1]
        tgt = node.spec[2]
        addr = PAGE + SCRATCH + 0x80 + (off % 64)
        if struct.calcsize(fmt) < 4:
            return          # a 16-bit pointer cannot hold the page address
        rpath = self.route(node)
        if rpath is None:
            return
        what = "pointer at path %r of %r set to 0x%x" % (rpath, self.spec, addr)
        lo = self.base + node.off
        try:
            self.set_at(rpath, addr)
            self.put(lo, struct.pack(fmt, addr))
            self.compare_page(what, lo, lo + node.size, "ptr")
            mp = self.get_at(rpath)
            if mp.val != addr:
                raise CheckFailure("readback:ptr", "%s: .val = %r" % (what, mp.val))
            if tgt[0] == "num":
                v = num_value(tgt[1], seed)
                data = struct.pack(tgt[1], v)
                mp.deref.val = v
                kind = "deref-num"
            else:
                v = text_value(tgt[1], seed, n % 10)
                data = (v + "\x00").encode(CODEC[tgt[1]])
                mp.deref.val = v
                kind = "deref-str-" + tgt[1]
        except CheckFailure:
            raise
        except Exception as e:
            self.model[:] = self.vm.get_mem(PAGE, PAGE_SIZE)
            raise CheckFailure("write-raises:deref:%s" % type(e).__name__, "%s: %r" % (what, e))
        self.put(addr, data)
        self.compare_page("%s then .deref.val = %r" % (what, v), addr, addr + len(data), kind)
        got = self.get_at(rpath).deref.val
        same = got == v if not (tgt[0] == "num" and is_float(tgt[1])) else struct.pack(tgt[1], got) == data
        if not same:
            raise CheckFailure("readback:" + kind, "%s then .deref.val = %r: read back %r" % (what, v, got))


def judge(case):
    """-> (failures [(bucket, detail)], stats) ; every op is judged, a breach does not stop the case"""
    fails = []
    stats = {}
    spec = case["spec"]
    if size_of(spec) > MAX_TYPE:
        return None, {"dropped": 1}
    try:
        lab = Lab(case)
    except CheckFailure as f:
        return [(f.bucket, f.detail)], stats
    try:
        lab.static_checks()
    except CheckFailure as f:
        fails.append((f.bucket, f.detail))
    for op in case["ops"]:
        name = op[0]
        stats[name] = stats.get(name, 0) + 1
        try:
            getattr(lab, "op_" + name)(*op[1:])
        except CheckFailure as f:
            fails.append((f.bucket, f.detail))
    try:
        raw = bytes(lab.view)
        exp = bytes(lab.model[lab.base - PAGE:lab.base - PAGE + lab.nodes[0].size])
        if raw != exp:
            fails.append(("raw:%s" % lab.nodes[0].kind, "bytes(view) = %s, the view's extent holds %s (type %r)"
                          % (raw.hex(), exp.hex(), spec)))
    except Exception as e:
        fails.append(("raw:raises:%s" % type(e).__name__, "bytes(view) of %r: %r" % (spec, e)))
    return fails, stats


def decode_type(genome):
    """genome (list of small ints) -> type tree with (anon_flag, spec) members.  Drawing a flat list
    and decoding it here is ~20x cheaper than a recursive Hypothesis strategy; minimisation is done
    on the decoded JSON tree (Check.shrink), not on the genome."""
    it = iter(genome)

    def g():
        return next(it, 0)
    budget = [12]

    def leaf(sel):
        sel %= 6
        if sel <= 2:
            return ["num", NUMFMT[g() % len(NUMFMT)]]
        if sel == 3:
            t = g()
            tgt = ["num", NUMFMT[g() % len(NUMFMT)]] if t & 1 else ["str", ENCODINGS[(t >> 1) % len(ENCODINGS)]]
            return ["ptr", PTRFMT[g() % len(PTRFMT)], tgt]
        fmt = UNSIGNED[g() % len(UNSIGNED)]
        total = 8 * struct.calcsize(fmt)
        out = []
        used = 0
        for _ in range(1 + g() % 6):
            w = 1 + g() % 13
            if used + w > total:
                break
            out.append(["", w])
            used += w
        return ["bits", fmt, out or [["", 1]]]

    def members(depth):
        return [[g() % 4 == 0, node(depth + 1)] for _ in range(1 + g() % 4)]

    def node(depth):
        c = g()
        budget[0] -= 1
        k = c % 10
        if depth >= 4 or budget[0] <= 0 or k < (3 if depth <= 1 else 5):
            return leaf(c // 10)
        if k < 5:
            k = 5 + c // 10 % 5
        if k in (5, 6):
            return ["struct", members(depth)]
        if k == 7:
            return ["union", members(depth)]
        elem = node(depth + 1)
        return ["array", elem, 1 + g() % 4]
    top = "struct" if g() & 1 else "union"
    return [top, members(0)]


def strategies():
    from hypothesis import strategies as st
    byte = st.integers(0, 255)
    genome = st.lists(byte, min_size=6, max_size=70)
    seed = st.integers(0, (1 << 64) - 1)
    op = st.tuples(byte, byte, byte, byte, seed)
    return st.tuples(genome, st.integers(0, 7), st.lists(op, min_size=1, max_size=10))


OPKINDS = ["w", "w", "w", "w", "wa", "oob", "sl", "str", "wd"]


def decode_op(t):
    k, x, y, z, seed = t
    name = OPKINDS[k % len(OPKINDS)]
    if name == "w":
        return ["w", x, seed, y & 7]
    if name == "wa":
        return ["wa", x, seed, y & 1]
    if name == "oob":
        return ["oob", x, y, seed]
    if name == "sl":
        return ["sl", x, y, z, seed]
    if name == "str":
        return ["str", x % 5, y & 63, seed, z % 12]
    return ["wd", x, y & 63, seed, z % 10]


def name_members(spec, counter):
    """(anon_flag, spec) members -> [name, spec]; names unique over the whole type; only aggregates
    may be anonymous; bit-field members get names too"""
    k = spec[0]
    if k in ("struct", "union"):
        out = []
        for anon, sub in spec[1]:
            sub = name_members(sub, counter)
            if anon and sub[0] in ("struct", "union", "bits"):
                out.append(["", sub])
            else:
                counter[0] += 1
                out.append(["f%d" % counter[0], sub])
        return [k, out]
    if k == "array":
        return ["array", name_members(spec[1], counter), spec[2]]
    if k == "bits":
        out = []
        for _, w in spec[2]:
            counter[0] += 1
            out.append(["b%d" % counter[0], w])
        return ["bits", spec[1], out]
    if k == "ptr":
        return ["ptr", spec[1], list(spec[2])]
    return list(spec)


def to_case(t):
    genome, delta, ops = t
    return {"spec": name_members(decode_type(genome), [0]), "delta": delta, "ops": [decode_op(o) for o in ops]}


class C34(Check):
    pid = "C34"
    needs_build = True
    level = "exploration"
    technique = "random type definitions and writes vs. an independent C-layout byte model"
    level_text = ("random nested type definitions and field writes compared with an independent layout/encoding "
                  "model of the backing page; no claim beyond the generated types and values")
    rule = ("Hypothesis list of small ints decoded into a type tree (Struct/Union/Array/BitField/Ptr/Num, named and "
            "anonymous members, depth <= 5, <= 12 nodes drawn, "
            "27 number formats incl. signed, float, both byte orders), view address offset 0..7, 1..10 writes "
            "(leaf write by set_field / attribute / flattened anonymous name / Ptr.val, list-to-array, struct copy, "
            "whole bit-field, slice, out-of-range index, Str of the five documented encodings, write through "
            "Ptr.deref). Non-trivial: the type nests aggregates (depth >= 2) or contains a bit-field; distinct by "
            "(type, address, writes).")
    assumptions = [
        "layout oracle = the rules documented in miasm/core/types.py (packed struct, union at offset 0 with max size, "
        "array stride = element size, bits counted from the LSB of the backing Num, Num = struct format on a "
        "little-endian host, Str = text + NUL in ascii/latin1/utf-8/utf-16-le)",
        "values are inside the domain of the field format; strings contain no NUL; struct/union assignment uses a view "
        "of the same type; member names are unique in the whole type; DYN_MEM_STRUCT_CACHE is cleared between cases",
    ]

    def nshards(self, tier):
        return 16

    def run_shard(self, tier, seed, shard, nshards):
        res = ShardResult()
        n = 1500 if tier == "quick" else 16000

        def one(t):
            case = to_case(t)
            fails, stats = judge(case)
            if fails is None:
                res.dropped["type-larger-than-0x%x" % MAX_TYPE] += 1
                return
            nt = depth_of(case["spec"]) >= 2 or has_bits(case["spec"])
            res.case(nontrivial_key=repr(case) if nt else None,
                     sample=case if (nt and res.evaluations % 211 == 1) else None)
            for k, v in stats.items():
                res.counters["op:" + k] += v
            res.counters["depth:%d" % depth_of(case["spec"])] += 1
            seen = set()
            for b, d in fails:
                if b in seen:
                    continue
                seen.add(b)
                res.fail(b, d, dict(case, want=b))
        hyp.survey(strategies(), n, seed, one)
        return res

    def replay(self, case):
        fails, _ = judge(case)
        if not fails:
            return None
        want = case.get("want")
        for b, d in fails:
            if b == want:
                return Failure(b, d, case)
        return Failure(fails[0][0], fails[0][1], case)

    def shrink(self, failure, tier):
        case = dict(failure.case)
        want = failure.bucket

        def fails_with(c):
            try:
                f, _ = judge(c)
            except Exception:
                return False
            return bool(f) and any(b == want for b, _ in f)
        # 1. fewer ops
        ops = hyp.ddmin_list(case["ops"], lambda cand: fails_with(dict(case, ops=cand)), budget=80)
        if fails_with(dict(case, ops=ops)):
            case["ops"] = ops
        # 2. smaller type: drop members / unwrap while the bucket stays
        changed = True
        rounds = 0
        while changed and rounds < 40:
            changed = False
            rounds += 1
            for cand in smaller_specs(case["spec"]):
                c = dict(case, spec=cand)
                if fails_with(c):
                    case = c
                    changed = True
                    break
        f = self.replay(case)
        return f if f is not None and f.bucket == want else failure


def smaller_specs(spec):
    """candidate simplifications of a type tree (one step)"""
    k = spec[0]
    if k in ("struct", "union"):
        members = spec[1]
        if len(members) > 1:
            for i in range(len(members)):
                yield [k, members[:i] + members[i + 1:]]
        for i, (name, sub) in enumerate(members):
            for s in smaller_specs(sub):
                if not name and s[0] not in ("struct", "union", "bits"):
                    continue
                yield [k, members[:i] + [[name, s]] + members[i + 1:]]
    elif k == "array":
        if spec[2] > 1:
            yield ["array", spec[1], spec[2] - 1]
        for s in smaller_specs(spec[1]):
            yield ["array", s, spec[2]]
    elif k == "bits":
        if len(spec[2]) > 1:
            for i in range(len(spec[2])):
                yield ["bits", spec[1], spec[2][:i] + spec[2][i + 1:]]


CHECK = C34()
