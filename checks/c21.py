"""C21 — emulation results do not depend on block partitioning or caching.

For each program (compiled-C functions with loops / branches, x86_16 and MeP templates) and each backend, the run with
jit_maxline = 1, max_exec_per_call = 0, cold cache, default cache size is the reference.  Every other configuration
from {jit_maxline} x {max_exec_per_call} x {cold, warm} x {jitted_block_max_size} must give the same termination,
the same final registers / memory / exception flags and the same executed-instruction address sequence (the
jitter's own log_mn output captured at file-descriptor level).
"""
import collections
import itertools
import random

from vlib.runner import Check, ShardResult, Failure
from vlib import ccorpus, jitlab
from checks import c20

ML = [1, 2, 3, 5, 50]
MEPC = [0, 1, 2, 7]
CACHE = ["cold", "warm"]
BMAX = [10000, 3, 4, 6]
REF = (1, 0, "cold", 10000)
DIMS = ("ml", "mepc", "cache", "bmax")
STEP_LIMIT = 4000       # runiter_once rounds; the programs execute < 1000 instructions

ARCHS = ["x86_32", "x86_64", "arml", "aarch64l", "mips32l", "mips32b", "ppc32b", "msp430"]
FUNCS = ["arr_loop", "loop_cond", "nested", "switch4"]


def pairwise_configs():
    """Deterministic greedy pairwise covering array of the 4-dimensional product (every pair of values of two
    different dimensions occurs in some configuration)."""
    full = list(itertools.product(ML, MEPC, CACHE, BMAX))
    need = set()
    for c in full:
        for i, j in itertools.combinations(range(4), 2):
            need.add((i, c[i], j, c[j]))
    chosen = []
    while need:
        best, gain = None, -1
        for c in full:
            g = sum(1 for i, j in itertools.combinations(range(4), 2) if (i, c[i], j, c[j]) in need)
            if g > gain:
                best, gain = c, g
        chosen.append(best)
        for i, j in itertools.combinations(range(4), 2):
            need.discard((i, best[i], j, best[j]))
    return [c for c in chosen if c != REF]


def scenario(prog, cfg, backend):
    case = {"arch": prog["arch"], "code": prog["code"], "base": prog["base"], "entry": prog["entry"],
            "args": prog["args"], "arr": prog["arr"], "map": "rw"}
    scn, _ = c20.build_scenario(case, backend)
    ml, mepc, cache, bmax = cfg
    scn["log_mn"] = True
    scn["step_limit"] = STEP_LIMIT
    scn["options"] = {"jit_maxline": ml, "max_exec_per_call": mepc}
    scn["block_max"] = bmax
    if cache == "warm":
        scn["script"] = scn["script"] + [["reset"], ["clear_exc"], ["run", prog["entry"]]]
    return scn


def observe(lab, prog, cfg, backend):
    """-> None (inconclusive) or dict(term, trace, final)"""
    obs = lab.run(scenario(prog, cfg, backend), backend)
    if "setup_error" in obs:
        raise RuntimeError("jitlab setup error: %s\n%s" % (obs["setup_error"], obs.get("tb")))
    if "timeout" in obs:
        return None
    if "died" in obs:
        return {"term": ("died", obs["died"]), "trace": None, "final": None}
    conts = [e for e in obs["events"] if e[0] == "cont"]
    c = conts[-1]
    term = c20.term_tuple(obs)
    out = {"term": term, "trace": c[5], "final": obs["final"], "desc": c20.term_desc(obs)}
    if len(conts) == 2:
        out["first"] = {"trace": conts[0][5], "kind": conts[0][1]}
    return out


def compare(ref, got):
    """-> None or (kind, detail)"""
    if got["term"] != ref["term"]:
        return "term", "termination %r, reference %r" % (got["term"], ref["term"])
    first = got.get("first")
    if first is not None and (first["kind"] != "ret" or first["trace"] != ref["trace"]):
        got = dict(got, trace=first["trace"])
    if got["trace"] != ref["trace"]:
        a, b = ref["trace"] or [], got["trace"] or []
        i = 0
        while i < min(len(a), len(b)) and a[i] == b[i]:
            i += 1
        return "trace", ("executed-address sequences differ at position %d (lengths %d reference / %d): reference "
                         "...%s, got ...%s" % (i, len(a), len(b), [hex(x) for x in a[max(0, i - 2):i + 3]],
                                               [hex(x) for x in b[max(0, i - 2):i + 3]]))
    if ref["final"] is not None:
        d = jitlab.diff_snap(ref["final"], got["final"])
        if d:
            return "state", "final state differs (reference vs got): " + "; ".join(d[:6])
    return None


def cfg_desc(cfg):
    return "jit_maxline=%d max_exec_per_call=%d %s jitted_block_max_size=%d" % cfg


def loop_blocks(trace, ml):
    """Estimated number of translated blocks in the hottest loop of the trace under block length ml (0: no loop)."""
    cnt = collections.Counter(trace)
    rep = [a for a, n in cnt.items() if n >= 2]
    if not rep:
        return 0
    lo, hi = min(rep), max(rep)
    body = sorted(a for a in cnt if lo <= a <= hi)
    nxt = {a: b for a, b in zip(body, body[1:])}
    breaks = set()
    for a, b in zip(trace, trace[1:]):
        if lo <= a <= hi and nxt.get(a) != b:
            breaks.add(a)
    return max(len(breaks), -(-len(body) // ml))


def judge_program(lab, prog, backend, cfgs, res=None, minimise=True, skip=None, hung=None):
    """-> list of (bucket, detail, cfg).  skip: configurations not to run (see C21.run_shard); hung: set receiving
    the configurations that ended on the step limit."""
    if skip and REF in skip:
        if res is not None:
            res.dropped["gcc-skipped:python-hit-step-limit-on-reference"] += 1
        return []
    ref = observe(lab, prog, REF, backend)
    if ref is not None and hung is not None and ref["term"][:2] == ("ret", "step-limit"):
        hung.add(REF)
    if ref is None:
        if res is not None:
            res.dropped["time-limit"] += 1
        return []
    if ref["term"][0] in ("pyexc", "died"):
        if res is not None:
            res.dropped["reference-run-unsupported:%s" % (ref["term"][1],)] += 1
        return []
    fails = []
    seen_kinds = set()
    if ref["term"][:2] == ("ret", "step-limit"):
        # the reference itself runs away (MIPS delay-slot finding): one comparison with the default configuration
        # is enough to report it; the other configurations would each burn the whole step budget
        keep = [c for c in cfgs if c[0] == 50][:1] or list(cfgs)[:1]
        if res is not None:
            res.dropped["not-run:reference-hit-step-limit"] += len(cfgs) - len(keep)
        cfgs = keep
    for cfg in cfgs:
        if skip and cfg in skip:
            if res is not None:
                res.dropped["gcc-skipped:python-hit-step-limit-on-this-configuration"] += 1
            continue
        got = observe(lab, prog, cfg, backend)
        if got is None:
            if res is not None:
                res.dropped["time-limit"] += 1
            continue
        if hung is not None and got["term"][:2] == ("ret", "step-limit"):
            hung.add(cfg)
        r = compare(ref, got)
        nblocks = loop_blocks(ref["trace"] or [], cfg[0])
        if res is not None:
            nt = nblocks >= 2
            res.case(nontrivial_key=(prog["arch"], prog["tag"], prog.get("opt"), backend, cfg) if nt else None,
                     sample={"arch": prog["arch"], "program": prog["tag"], "backend": backend,
                             "config": cfg_desc(cfg), "blocks_in_loop": nblocks,
                             "instructions": len(ref["trace"] or [])} if nt and cfg[3] == 3 and cfg[2] == "warm" else None)
            res.counters["backend:" + backend] += 1
            res.counters["ml=%d" % cfg[0]] += 1
            res.counters["cache:" + cfg[2]] += 1
            res.counters["bmax=%d" % cfg[3]] += 1
            res.counters["mepc=%d" % cfg[1]] += 1
        if r is None:
            continue
        kind, detail = r
        mcfg = cfg
        if minimise and (kind,) not in seen_kinds:
            # attribute: put back reference values dimension by dimension while the same kind of difference remains
            for dim in (3, 2, 1):
                cand = list(mcfg)
                cand[dim] = REF[dim]
                cand = tuple(cand)
                if cand == mcfg or cand == REF:
                    continue
                g2 = observe(lab, prog, cand, backend)
                if g2 is None:
                    continue
                r2 = compare(ref, g2)
                if r2 is not None and r2[0] == kind:
                    mcfg, detail = cand, r2[1]
            seen_kinds.add((kind,))
        dims = [DIMS[i] for i in range(4) if mcfg[i] != REF[i]]
        bucket = "%s|%s|%s|%s" % (prog["arch"], backend, kind, ",".join(dims))
        fails.append((bucket, "%s under %s (reference: %s): %s [program %s %s]" % (
            kind, cfg_desc(mcfg), cfg_desc(REF), detail, prog["tag"], prog.get("opt", "")), mcfg))
    return fails


class C21(Check):
    pid = "C21"
    needs_build = True
    rule = ("programs: 4 loop/branch C functions (arr_loop, loop_cond, nested, switch4; clang -O1) for "
            "x86_32/64, arml, aarch64l, mips32l/b, ppc32b, msp430, the x86_16 and MeP templates, plus seeded generated "
            "functions; per backend the reference is jit_maxline=1/max_exec_per_call=0/cold/size 10000, compared "
            "(termination, final state, log_mn address trace) with a pairwise covering set (quick) or the full "
            "product (thorough) of jit_maxline {1,2,3,5,50} x max_exec_per_call {0,1,2,7} x {cold, warm second run "
            "in the same jitter} x jitted_block_max_size {10000,3,4,6}; python backend on every program, gcc on all "
            "(thorough) or the first program of each shard (quick). Non-trivial: the hottest loop of the "
            "program spans >= 2 translated blocks under the configuration; distinct by (program, backend, config).")
    assumptions = ["only the 'python' and 'gcc' backends exist here (llvmlite absent); nothing claimed for LLVM",
                   "log_mn (the jitter's own option) is enabled in every run, it is the observation channel",
                   "the warm run resets argument registers, stack and data pages through the host API and keeps "
                   "the code page untouched (rewriting code legitimately invalidates translations)",
                   "programs whose reference run raises a non-jitter Python exception (unsupported instruction) "
                   "are dropped",
                   "a run is cut after 4000 runiter_once rounds ('step-limit' termination, a deterministic "
                   "observation); configurations on which the python backend hit that limit are not run on gcc"]
    level_text = ("metamorphic testing: each configuration of block length, per-call limit, cache warmth and cache "
                  "size against the single-instruction-block reference of the same backend")
    technique = "metamorphic / configuration-differential testing with pairwise (quick) or full (thorough) coverage"

    def nshards(self, tier):
        return 32 if tier == "thorough" else 16

    def programs(self, tier, wd, shard, nshards, seed):
        """-> list of program dicts for this shard (deterministic stratum first, then seeded supplement)"""
        units = []
        for arch in ARCHS:
            for name in FUNCS:
                units.append(("c", arch, name))
        for arch in c20.ARCHS_T:
            n = len(jitlab.X86_16_TEMPLATES) if arch == "x86_16" else len(jitlab.MEP_TEMPLATES)
            for k in range(n):
                units.append(("t", arch, k))
        mine = [u for i, u in enumerate(units) if i % nshards == shard]
        progs = []
        by_arch = collections.OrderedDict()
        for u in mine:
            if u[0] == "c":
                by_arch.setdefault(u[1], []).append(u[2])
            else:
                p = jitlab.template_programs(u[1])[u[2]]
                if p["code"] is not None:
                    args, arr = c20.inputs_for(u[1], "rw")
                    progs.append(dict(arch=u[1], tag=p["tag"], opt="", code=p["code"].hex(), base=p["base"],
                                      entry=p["entry"], args=args, arr=arr))
        for arch, names in by_arch.items():
            funcs = [f for f in ccorpus.fixed_functions(arch) if f[0] in names]
            progs += self.compile(wd, arch, "-O1", funcs, "d%d" % shard, "rw")
        rng = random.Random(seed)
        nrand = 2 if tier == "thorough" else 1
        for r in range(nrand):
            arch = ARCHS[(shard + r * 3) % len(ARCHS)]
            funcs = ccorpus.gen_functions(rng.getrandbits(30) + 1, 1, arch)
            progs += self.compile(wd, arch, rng.choice(["-O0", "-O1", "-O2"]), funcs, "r%d_%d" % (shard, r), "rw2")
        return progs

    def compile(self, wd, arch, opt, funcs, tag, inputs):
        lay = jitlab.layout(arch)
        out, _ = ccorpus.compile_batch(funcs, arch, opt, wd, lay["code"], tag=tag)
        progs = []
        for r in out:
            if r["code"] is None:
                continue
            args, arr = c20.inputs_for(arch, inputs)
            progs.append(dict(arch=arch, tag=r["tag"], opt=opt, code=r["code"].hex(), base=lay["code"],
                              entry=lay["code"], args=args, arr=arr))
        return progs

    def run_shard(self, tier, seed, shard, nshards):
        res = ShardResult()
        if not jitlab.shard_enabled(shard):
            res.dropped["shard-not-selected(VERIF_ONLY_SHARDS)"] += 1
            res.exhaustive["all-shards-run"] = False
            return res
        cfgs = [c for c in itertools.product(ML, MEPC, CACHE, BMAX) if c != REF] if tier == "thorough" \
            else pairwise_configs()
        res.exhaustive["config-product-per-program"] = (tier == "thorough")
        with jitlab.JitLab(time_limit=600 if tier == "thorough" else 300) as lab:
            wd = lab.workdir()
            for iprog, prog in enumerate(self.programs(tier, wd, shard, nshards, seed)):
                # python first: a configuration on which it ran into the step limit (endless loop caused by the
                # block partition, which both backends share) is not run on gcc, where the same loop would spin
                # inside C without ever coming back (only a wall-clock limit could end it)
                hung = set()
                # quick tier: every program on python, the first two of the shard on gcc too (each distinct block
                # of each jit_maxline value costs one C compilation)
                backends = ("python", "gcc") if (tier == "thorough" or iprog < 1) else ("python",)
                for backend in backends:
                    for bucket, detail, mcfg in judge_program(lab, prog, backend, cfgs, res,
                                                              skip=hung if backend == "gcc" else None,
                                                              hung=hung if backend == "python" else None):
                        case = dict(prog, backend=backend, cfg=list(mcfg))
                        res.fail(bucket, detail, case)
            if lab.stats["timeout"]:
                res.dropped["worker-time-limit"] += lab.stats["timeout"]
        return res

    def replay(self, case):
        cfg = tuple(case["cfg"])
        with jitlab.shared() as lab:
            fails = judge_program(lab, case, case["backend"], [cfg], None, minimise=False)
        if not fails:
            return None
        return Failure(fails[0][0], fails[0][1], case)


CHECK = C21()
