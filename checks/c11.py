"""C11 — match_expr only reports genuine matches.

Case = (subject, pattern, jokers).  The pattern is a generated tree whose leaves may be joker
identifiers (the ExprId objects listed in `tks`); the subject is (i) the pattern instantiated with
generated bindings, commutative arguments shuffled, (ii) such an instance with one local change
(leaf, operator, arity, slice bounds, memory size, branch order, composition split/merge), or
(iii) an unrelated tree.
Oracle, when match_expr does not return False: the returned bindings substituted into the pattern
(by this module's own substitution) equal the subject up to the order of the arguments of the
commutative operators + * ^ & | (compared through this module's own normal form: arguments sorted,
nothing flattened), and every joker occurring in the pattern is bound.
"""
from hypothesis import strategies as st

from vlib.runner import Check, ShardResult, Failure
from vlib import exprgen, hyp, simplab

COMMUTATIVE = ('+', '*', '^', '&', '|')
WIDTHS = [1, 8, 8, 16, 32]


def _m():
    import miasm.expression.expression as m
    return m


def joker(i, w):
    return _m().ExprId("jok%d_%d" % (i, w), w)


def is_joker_name(name):
    return isinstance(name, str) and name.startswith("jok")


# ----------------------------------------------------------------------------
# generators

@st.composite
def gleaf(draw, w, jok):
    m = _m()
    k = draw(st.integers(0, 11))
    if jok and k < 5:
        return joker(draw(st.integers(0, 1)), w)
    if k < 8:
        return m.ExprId("%s%d" % (draw(st.sampled_from("abc")), w), w)
    if k < 11:
        return m.ExprInt(draw(st.sampled_from([0, 1, 2, 3, (1 << w) - 1])) & ((1 << w) - 1), w)
    return m.ExprLoc(m.LocKey(draw(st.integers(0, 2))), w)


@st.composite
def gtree(draw, w, depth, jok):
    """tree of width w; jok: whether joker leaves may appear"""
    m = _m()
    if depth <= 0 or draw(st.integers(0, 5)) == 0:
        return draw(gleaf(w, jok))
    sub = lambda ww: gtree(ww, depth - 1, jok)
    kinds = ['nary', 'nary', 'nary', 'binw', 'neg', 'cond', 'slice', 'mem']
    if w >= 2:
        kinds += ['compose', 'compose', 'compose', 'ext']
    if w == 1:
        kinds += ['cmp', 'cmp']
    kind = draw(st.sampled_from(kinds))
    if kind == 'nary':
        n = draw(st.sampled_from([2, 2, 3]))
        return m.ExprOp(draw(st.sampled_from(COMMUTATIVE)), *[draw(sub(w)) for _ in range(n)])
    if kind == 'binw':
        return m.ExprOp(draw(st.sampled_from(['-', '<<', '>>', 'a>>', '<<<', '>>>', '/', '%'])), draw(sub(w)), draw(sub(w)))
    if kind == 'neg':
        return m.ExprOp('-', draw(sub(w)))
    if kind == 'cond':
        return m.ExprCond(draw(sub(draw(st.sampled_from([1, w])))), draw(sub(w)), draw(sub(w)))
    if kind == 'slice':
        w2 = draw(st.sampled_from(sorted({x for x in (8, 16, 32, 64, 2 * w) if x > w})))
        start = draw(st.sampled_from(sorted({0, w2 - w, (w2 - w) // 2})))
        return m.ExprSlice(draw(sub(w2)), start, start + w)
    if kind == 'mem':
        return m.ExprMem(draw(sub(draw(st.sampled_from([16, 32])))), w)
    if kind == 'compose':
        if w % 8 == 0 and w >= 16 and draw(st.booleans()):
            nparts = draw(st.integers(2, min(3, w // 8)))
            cuts = sorted(draw(st.lists(st.integers(1, w // 8 - 1), min_size=nparts - 1, max_size=nparts - 1, unique=True)))
            b = [0] + [8 * c for c in cuts] + [w]
        else:
            nparts = draw(st.integers(2, min(3, w)))
            cuts = sorted(draw(st.lists(st.integers(1, w - 1), min_size=nparts - 1, max_size=nparts - 1, unique=True)))
            b = [0] + cuts + [w]
        return m.ExprCompose(*[draw(sub(b[i + 1] - b[i])) for i in range(len(b) - 1)])
    if kind == 'ext':
        w2 = draw(st.sampled_from(sorted({x for x in (1, 8, 16, w - 1) if 1 <= x < w})))
        return m.ExprOp(draw(st.sampled_from(["zeroExt_%d", "signExt_%d"])) % w, draw(sub(w2)))
    if kind == 'cmp':
        w2 = draw(st.sampled_from([8, 16, 32]))
        return m.ExprOp(draw(st.sampled_from(exprgen.CMP)), draw(sub(w2)), draw(sub(w2)))
    raise AssertionError(kind)


def jokers_in(e):
    return sorted(set(x for x in simplab.subexprs(e) if x.__class__.__name__ == 'ExprId' and is_joker_name(x.name)),
                  key=repr)


def joker_uses(e):
    d = {}
    for x in simplab.subexprs(e):
        if x.__class__.__name__ == 'ExprId' and is_joker_name(x.name):
            d[x] = d.get(x, 0) + 1
    return d


def substitute(pattern, bindings, tks):
    """own substitution: jokers of `tks` bound in `bindings` are replaced, everything else is rebuilt"""
    if pattern in tks and pattern in bindings:
        return bindings[pattern]
    kids = simplab.children(pattern)
    if not kids:
        return pattern
    return simplab.rebuild(pattern, [substitute(k, bindings, tks) for k in kids])


def normal(e):
    """arguments of commutative operators sorted by the text of their normal form; nothing else changes"""
    kids = simplab.children(e)
    if not kids:
        return e
    nk = [normal(k) for k in kids]
    if e.__class__.__name__ == 'ExprOp' and e.op in COMMUTATIVE:
        nk.sort(key=repr)
    return simplab.rebuild(e, nk)


def shuffle(e, perm_seeds):
    """permute the arguments of commutative operators, driven by the list of ints perm_seeds"""
    import itertools
    kids = simplab.children(e)
    if not kids:
        return e
    nk = [shuffle(k, perm_seeds) for k in kids]
    if e.__class__.__name__ == 'ExprOp' and e.op in COMMUTATIVE and perm_seeds:
        perms = list(itertools.permutations(range(len(nk))))
        p = perms[perm_seeds.pop(0) % len(perms)]
        nk = [nk[i] for i in p]
    return simplab.rebuild(e, nk)


WIDTH_FREE_PARENTS = ("root", "cond.cond", "mem.ptr")


def near_misses(e, ctx="root"):
    """variants of e differing by one local change; all constructible.  ctx tells whether the width of
    this node may change."""
    m = _m()
    cn = e.__class__.__name__
    w = e.size
    free = ctx in WIDTH_FREE_PARENTS
    if cn == 'ExprInt':
        yield m.ExprInt((int(e) + 1) & ((1 << w) - 1), w)
        if free:
            yield m.ExprInt(int(e), w + 8)
    elif cn == 'ExprId':
        yield m.ExprId(e.name + "x", w)
        yield m.ExprInt(0, w)
        if free:
            yield m.ExprId(e.name, w + 8)
    elif cn == 'ExprLoc':
        yield m.ExprLoc(m.LocKey(e.loc_key.key + 1), w)
        yield m.ExprId(str(e.loc_key), w)
    elif cn == 'ExprSlice':
        if e.stop + 1 <= e.arg.size:
            yield m.ExprSlice(e.arg, e.start + 1, e.stop + 1)
        if e.start >= 1:
            yield m.ExprSlice(e.arg, e.start - 1, e.stop - 1)
        if free and e.stop - 1 > e.start:
            yield m.ExprSlice(e.arg, e.start, e.stop - 1)
        if free and e.stop + 1 <= e.arg.size:
            yield m.ExprSlice(e.arg, e.start, e.stop + 1)
    elif cn == 'ExprMem':
        if free:
            yield m.ExprMem(e.ptr, w + 8)
            if w > 8:
                yield m.ExprMem(e.ptr, w - 8)
        yield m.ExprMem(m.ExprMem(e.ptr, e.ptr.size), w)
    elif cn == 'ExprCond':
        if e.src1 is not e.src2:
            yield m.ExprCond(e.cond, e.src2, e.src1)
        if e.cond.size == w:
            yield m.ExprCond(e.src1, e.cond, e.src2)
    elif cn == 'ExprCompose':
        args = list(e.args)
        # split a part / merge two parts / drop or add a part (width preserved unless free)
        for i, a in enumerate(args):
            if a.size >= 2:
                h = a.size // 2
                yield m.ExprCompose(*(args[:i] + [m.ExprSlice(a, 0, h), m.ExprSlice(a, h, a.size)] + args[i + 1:]))
                yield m.ExprCompose(*(args[:i] + [m.ExprId("lo%d" % h, h), m.ExprId("hi%d" % (a.size - h), a.size - h)] + args[i + 1:]))
                break
        if len(args) >= 2:
            merged = m.ExprId("mg%d" % (args[-2].size + args[-1].size), args[-2].size + args[-1].size)
            yield m.ExprCompose(*(args[:-2] + [merged]))
            merged = m.ExprId("mg%d" % (args[0].size + args[1].size), args[0].size + args[1].size)
            yield m.ExprCompose(*([merged] + args[2:]))
            if args[0] is not args[1] and args[0].size == args[1].size:
                yield m.ExprCompose(*([args[1], args[0]] + args[2:]))
        if free:
            yield m.ExprCompose(*(args + [args[0]]))
            yield m.ExprCompose(*args[:-1])
            if len(args) > 1:
                yield m.ExprCompose(*args[1:])
    elif cn == 'ExprOp':
        args = list(e.args)
        op = e.op
        if op in COMMUTATIVE:
            yield m.ExprOp(COMMUTATIVE[(COMMUTATIVE.index(op) + 1) % 5], *args)
            yield m.ExprOp(op, *(args + [args[0]]))
            if len(args) > 2:
                yield m.ExprOp(op, *args[:-1])
                yield m.ExprOp(op, m.ExprOp(op, *args[:2]), *args[2:])
        elif len(args) == 2 and args[0].size == args[1].size:
            if args[0] is not args[1]:
                yield m.ExprOp(op, args[1], args[0])
            swap = {'-': '<<', '<<': '>>', '>>': 'a>>', 'a>>': '<<<', '<<<': '>>>', '>>>': '/', '/': '%', '%': '-',
                    '==': '<u', '<u': '<s', '<s': '<=u', '<=u': '<=s', '<=s': '=='}
            if op in swap:
                yield m.ExprOp(swap[op], *args)
        elif len(args) == 1:
            if op == '-':
                yield m.ExprOp('-', m.ExprOp('-', args[0]))
                yield args[0]
            elif op.startswith("zeroExt_"):
                yield m.ExprOp("signExt_" + op[8:], args[0])
            elif op.startswith("signExt_"):
                yield m.ExprOp("zeroExt_" + op[8:], args[0])
    elif cn == 'ExprAssign':
        if e.dst.size == e.src.size and e.dst is not e.src and not e.src.is_slice():
            yield m.ExprAssign(e.dst, m.ExprOp('-', e.src))


def _child_ctx(e, i):
    cn = e.__class__.__name__
    if cn == 'ExprCond' and i == 0:
        return "cond.cond"
    if cn == 'ExprMem':
        return "mem.ptr"
    return "inner"


def all_near_misses(e, ctx="root"):
    for v in near_misses(e, ctx):
        yield v
    kids = simplab.children(e)
    for i, k in enumerate(kids):
        for v in all_near_misses(k, _child_ctx(e, i)):
            if v.size == k.size or _child_ctx(e, i) in WIDTH_FREE_PARENTS:
                try:
                    yield simplab.rebuild(e, kids[:i] + [v] + kids[i + 1:])
                except Exception:
                    pass


@st.composite
def cases(draw):
    """-> (mode, subject, pattern, tks kind)"""
    m = _m()
    w = draw(st.sampled_from(WIDTHS))
    depth = draw(st.sampled_from([1, 2, 2, 3]))
    pattern = draw(gtree(w, depth, True))
    if draw(st.integers(0, 11)) == 0:
        pattern = m.ExprAssign(m.ExprId("dst%d" % w, w) if draw(st.booleans()) else joker(2, w), pattern)
    mode = draw(st.sampled_from(["instance", "instance", "near-miss", "near-miss", "near-miss", "unrelated", "pattern-itself"]))
    joks = jokers_in(pattern)
    tks_kind = draw(st.sampled_from(["list", "list", "set", "tuple", "list+unused"]))
    if mode == "unrelated":
        subject = draw(gtree(draw(st.sampled_from([w, w, 8, 32])), draw(st.integers(0, 3)), False))
        return (mode, subject, pattern, tks_kind)
    if mode == "pattern-itself":
        return (mode, pattern, pattern, tks_kind)
    bindings = {}
    for j in joks:
        bindings[j] = draw(gtree(j.size, draw(st.integers(0, 1)), False))
    inst = substitute(pattern, bindings, joks)
    seeds = draw(st.lists(st.integers(0, 5), min_size=0, max_size=6))
    subject = shuffle(inst, list(seeds))
    if mode == "near-miss":
        vs = []
        for v in all_near_misses(subject):
            vs.append(v)
            if len(vs) >= 60:
                break
        if vs:
            subject = vs[draw(st.integers(0, len(vs) - 1))]
    return (mode, subject, pattern, tks_kind)


# ----------------------------------------------------------------------------
# judging

def make_tks(pattern, kind):
    joks = jokers_in(pattern)
    if kind == "set":
        return set(joks)
    if kind == "tuple":
        return tuple(joks)
    if kind == "list+unused":
        return list(joks) + [joker(9, 8)]
    return list(joks)


def diff_reason(p, s):
    """first structural difference between two normal forms -> short reason"""
    pc, sc = p.__class__.__name__, s.__class__.__name__
    if p is s:
        return None
    if pc != sc:
        return "class:%s-vs-%s" % (simplab._kind(p), simplab._kind(s))
    if pc == 'ExprOp':
        if p.op != s.op:
            return "operator:%s" % simplab._kind(p)
        if len(p.args) != len(s.args):
            return "arity:%s" % simplab._kind(p)
    if pc == 'ExprCompose' and len(p.args) != len(s.args):
        return "arity:compose"
    if pc == 'ExprSlice' and (p.start != s.start or p.stop != s.stop):
        return "slice-bounds"
    if pc == 'ExprMem' and p.size != s.size:
        return "mem-size"
    kp, ks = simplab.children(p), simplab.children(s)
    if not kp:
        return "leaf:%s" % simplab._kind(p)
    for a, b in zip(kp, ks):
        r = diff_reason(a, b)
        if r:
            return r
    return "other:%s" % simplab._kind(p)


def _prio(reason):
    for i, pre in enumerate(("arity", "slice-bounds", "mem-size", "operator", "joker-binding", "leaf", "class")):
        if reason.startswith(pre):
            return i
    return 9


def verify(p, s, bindings, tks):
    """structural comparison of pattern p (under bindings) with subject s, without building anything:
    -> None when s is p instantiated (up to argument order of commutative operators), else the reason"""
    import itertools
    if p in tks and p in bindings:
        return None if normal(bindings[p]) is normal(s) else "joker-binding"
    pc, sc = p.__class__.__name__, s.__class__.__name__
    if pc != sc:
        return "class:%s-vs-%s" % (simplab._kind(p), simplab._kind(s))
    if pc == 'ExprOp':
        if p.op != s.op:
            return "operator:%s" % simplab._kind(p)
        if len(p.args) != len(s.args):
            return "arity:%s" % simplab._kind(p)
    if pc == 'ExprCompose' and len(p.args) != len(s.args):
        return "arity:compose"
    if pc == 'ExprSlice' and (p.start != s.start or p.stop != s.stop):
        return "slice-bounds"
    if pc == 'ExprMem' and p.size != s.size:
        return "mem-size"
    kp, ks = simplab.children(p), simplab.children(s)
    if not kp:
        return None if p is s else "leaf:%s" % simplab._kind(p)
    if pc == 'ExprOp' and p.op in COMMUTATIVE:
        # alignment with the fewest failing arguments, most specific reason first
        best = None
        for perm in itertools.permutations(ks):
            fails = [r for r in (verify(a, b, bindings, tks) for a, b in zip(kp, perm)) if r]
            if not fails:
                return None
            key = (len(fails), min(_prio(r) for r in fails))
            if best is None or key < best[0]:
                best = (key, min(fails, key=_prio))
        return best[1]
    for a, b in zip(kp, ks):
        r = verify(a, b, bindings, tks)
        if r:
            return r
    return None


def ser(e):
    import re
    return re.sub(r"<LocKey (-?\d+)>", r"LocKey(\1)", repr(e))


def _where(ex):
    import traceback
    for fr in reversed(traceback.extract_tb(ex.__traceback__)):
        if "/miasm/" in fr.filename:
            return "%s:%s" % (fr.filename.split("/miasm/")[-1], fr.name)
    return "?"


def judge(subject, pattern, tks_kind, info=None):
    """-> None | (bucket, detail)"""
    from miasm.expression.expression import match_expr
    tks = make_tks(pattern, tks_kind)
    info = {} if info is None else info
    try:
        r = match_expr(subject, pattern, tks)
    except Exception as ex:
        return ("exception:%s@%s" % (type(ex).__name__, _where(ex)),
                "match_expr(%s, %s, %r) raised %r" % (subject, pattern, tks, ex))
    if r is False:
        info["matched"] = False
        return None
    info["matched"] = True
    if r is True:
        bindings = {}
    elif isinstance(r, dict):
        bindings = r
    else:
        return ("return-type", "match_expr(%s, %s, %r) returned %r" % (subject, pattern, tks, r))
    call = "match_expr(%s, %s, %s) = %s" % (subject, pattern, [str(t) for t in tks],
                                            {str(k): str(v) for k, v in bindings.items()})
    for k in bindings:
        if k not in tks:
            return ("binding-of-non-joker", call)
    try:
        sub = substitute(pattern, bindings, tks)
        a, b = normal(sub), normal(subject)
    except Exception as ex:
        return ("false-match:%s" % (verify(pattern, subject, bindings, tks) or "substitution-ill-formed"),
                call + ": substituting raises %r" % (ex,))
    if a is b:
        unbound = [j for j in jokers_in(pattern) if j not in bindings]
        if unbound:
            return ("unbound-joker", call + ": %s occurs in the pattern and is not bound" % unbound)
        return None
    return ("false-match:%s" % (verify(pattern, subject, bindings, tks) or diff_reason(a, b)),
            call + ": the pattern with these bindings is %s, not the matched expression" % sub)


class C11(Check):
    pid = "C11"
    rule = ("Hypothesis: pattern trees (widths 1/8/16/32, depth <= 3; + * ^ & | with 2-3 arguments, binary and unary "
            "operators, comparisons, extensions, slices, memory, conditionals, 2-3 part compositions, optional "
            "ExprAssign root; leaves: identifiers, integers, locations and up to 3 joker identifiers used "
            "repeatedly) and subjects: the pattern instantiated with generated bindings and shuffled "
            "commutative arguments; such an instance with one local change (leaf, operator, arity of an "
            "operator, slice bounds, memory size, swapped branches/operands/parts, a composition part split in "
            "two or two parts merged, part dropped/added where the width is free); an unrelated tree; the "
            "pattern itself. tks passed as list / set / tuple / list with an unused joker. Judged when the "
            "result is not False: own substitution of the bindings into the pattern equals the subject up to "
            "the argument order of + * ^ & | (own normal form) and every joker of the pattern is bound. "
            "Non-trivial: the match succeeded and the pattern has a repeated joker or a composition; distinct "
            "by (subject, pattern).")
    assumptions = ["jokers are the ExprId objects listed in tks; a return value True (leaf pattern equal to the "
                   "subject) is read as a match with no binding",
                   "commutative operators are + * ^ & | (is_commutative); nested applications are not flattened",
                   "a joker may be bound to an expression of another width as long as the substituted pattern is "
                   "the subject (the property does not constrain widths)",
                   "failing to match an instance is not judged (soundness only); it is counted"]
    level_text = ("randomized testing of match_expr against an independent substitute-and-compare oracle on "
                  "instances, near misses and unrelated subjects")
    technique = "property-based testing (Hypothesis generators of pattern/subject pairs, substitution oracle)"

    def nshards(self, tier):
        return 32 if tier == "thorough" else 16

    def run_shard(self, tier, seed, shard, nshards):
        res = ShardResult()
        n = 8000 if tier == "thorough" else 1200
        cnt = [0]

        def one(c):
            mode, subject, pattern, tks_kind = c
            cnt[0] += 1
            info = {}
            r = judge(subject, pattern, tks_kind, info)
            matched = info.get("matched", False)
            res.counters["%s: %s" % (mode, "matched" if matched else "no match")] += 1
            uses = joker_uses(pattern)
            rep = any(v > 1 for v in uses.values())
            comp = any(x.__class__.__name__ == 'ExprCompose' for x in simplab.subexprs(pattern))
            if matched and rep:
                res.counters["matched with a repeated joker"] += 1
            if matched and comp:
                res.counters["matched with a composition in the pattern"] += 1
            nt = matched and (rep or comp)
            res.case(nontrivial_key=(repr(subject), repr(pattern)) if nt else None,
                     sample={"subject": str(subject), "pattern": str(pattern), "mode": mode}
                     if nt and cnt[0] % 101 == 0 else None)
            if r is not None:
                res.fail(r[0], r[1], {"subject": ser(subject), "pattern": ser(pattern), "tks": tks_kind})
        hyp.survey(cases(), n, seed, one)
        return res

    def replay(self, case):
        r = judge(simplab.deser(case["subject"]), simplab.deser(case["pattern"]), case.get("tks", "list"))
        if r is None:
            return None
        return Failure(r[0], r[1], case)

    def shrink(self, failure, tier):
        subject = simplab.deser(failure.case["subject"])
        pattern = simplab.deser(failure.case["pattern"])
        tk = failure.case.get("tks", "list")
        budget = 200 if tier == "quick" else 800

        def bad(s, p):
            r = judge(s, p, tk)
            return r is not None and r[0] == failure.bucket
        for _ in range(2):
            subject = simplab.shrink_expr(subject, lambda x: bad(x, pattern), budget=budget)
            pattern = simplab.shrink_expr(pattern, lambda x: bad(subject, x), budget=budget)
        r = judge(subject, pattern, tk)
        if r is not None and r[0] == failure.bucket:
            return Failure(r[0], r[1], {"subject": ser(subject), "pattern": ser(pattern), "tks": tk})
        return failure


CHECK = C11()
