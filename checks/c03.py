"""C03 — constant evaluation follows fixed-width two's-complement arithmetic.

Oracle: vlib.refeval (plain Python integer arithmetic written from the property statement).
Exhaustive stratum: every operand tuple for small widths; boundary x random stratum for
widths {9,15,16,17,31,32,33,63,64,65,127,128}.
"""
import itertools
import random as _random   # only used with explicit seeds derived from VERIF_SEED

from vlib.runner import Check, ShardResult, Failure, derive_seed
from vlib import refeval
from vlib.timeout import call_with_limit, TimeLimit

LIMIT_S = 20

BIN_OPS = ['+', '*', '^', '&', '|', '-', '**', '<<', '>>', 'a>>', '<<<', '>>>',
           '/', '%', 'udiv', 'umod', 'sdiv', 'smod',
           '==', '<u', '<s', '<=u', '<=s',
           'FLAG_EQ_AND', 'FLAG_EQ_CMP', 'FLAG_SIGN_SUB', 'FLAG_ADD_CF', 'FLAG_ADD_OF',
           'FLAG_SUB_CF', 'FLAG_SUB_OF']
UN_OPS = ['-', 'parity', 'cntleadzeros', 'cnttrailzeros', 'FLAG_EQ']
TER_FLAGS = ['FLAG_EQ_ADDWC', 'FLAG_SIGN_ADDWC', 'FLAG_ADDWC_CF', 'FLAG_ADDWC_OF',
             'FLAG_EQ_SUBWC', 'FLAG_SIGN_SUBWC', 'FLAG_SUBWC_CF', 'FLAG_SUBWC_OF']
CC_OPS = {'CC_U<=': 2, 'CC_U>=': 1, 'CC_S<': 2, 'CC_S>': 3, 'CC_S<=': 3, 'CC_S>=': 2, 'CC_U>': 2,
          'CC_U<': 1, 'CC_NEG': 1, 'CC_EQ': 1, 'CC_NE': 1, 'CC_POS': 1}
NARY = ['+', '*', '^', '&', '|']
BIG_WIDTHS = [9, 15, 16, 17, 31, 32, 33, 63, 64, 65, 127, 128]


def build(kind, op, w, vals, extra=None):
    from miasm.expression.expression import ExprInt, ExprOp, ExprSlice, ExprCompose, ExprCond
    if kind == 'op':
        sizes = extra or [w] * len(vals)
        return ExprOp(op, *[ExprInt(v, s) for v, s in zip(vals, sizes)])
    if kind == 'ext':
        return ExprOp("%s_%d" % (op, extra), ExprInt(vals[0], w))
    if kind == 'slice':
        return ExprSlice(ExprInt(vals[0], w), extra[0], extra[1])
    if kind == 'compose':
        return ExprCompose(*[ExprInt(v, s) for v, s in zip(vals, extra)])
    if kind == 'cond':
        return ExprCond(ExprInt(vals[0], w), ExprInt(vals[1], extra), ExprInt(vals[2], extra))
    raise ValueError(kind)


def judge(kind, op, w, vals, extra=None):
    """-> (bucket, detail) | None | 'undef'"""
    from miasm.expression.simplifications import expr_simp, expr_simp_explicit
    try:
        e = build(kind, op, w, vals, extra)
    except Exception as ex:
        return ("build:%s:%s" % (op, type(ex).__name__), "%r" % ((kind, op, w, vals, extra),))
    try:
        exp = refeval.S(e, refeval.Env())
    except refeval.Undefined:
        return 'undef'
    label = op if kind in ('op', 'ext') else kind
    for sname, simp in (("expr_simp", expr_simp), ("expr_simp_explicit", expr_simp_explicit)):
        try:
            r = call_with_limit(LIMIT_S, simp, e)
        except TimeLimit:
            return ("%s:no-result-within-%ds" % (label, LIMIT_S),
                    "%s(%s): a single constant fold (normal cost < 1 ms) did not return" % (sname, e))
        except Exception as ex:
            return ("%s:exception:%s" % (label, type(ex).__name__), "%s(%s) raised %r" % (sname, e, ex))
        if not r.is_int():
            return ("%s:not-folded" % label, "%s(%s) = %s" % (sname, e, r))
        if r.size != e.size:
            return ("%s:width" % label, "%s(%s) has width %d, expected %d" % (sname, e, r.size, e.size))
        if int(r) != exp:
            return ("%s:value" % label, "%s(%s) = 0x%x, two's-complement value 0x%x (width %d)"
                    % (sname, e, int(r), exp, e.size))
    return None


def boundary(w):
    m = (1 << w) - 1
    msb = 1 << (w - 1)
    vs = {0, 1, 2, 3, w - 1, w, w + 1, 2 * w, m, m - 1, msb, msb - 1, msb + 1, m >> 1, 7, 8, 9, 0xff, 0x100,
          0x55555555555555555555555555555555 & m, 0xaaaaaaaaaaaaaaaaaaaaaaaaaaaaaaaa & m}
    for k in (w // 2, w // 2 + 1, w - 2):
        if 0 < k < w:
            vs.update({(1 << k) - 1, 1 << k, (1 << k) + 1})
    return sorted(v & m for v in vs)


class C03(Check):
    pid = "C03"
    rule = ("constants only. Exhaustive: every operand tuple of every foldable operator (binary arithmetic/"
            "logic/shift/rotate/division/comparison/flags, unary, carry flags with 1-bit third operand, CC_* on "
            "1- and 2-bit operands, n-ary 3-operand forms, every slice, 2-part compositions, conditionals, every "
            "extension target) for small widths; plus boundary x random operands at widths "
            "9..128. Judged: expr_simp and expr_simp_explicit return an ExprInt of the same width equal to the "
            "reference evaluator; division by zero excluded. Every case is non-trivial; distinct by "
            "(operator, width, operands) - enumerated once each.")
    assumptions = ["'/' and '%' are unsigned (ExprInt is unsigned; udiv/umod are the same operators)",
                   "carry-flag operators take a 1-bit third operand, CC_* operators take flag bits"]
    level_text = ("exhaustive enumeration of constant operands for small widths plus boundary/random sampling "
                  "above, against an independent integer-arithmetic evaluator")
    technique = "exhaustive small-domain enumeration + randomized differential against a reference evaluator"

    def gen_jobs(self, tier):
        """Deterministic list of (kind, op, w, extra) enumeration jobs."""
        wmax = 8 if tier == "thorough" else 6
        jobs = []
        for w in range(1, wmax + 1):
            for op in BIN_OPS:
                jobs.append(("bin", op, w))
            for op in UN_OPS:
                jobs.append(("un", op, w))
            jobs.append(("ext", None, w))
            jobs.append(("slice", None, w))
            if w <= (6 if tier == "thorough" else 5):
                for op in TER_FLAGS:
                    jobs.append(("ter", op, w))
            if w <= (5 if tier == "thorough" else 4):
                for op in NARY:
                    jobs.append(("nary", op, w))
                jobs.append(("compose", None, w))
                jobs.append(("cond", None, w))
        for op in CC_OPS:
            jobs.append(("cc", op, 1))
            jobs.append(("cc", op, 2))
        return jobs

    def run_job(self, res, job):
        kind, op, w = job
        rng = range(1 << w)

        def do(k, o, ww, vals, extra=None):
            r = judge(k, o, ww, vals, extra)
            if r == 'undef':
                res.dropped["division by zero"] += 1
                return
            res.evaluations += 1
            res.nontrivial_extra += 1
            res.counters["exhaustive:" + (o or k)] += 1
            if r is not None:
                res.fail(r[0], r[1], {"kind": k, "op": o, "w": ww, "vals": list(vals), "extra": extra})

        if kind == "bin":
            for a in rng:
                for b in rng:
                    do('op', op, w, (a, b))
        elif kind == "un":
            for a in rng:
                do('op', op, w, (a,))
        elif kind == "ext":
            for o in ("zeroExt", "signExt"):
                for tgt in sorted({w + 1, w + 2, 2 * w, 2 * w + 1, 8, 16, 32, 64, 65, 128}):
                    if tgt <= w:
                        continue
                    for a in rng:
                        do('ext', o, w, (a,), tgt)
        elif kind == "slice":
            for start in range(w):
                for stop in range(start + 1, w + 1):
                    for a in rng:
                        do('slice', None, w, (a,), [start, stop])
        elif kind == "ter":
            for a in rng:
                for b in rng:
                    for c in (0, 1):
                        do('op', op, w, (a, b, c), [w, w, 1])
        elif kind == "nary":
            for a in rng:
                for b in rng:
                    for c in rng:
                        do('op', op, w, (a, b, c))
        elif kind == "compose":
            for w2 in range(1, 4):
                for a in rng:
                    for b in range(1 << w2):
                        do('compose', None, w, (a, b), [w, w2])
            for a in rng:
                do('compose', None, w, (a,), [w])
        elif kind == "cond":
            for c in rng:
                for a in range(4):
                    for b in range(4):
                        do('cond', None, w, (c, a, b), 2)
        elif kind == "cc":
            n = CC_OPS[op]
            for vals in itertools.product(rng, repeat=n):
                do('op', op, w, vals)

    def run_shard(self, tier, seed, shard, nshards):
        res = ShardResult()
        jobs = self.gen_jobs(tier)
        # cost-balanced round robin: sort by estimated size, deal out
        def cost(j):
            k, o, w = j
            return {"bin": 4 ** w, "nary": 8 ** w, "ter": 2 * 4 ** w, "slice": w * w * 2 ** w,
                    "compose": 14 * 2 ** w, "cond": 16 * 2 ** w, "ext": 20 * 2 ** w}.get(k, 2 ** w)
        jobs.sort(key=lambda j: (-cost(j), j[0], str(j[1]), j[2]))
        mine = jobs[shard::nshards]
        for j in mine:
            self.run_job(res, j)
        res.exhaustive["all operand tuples, widths 1..%d" % (8 if tier == "thorough" else 6)] = True
        # boundary x random stratum for large widths
        nrand = 200 if tier == "thorough" else 12
        rnd = _random.Random(derive_seed(seed, "c03rand"))
        hung = set()
        big = [(w, op) for w in BIG_WIDTHS for op in BIN_OPS + UN_OPS + TER_FLAGS + ["zeroExt", "signExt", "slice"]]
        for idx, (w, op) in enumerate(big):
            if idx % nshards != shard:
                continue
            m = (1 << w) - 1
            bvals = boundary(w)
            rvals = [rnd.getrandbits(w) for _ in range(nrand)]
            allv = bvals + rvals
            if op in BIN_OPS:
                pairs = set(itertools.product(bvals, bvals))
                pairs.update(zip(rvals, rnd.sample(allv * 2, len(rvals))))
                pairs.update((r, b) for r in rvals[:nrand // 2] for b in bvals[:12])
                pairs.update((b, r) for r in rvals[:nrand // 2] for b in bvals[:12])
                cases = [('op', op, w, p, None) for p in sorted(pairs)]
            elif op in UN_OPS:
                cases = [('op', op, w, (a,), None) for a in allv]
            elif op in TER_FLAGS:
                cases = [('op', op, w, (a, b, c), [w, w, 1]) for a in bvals for b in bvals for c in (0, 1)]
                cases += [('op', op, w, (a, rnd.getrandbits(w), c), [w, w, 1]) for a in rvals for c in (0, 1)]
            elif op in ("zeroExt", "signExt"):
                cases = [('ext', op, w, (a,), t) for a in allv for t in (w + 1, 2 * w, 128, 256) if t > w]
            else:
                cases = []
                for a in allv[:40]:
                    for (s0, s1) in ((0, 1), (0, w - 1), (1, w), (w - 1, w), (w // 2, w), (3, w // 2 + 3), (0, 8)):
                        if 0 <= s0 < s1 <= w:
                            cases.append(('slice', None, w, (a,), [s0, s1]))
            for k, o, ww, vals, extra in cases:
                if o in hung:
                    res.dropped["skipped after a hang of the same operator"] += 1
                    continue
                r = judge(k, o, ww, vals, extra)
                if r not in (None, 'undef') and "no-result-within" in r[0]:
                    hung.add(o)
                if r == 'undef':
                    res.dropped["division by zero"] += 1
                    continue
                nk = (k, o, ww, tuple(vals), str(extra))
                res.case(nontrivial_key=nk,
                         sample={"kind": k, "op": o, "w": ww, "vals": [hex(v) for v in vals], "extra": extra}
                         if len(res.samples) < 3 and ww > 16 else None)
                res.counters["big:" + (o or k)] += 1
                if r is not None:
                    res.fail(r[0], r[1], {"kind": k, "op": o, "w": ww, "vals": list(vals), "extra": extra})
        if shard == 0:
            res.samples.append({"kind": "op", "op": "sdiv", "w": 4, "vals": [9, 2]})
            res.samples.append({"kind": "slice", "w": 5, "vals": [19], "extra": [1, 4]})
        return res

    def replay(self, case):
        r = judge(case["kind"], case["op"], case["w"], tuple(case["vals"]), case.get("extra"))
        if r is None or r == 'undef':
            return None
        return Failure(r[0], r[1], case)

    def shrink(self, failure, tier):
        # operands toward smaller magnitude while the bucket is kept
        c = dict(failure.case)
        vals = list(c["vals"])
        best = failure
        for i in range(len(vals)):
            for cand in (0, 1, 2, vals[i] >> 1, vals[i] & (vals[i] - 1) if vals[i] else 0):
                if cand >= vals[i]:
                    continue
                nv = list(vals)
                nv[i] = cand
                c2 = dict(c, vals=nv)
                r = self.replay(c2)
                if r is not None and r.bucket == failure.bucket:
                    vals = nv
                    best = r
                    break
        return best


CHECK = C03()
