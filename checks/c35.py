"""C35 — C type layout matches the platform ABI; C access <-> expression round trip.

Generator: vlib.cdecl (random units of struct/union/typedef/enum declarations, nested aggregates, arrays with
constant-expression dimensions, pointers incl. pointer-to-array / function pointers / self references).
Oracle 1 (layout): the host gcc (x86-64 SysV; __attribute__((packed)) on every struct/union for the packed manager):
sizeof/_Alignof of every type node, offsetof of every member, compared with the ObjC tree of
CTypesManagerNotPacked / CTypesManagerPacked over CTypeAMD64_unk.
Oracle 2 (access): an evaluator of C access expressions over the gcc layout (vlib.cdecl.eval_ast, C semantics: lvalues,
array decay, pointer hops as 8-byte loads).  For a random access c:  (e, t) = c_to_expr_and_type(c);
expr_to_c_and_types(expr_simp(e)) must be non-empty, every returned access must denote the same bytes as c, carry a type
consistent with itself, and one of them must have the type of c (for address-valued accesses: or the type of an
enclosing aggregate/array starting at the same address, which the expression cannot distinguish).
Histories: the same unit is also given to ONE declaration table (CAstTypes) with ONE manager, created before any
declaration, chunk of declarations by chunk of declarations, with layout queries in between (every root complete at
that point, pointers to tags that are so far only pointed to); every answer, the final layout of every root and a few
accesses through that manager must agree with the same oracles (a layout does not depend on when it is asked for).
"""
import random
import shutil
import tempfile
import traceback

from vlib.runner import Check, ShardResult, Failure, derive_seed
from vlib import cdecl

BATCH = 50
FEATURES = ("anon-member", "octal", "nested-tag-ref", "forward-ref")


# ----------------------------------------------------------------------------------------------
# miasm side


def new_manager(mode):
    """-> (empty declaration table, manager of the mode over it)"""
    from miasm.core.ctypesmngr import CAstTypes
    from miasm.core.objc import CTypesManagerNotPacked, CTypesManagerPacked
    from miasm.arch.x86.ctype import CTypeAMD64_unk
    ta = CAstTypes()
    cls = CTypesManagerNotPacked if mode == "np" else CTypesManagerPacked
    return ta, cls(ta, CTypeAMD64_unk())


def manager(text, mode):
    from miasm.core.ctypesmngr import CAstTypes
    from miasm.core.objc import CTypesManagerNotPacked, CTypesManagerPacked
    from miasm.arch.x86.ctype import CTypeAMD64_unk
    ta = CAstTypes()
    ta.add_c_decl(text)
    cls = CTypesManagerNotPacked if mode == "np" else CTypesManagerPacked
    return cls(ta, CTypeAMD64_unk())


def by_value_tags(node, out):
    """tags of the aggregates laid out inside the layout tree node (pointers are not followed)"""
    T = node["T"]
    if T[0] == "agg" and T[2] is not None:
        out.add((T[1], T[2]))
    for f in node.get("fields", ()):
        if f[0] is None:
            continue
        by_value_tags(f[2], out)
    if "elem" in node:
        by_value_tags(node["elem"], out)
    return out


def show_history(unit, ops, upto=None):
    out = []
    for op in ops[:upto]:
        if op[0] == "add":
            out.append("add_c_decl: " + cdecl.render_items(unit, op[1], op[2]).strip().replace("\n", " "))
        elif op[0] == "query":
            out.append("get_objc(%s)" % cdecl.root_ctype((op[1], op[2])))
        else:
            out.append("get_objc(%s %s *)" % (op[1], op[2]))
    return "\n".join(out)


def run_history(unit, plan, mode, ops):
    """one declaration table and one manager, created empty; the ops of cdecl.history_plan in order.
    -> (manager, None) | (None, (bucket, detail))"""
    from miasm.core.ctypesmngr import CTypePtr, CTypeStruct, CTypeUnion
    from miasm.core import objc as O
    mname = "packed" if mode == "p" else "notpacked"
    trees = plan[mode]
    ta, mngr = new_manager(mode)
    asked_incomplete = set()     # tags that were incomplete (only pointed to) while a layout was asked for
    pending = set()
    defined = set()
    all_tags = set(t for it in unit["items"] for t in cdecl.item_defs(it)[1])
    for n, op in enumerate(ops):
        if op[0] == "add":
            text = cdecl.render_items(unit, op[1], op[2])
            try:
                ta.add_c_decl(text)
            except Exception as ex:
                return None, ("history:decl:exception:%s@%s" % (type(ex).__name__, where(ex)),
                              "add_c_decl raised %r after\n%s" % (ex, show_history(unit, ops, n + 1)))
            for it in unit["items"][op[1]:op[2]]:
                defined.update(cdecl.item_defs(it)[1])
                pending.update(t for t in cdecl.item_uses(it)[1] if t in all_tags)
            pending -= defined
            continue
        asked_incomplete |= pending
        if op[0] == "queryptr":
            tid = (CTypeStruct if op[1] == "struct" else CTypeUnion)(op[2])
            try:
                objc = mngr.get_objc(CTypePtr(tid))
            except Exception as ex:
                return None, ("history:layout:%s:exception:%s@%s:ptr-to-incomplete" % (mname, type(ex).__name__, where(ex)),
                              "get_objc raised %r at the end of\n%s" % (ex, show_history(unit, ops, n + 1)))
            size, align = plan["bases"]["void *"]
            if not isinstance(objc, O.ObjCPtr) or (objc.size, objc.align) != (size, align):
                return None, ("history:layout:%s:ptr:ptr-to-incomplete" % mname,
                              "pointer to the incomplete %s %s: %r at the end of\n%s"
                              % (op[1], op[2], objc, show_history(unit, ops, n + 1)))
            continue
        root = (op[1], op[2])
        key = "%s %s" % root
        state = "completed-tag" if by_value_tags(trees[key], set()) & asked_incomplete else "plain"
        try:
            objc = root_objc(mngr, root)
        except Exception as ex:
            return None, ("history:layout:%s:exception:%s@%s:%s" % (mname, type(ex).__name__, where(ex), state),
                          "get_objc raised %r at the end of\n%s" % (ex, show_history(unit, ops, n + 1)))
        r = cmp_layout(trees[key], objc, key)
        if r:
            return None, ("history:layout:%s:%s:%s" % (mname, r[0], state),
                          "%s\nat the end of\n%s" % (r[1], show_history(unit, ops, n + 1)))
    return mngr, asked_incomplete


def incomplete_when_asked(unit, ops):
    """some query of the history is made while a tag used by the declarations so far is still undefined"""
    all_tags = set(t for it in unit["items"] for t in cdecl.item_defs(it)[1])
    pending, defined = set(), set()
    for op in ops:
        if op[0] == "add":
            for it in unit["items"][op[1]:op[2]]:
                defined.update(cdecl.item_defs(it)[1])
                pending.update(t for t in cdecl.item_uses(it)[1] if t in all_tags)
            pending -= defined
        elif pending:
            return True
    return False


def root_objc(mngr, root):
    from miasm.core.ctypesmngr import CTypeStruct, CTypeUnion, CTypeId
    kind, name = root
    if kind == "struct":
        return mngr.get_objc(CTypeStruct(name))
    if kind == "union":
        return mngr.get_objc(CTypeUnion(name))
    return mngr.get_objc(CTypeId(name))


def where(ex):
    tb = traceback.extract_tb(ex.__traceback__)
    for fr in reversed(tb):
        if "/miasm/" in fr.filename:
            return "%s:%s" % (fr.filename.split("/miasm/")[-1], fr.name)
    return "?"


def tkind(T):
    return cdecl.kind_of(T)


def cmp_layout(node, objc, path):
    """post-order comparison; -> None | (what, detail).  `what` names the innermost disagreeing item."""
    from miasm.core import objc as O
    T = node["T"]
    k = T[0]
    if k == "agg":
        cls = O.ObjCStruct if T[1] == "struct" else O.ObjCUnion
        if not isinstance(objc, cls):
            return ("%s:class" % T[1], "%s: expected %s, got %r" % (path, T[1], objc.__class__.__name__))
        mine = [f for f in objc.fields if not f[0].startswith("__PAD__")]
        if len(mine) != len(node["fields"]):
            return ("%s:field-count" % T[1], "%s: %d members, miasm has %d" % (path, len(node["fields"]), len(mine)))
        for (fn, off, sub), (mname, mobjc, moff, msize) in zip(node["fields"], mine):
            if fn is None:
                if moff != off:
                    return ("%s:offset:anonymous-member" % T[1],
                            "%s.<anonymous>: offset %d, gcc %d" % (path, moff, off))
                inner = [f for f in getattr(mobjc, "fields", ()) if not f[0].startswith("__PAD__")]
                if len(inner) != len(sub["anon"]):
                    return ("%s:anonymous-member:field-count" % T[1], path)
                for (iname, ioff, isub), (mn, mo, mf, ms) in zip(sub["anon"], inner):
                    r = cmp_layout(isub, mo, "%s.%s" % (path, iname))
                    if r:
                        return r
                    if mn != iname or mf != ioff:
                        return ("%s:offset:anonymous-member" % T[1],
                                "%s.%s: offset %d in the anonymous member, gcc %d" % (path, iname, mf, ioff))
                continue
            if mname != fn:
                return ("%s:field-name" % T[1], "%s: member %s, miasm has %s" % (path, fn, mname))
            r = cmp_layout(sub, mobjc, "%s.%s" % (path, fn))
            if r:
                return r
            if moff != off:
                return ("%s:offset:%s" % (T[1], tkind(sub["T"])),
                        "%s.%s: offset %d, gcc %d" % (path, fn, moff, off))
            if msize != sub["size"]:
                return ("%s:field-size:%s" % (T[1], tkind(sub["T"])),
                        "%s.%s: field size %d, gcc %d" % (path, fn, msize, sub["size"]))
    elif k == "arr":
        if not isinstance(objc, O.ObjCArray):
            return ("array:class", "%s: expected array, got %r" % (path, objc.__class__.__name__))
        r = cmp_layout(node["elem"], objc.objtype, path + "[]")
        if r:
            return r
        if objc.elems != node["n"]:
            return ("array:elems", "%s: %d elements, C says %d (dimension %s)" % (path, objc.elems, node["n"], T[2]))
    elif k == "ptr":
        if not isinstance(objc, O.ObjCPtr):
            return ("ptr:class", "%s: expected pointer, got %r" % (path, objc.__class__.__name__))
    else:
        if not isinstance(objc, O.ObjCDecl):
            return ("scalar:class", "%s: expected scalar, got %r" % (path, objc.__class__.__name__))
    kk = tkind(T)
    if objc.size != node["size"]:
        return ("%s:size" % kk, "%s (%s): size %d, gcc %d" % (path, kk, objc.size, node["size"]))
    if objc.align != node["align"]:
        return ("%s:align" % kk, "%s (%s): alignment %d, gcc %d" % (path, kk, objc.align, node["align"]))
    return None


def type_matches(lay, T, objc, depth=0):
    """does the miasm type objc denote the C type T (names of aggregates, shapes, leaf classes)"""
    from miasm.core import objc as O
    R = lay.env.resolve(T) if T[0] in ("td", "ref") and (T[0] == "td" or (T[1], T[2]) in lay.env.tags) else T
    k = R[0]
    if k == "base":
        return isinstance(objc, O.ObjCDecl) and objc.name == cdecl.base_class(R[1])
    if k in ("enum", "eref"):
        return isinstance(objc, O.ObjCDecl) and objc.size == 4
    if k == "void":
        return isinstance(objc, O.ObjCDecl) and objc.name == "void"
    if k == "func":
        return isinstance(objc, O.ObjCFunc)
    if k == "ptr":
        if not isinstance(objc, O.ObjCPtr):
            return False
        if depth >= 3:
            return True
        return type_matches(lay, R[1], objc.objtype, depth + 1)
    if k == "arr":
        if not isinstance(objc, O.ObjCArray) or objc.elems != R[3]:
            return False
        return type_matches(lay, R[1], objc.objtype, depth + 1)
    if k in ("agg", "ref"):
        cls = O.ObjCStruct if R[1] == "struct" else O.ObjCUnion
        if not isinstance(objc, cls):
            return False
        if R[2] is not None:
            return objc.name == R[2]
        return True
    return False


def val_type_matches(lay, v, objc):
    from miasm.core import objc as O
    if v.kind == "lv":
        return type_matches(lay, v.node["T"], objc)
    if isinstance(objc, O.ObjCPtr):
        if type_matches(lay, v.node["T"], objc.objtype):
            return True
        # &array given as a pointer to the first element
        T = v.node["T"]
        return T[0] == "arr" and type_matches(lay, T[1], objc.objtype)
    return False


def pointee_node(lay, v):
    """layout node of what the denoted address points to (None: void/function)"""
    T = v.node["T"]
    if v.kind == "lv" and T[0] == "ptr":
        try:
            n = lay.node_for(T[1])
        except cdecl.EvalError:
            return None
        return n if n["size"] is not None else None
    return v.node


def nf(expr):
    """normal form (base, offset) of a native address expression built from `ptr`, constants, + , * and 64-bit loads;
    None if it is anything else"""
    from miasm.expression.expression import ExprInt, ExprId, ExprOp, ExprMem
    if isinstance(expr, ExprId):
        return ("ptr", 0) if expr.name == "ptr" else None
    if isinstance(expr, ExprMem):
        inner = nf(expr.ptr)
        if inner is None or expr.size != 64:
            return None
        return (("load", inner), 0)
    if isinstance(expr, ExprOp) and expr.op == "+":
        base = None
        off = 0
        for a in expr.args:
            c = const(a)
            if c is not None:
                off += c
                continue
            r = nf(a)
            if r is None or base is not None:
                return None
            base = r
        if base is None:
            return None
        return (base[0], (base[1] + off) & 0xFFFFFFFFFFFFFFFF)
    return None


def const(expr):
    from miasm.expression.expression import ExprInt, ExprOp
    if isinstance(expr, ExprInt):
        return int(expr)
    if isinstance(expr, ExprOp) and expr.op in ("*", "+"):
        vals = [const(a) for a in expr.args]
        if any(v is None for v in vals):
            return None
        out = 1 if expr.op == "*" else 0
        for v in vals:
            out = out * v if expr.op == "*" else out + v
        return out
    return None


def judge_access(lay, handler, rootnode, text, stats=None):
    """-> None | "ambiguous" | (stage:kind, detail)"""
    from miasm.expression.expression import ExprMem
    from miasm.expression.simplifications import expr_simp
    trace = []
    v = cdecl.eval_text(lay, text, rootnode, trace)
    den = cdecl.denote(v)
    form, loc = den[0], den[1]
    try:
        e, t = handler.c_to_expr_and_type(text)
    except Exception as ex:
        return ("c_to_expr:exception:%s@%s" % (type(ex).__name__, where(ex)), "c_to_expr(%s) raised %r" % (text, ex))
    if e is None or t is None:
        return ("c_to_expr:none", "c_to_expr(%s) gives %r, %r" % (text, e, t))
    if not val_type_matches(lay, v, t):
        return ("c_to_type", "c_to_type(%s) = %s, C type is %s" % (text, t, describe(v)))
    # native expression under the documented representation (ExprCToExpr docstring cases 1-4): scalars and pointers
    # are the memory at their location, aggregates and arrays are their address.  Not judged when the access goes
    # through a pointer to array (the tree's own tests pin `*p` = @64[p] there).
    if any(f.endswith("@ptr(array)") and not f.startswith("addr@") for f in trace):
        if stats is not None:
            stats["accesses through a pointer to array (native expression not judged)"] += 1
    else:
        if v.kind == "lv" and v.node["T"][0] in ("base", "enum", "eref", "ptr"):
            ok = isinstance(e, ExprMem) and e.size == 8 * v.node["size"] and nf(e.ptr) == v.loc
        else:
            ok = nf(e) == v.loc
            if not ok and v.kind == "lv" and isinstance(e, ExprMem) and nf(e.ptr) == v.loc and \
                    e.size == 8 * v.node["size"] and trace[-1].split("@")[0] in ("deref", "index"):
                ok = True   # *p / p[k]: the whole aggregate given as the memory holding it
        if not ok:
            return ("c_to_expr:location", "c_to_expr(%s) = %s, C semantics: %s" % (text, e, show_den(den)))
    try:
        es = expr_simp(e)
        back = handler.expr_to_c_and_types(es)
    except Exception as ex:
        lead = "+leading-array-element" if (v.leading_array_element() and type(ex) is RuntimeError) else ""
        return ("expr_to_c:exception:%s@%s" % (type(ex).__name__, where(ex)),
                "%s -> %s -> expr_to_c raised %r" % (text, e, ex), lead)
    lead = "+leading-array-element" if v.leading_array_element() else ""
    if not back:
        return ("expr_to_c:empty", "%s -> %s -> no access" % (text, es), lead)
    found = False
    enclosing = False
    vt = cdecl.value_type(lay, v)
    for c2, t2 in sorted(back, key=lambda x: x[0]):
        try:
            v2 = cdecl.eval_text(lay, c2, rootnode)
        except cdecl.SkipAccess:
            if stats is not None:
                stats["returned accesses through an anonymous member, padding or function designator (not judged)"] += 1
            continue
        except cdecl.EvalError as ex:
            tr2 = []
            try:
                cdecl.eval_text(lay, c2, rootnode, tr2)
            except (cdecl.EvalError, cdecl.SkipAccess):
                pass
            return ("roundtrip:invalid-access", "%s -> %s -> %s which is not a valid access (%s)" % (text, es, c2, ex),
                    main_feature(tr2))
        den2 = cdecl.denote(v2)
        dens2 = [den2]
        if v2.kind == "lv" and v2.node["T"][0] in ("agg", "arr"):
            # an aggregate-typed access also stands for the bytes of the object (@N[L] of the aggregate's size)
            dens2.append(("val", v2.loc, v2.node["size"]))
        if den not in dens2:
            tr2 = []
            cdecl.eval_text(lay, c2, rootnode, tr2)
            return ("roundtrip:location", "%s (%s) -> %s -> %s (%s)"
                    % (text, show_den(den), es, c2, show_den(den2)), main_feature(tr2))
        if not val_type_matches(lay, v2, t2):
            return ("expr_to_c:type", "%s -> %s -> %s with type %s, C type is %s" % (text, es, c2, t2, describe(v2)))
        if cdecl.type_equal(lay, cdecl.value_type(lay, v2), vt):
            found = True
        elif vt[0] == "ptr" and not (v.kind == "lv" and v.node["T"][0] == "ptr"):
            # the address of a leading member may come back as the enclosing object it is the start of (does not
            # apply to the content of a pointer member)
            pn2 = pointee_node(lay, v2)
            if pn2 is not None and any(cdecl.type_equal(lay, n["T"], pn2["T"]) for n in v.enclosing_nodes()):
                enclosing = True
    if not found and not enclosing:
        return ("roundtrip:type", "%s : %s -> %s -> %s" % (text, describe(v), es,
                                                          sorted((c, str(t)) for c, t in back)), lead)
    return "ambiguous" if not found else None


def describe(v):
    T = v.node["T"]
    s = cdecl.render_decl(T if T[0] != "agg" or T[2] is None else ["ref", T[1], T[2]], "", False, "")
    if len(s) > 60:
        s = s[:57] + "..."
    return ("pointer to " if v.kind == "rv" else "") + s


def main_feature(trace):
    """outermost operation, or the first operation applied to a pointer to array if there is one"""
    for f in trace:
        if f.endswith("@ptr(array)") and not f.startswith("addr@"):
            return f
    return trace[-1] if trace else "id"


def show_den(den):
    if den[0] == "val":
        return "the %d bytes at %s" % (den[2], show_loc(den[1]))
    return "the address %s" % show_loc(den[1])


def show_loc(loc):
    base, off = loc
    b = "ptr" if base == "ptr" else "@64[%s]" % show_loc(base[1])
    return "%s+%d" % (b, off) if off else b


def make_handler(mngr, root):
    from miasm.core.ctypesmngr import CTypePtr, CTypeStruct, CTypeUnion, CTypeId
    from miasm.core.objc import CHandler
    from miasm.expression.expression import ExprId
    kind, name = root
    tid = CTypeStruct(name) if kind == "struct" else CTypeUnion(name) if kind == "union" else CTypeId(name)
    pt = mngr.get_objc(CTypePtr(tid))
    ptr = ExprId("ptr", 64)
    return CHandler(mngr, expr_types={ptr: set([pt])}, C_types={"ptr": pt})


def attribute_access(lay, handler, rootnode, text, verdict):
    """bucket by the shortest sub-access that fails at all (root cause: its outermost operation)"""
    best = (text, verdict)
    for sub in cdecl.prefixes(text):
        try:
            r = judge_access(lay, handler, rootnode, sub)
        except (cdecl.EvalError, cdecl.SkipAccess):
            continue
        if r and r != "ambiguous":
            best = (sub, r)
            break
    sub, r = best
    trace = []
    cdecl.eval_text(lay, sub, rootnode, trace)
    feat = trace[-1] if trace else "id"
    if len(r) > 2:
        feat += r[2] if r[2].startswith("+") or not r[2] else "->" + r[2]
    return "access:%s:%s" % (r[0], feat), r[1], sub


# ----------------------------------------------------------------------------------------------


def has_padding(node):
    if "fields" in node:
        end = 0
        for fn, off, sub in node["fields"]:
            if node["T"][1] == "struct" and off > end:
                return True
            if fn is not None and has_padding(sub):
                return True
            if fn is not None:
                end = off + sub["size"]
        if node["T"][1] == "struct" and node["size"] > end:
            return True
        if node["T"][1] == "union" and any(f[0] is not None and f[2]["size"] < node["size"] for f in node["fields"]) \
                and node["size"] > max([f[2]["size"] for f in node["fields"] if f[0] is not None] + [0]):
            return True
        return False
    if "elem" in node:
        return has_padding(node["elem"])
    return False


def nested(node, lvl=0):
    if "fields" in node:
        if lvl >= 1:
            return True
        return any(f[0] is not None and nested(f[2], lvl + 1) for f in node["fields"])
    if "elem" in node:
        return nested(node["elem"], lvl)
    return False


def judge_unit(unit, plan, mode, paths=None, rnd=None, npaths=0, stats=None, on_access=None, history=None):
    """-> list of (bucket, detail, extra-case-fields).  paths: explicit access texts [(rootkey, text)] (replay);
    otherwise npaths random ones per root are drawn from rnd when the layout agrees.
    history None: the whole unit is declared at once, then a manager is made.  Otherwise (ops of cdecl.history_plan)
    the manager is the one that went through that history; the layout of every root is then asked for as its end."""
    out = []
    text = cdecl.render_unit(unit)
    mname = "packed" if mode == "p" else "notpacked"
    lay = cdecl.Layout(unit, plan[mode], plan["bases"])
    pfx, sfx, asked_incomplete = "", "", set()
    if history is None:
        try:
            mngr = manager(text, mode)
        except Exception as ex:
            return [("decl:exception:%s@%s" % (type(ex).__name__, where(ex)), "add_c_decl raised %r on\n%s" % (ex, text), {})]
    else:
        mngr, r = run_history(unit, plan, mode, history)
        if mngr is None:
            if stats is not None:
                stats["access skipped: layout disagrees"] += 1
            return [(r[0], r[1], {})]
        pfx, asked_incomplete = "history:", r
        text = "at the end of\n%s\n" % show_history(unit, history)
    layout_ok = True
    for root in lay.env.roots:
        key = "%s %s" % root
        if history is not None:
            sfx = ":completed-tag" if by_value_tags(lay.trees[key], set()) & asked_incomplete else ":plain"
        try:
            objc = root_objc(mngr, root)
        except Exception as ex:
            out.append(("%slayout:%s:exception:%s@%s%s" % (pfx, mname, type(ex).__name__, where(ex), sfx),
                        "get_objc(%s) raised %r %s%s" % (key, ex, "" if history is not None else "on\n", text), {}))
            layout_ok = False
            break
        r = cmp_layout(lay.trees[key], objc, key)
        if r:
            out.append(("%slayout:%s:%s%s" % (pfx, mname, r[0], sfx), "%s\n%s" % (r[1], text), {}))
            layout_ok = False
            break
    if not layout_ok:
        if stats is not None:
            stats["access skipped: layout disagrees"] += 1
        return out
    todo = []
    if paths is not None:
        todo = [(k, t) for k, t in paths]
    elif npaths:
        for root in lay.env.roots:
            key = "%s %s" % root
            rootnode = lay.trees[key]
            if rootnode["T"][0] != "agg":
                continue
            for _ in range(npaths):
                t, feats = cdecl.gen_path(lay, rootnode, rnd)
                todo.append((key, t))
                if stats is not None:
                    for f in feats:
                        stats["step:" + f] += 1
    handlers = {}
    for key, t in todo:
        kind, name = key.split(" ", 1)
        if key not in handlers:
            try:
                handlers[key] = make_handler(mngr, (kind, name))
            except Exception as ex:
                out.append(("access:handler:exception:%s@%s" % (type(ex).__name__, where(ex)),
                            "CHandler for %s raised %r on\n%s" % (key, ex, text), {}))
                handlers[key] = None
        h = handlers[key]
        if h is None:
            continue
        rootnode = lay.trees[key]
        try:
            r = judge_access(lay, h, rootnode, t, stats)
        except cdecl.SkipAccess:
            continue
        if on_access is not None:
            on_access(key, t)
        if stats is not None:
            stats["accesses"] += 1
            if r == "ambiguous":
                stats["accesses: address of a leading member (type not recoverable)"] += 1
        if r and r != "ambiguous":
            bucket, detail, sub = attribute_access(lay, h, rootnode, t, r)
            out.append((bucket + ":" + mname, "%s\n%s" % (detail, text), {"paths": [[key, sub]]}))
    return out


class C35(Check):
    pid = "C35"
    rule = ("random units of 1-4 declarations (struct/union/typedef/enum; members of every arithmetic type the x86-64 leaf "
            "table knows in several spellings, pointers incl. self/earlier tags and tags only defined by a later "
            "declaration of the unit, pointer to array, function pointers, "
            "arrays with decimal/hex/octal/expression/sizeof dimensions, nested and anonymous aggregates up to depth 3, "
            "typedef'd members), each judged with CTypesManagerNotPacked and CTypesManagerPacked against gcc "
            "(sizeof/_Alignof/offsetof of every node); then random access paths of <=6 steps (->, ., [k], *, final &) "
            "from a pointer to each aggregate root: c_to_expr, expr_simp, expr_to_c, judged by an independent C access "
            "evaluator over the gcc layout. Histories: each unit is also fed to one empty CAstTypes + one manager (made "
            "before any declaration) in consecutive chunks of declarations (random cuts; never between a typedef and a "
            "use of its name), with layout queries in between (random subset and order of the roots complete so far, "
            "and of pointers to tags so far only pointed to), each compared with gcc; at the end every root and random "
            "accesses through that manager are judged as above. Non-trivial: a unit with a nested aggregate and "
            "padding (distinct by text and mode), an access of >=2 steps (distinct by unit, mode and access), or a "
            "history of >=2 chunks with a query in between (distinct by unit, mode and history).")
    assumptions = ["gcc on the host implements the x86-64 System V layout; packed = __attribute__((packed)) on every "
                   "struct and union",
                   "bit-fields, flexible/zero-length arrays, empty aggregates, _Bool/__int128/complex, bare `signed`, "
                   "alignment attributes and integer-suffixed dimensions are outside the manager's supported input",
                   "aggregate values are represented by their address (ExprCToExpr docstring), so an access denoting an "
                   "aggregate and the address of that aggregate are the same access",
                   "an address-valued access that coincides with the start of an enclosing aggregate may come back as that "
                   "aggregate (the expression cannot tell them apart)",
                   "a pointer to struct/union is taken to point to one object: it is only indexed with 0 (ExprToAccessC "
                   "refuses offsets beyond the pointed object by design)",
                   "returned accesses that go through miasm's internal member names (anonymous members, padding), a "
                   "function designator or a dereferenced or indexed void pointer are not judged",
                   "the native expression of an access through a pointer to array is not compared with C semantics (the "
                   "tree's own test pins `*p` = @64[p]); its round trip is",
                   "a manager reads its CAstTypes at every get_objc: declarations may be added to the table after the "
                   "manager was made and between queries (several add_c_decl on one table: test/expr_type/"
                   "test_chandler.py; types_mngr.types_ast.ast_parse_declaration alternating with get_objc on a live "
                   "manager: example/ida/ctype_propagation.py), and the layout of a complete type does not depend on "
                   "what was declared or asked before; only complete types are asked for by value",
                   "a typedef name is a type name for add_c_decl only inside the text that declares it (the parser "
                   "scope is reset per call): a history never separates a typedef from the uses of its name"]
    level_text = ("randomized differential testing of both layout managers against the host compiler (declared at once, "
                  "and through histories of declarations interleaved with layout queries on one manager), and of the "
                  "C-access/expression round trip against an independent evaluator of C accesses")
    technique = "property-based differential testing (random declaration generator, gcc layout oracle)"

    def nshards(self, tier):
        return 32 if tier == "thorough" else 8

    def run_shard(self, tier, seed, shard, nshards):
        res = ShardResult()
        nbatch = 6 if tier == "thorough" else 1
        # accesses per aggregate root: through the manager made after declaring everything / through the manager
        # that went through the history
        npaths = 5 if tier == "thorough" else 3
        hpaths = 1
        scratch = tempfile.mkdtemp(prefix="c35-", dir="/var/tmp")
        try:
            for b in range(nbatch):
                units = []
                for i in range(BATCH):
                    rnd = random.Random(derive_seed(seed, "unit", b, i))
                    g = cdecl.Gen(rnd, "%d" % i, max_depth=3, features=FEATURES)
                    units.append(g.unit())
                plans = cdecl.oracle(units, scratch)
                for i, (unit, plan) in enumerate(zip(units, plans)):
                    rnd = random.Random(derive_seed(seed, "paths", b, i))
                    utext = cdecl.render_unit(unit)
                    for mode in ("np", "p"):
                        def on_access(key, t, mode=mode):
                            deep = t.count("->") + t.count(".") + t.count("[") + t.count("*") >= 2
                            res.case(nontrivial_key=(utext, mode, key, t) if deep else None)
                        fails = judge_unit(unit, plan, mode, rnd=rnd, npaths=npaths, stats=res.counters,
                                           on_access=on_access)
                        if not any(f[0].startswith(("decl:", "layout:")) for f in fails):
                            # same unit through a history on one table + one manager (a layout that already
                            # disagrees when everything is declared at once is not reported twice)
                            hist = cdecl.history_plan(unit, random.Random(derive_seed(seed, "history", b, i, mode)))
                            hfails = judge_unit(unit, plan, mode, rnd=rnd, npaths=hpaths, stats=res.counters,
                                                on_access=on_access, history=hist)
                            nadd = sum(1 for op in hist if op[0] == "add")
                            nq = sum(1 for op in hist if op[0] != "add")
                            res.case(nontrivial_key=(utext, mode, repr(hist)) if nadd > 1 and nq else None)
                            res.counters["histories:" + mode] += 1
                            res.counters["histories: chunks"] += nadd
                            res.counters["histories: intermediate layout queries"] += \
                                sum(1 for op in hist if op[0] == "query")
                            res.counters["histories: intermediate queries of a pointer to an incomplete tag"] += \
                                sum(1 for op in hist if op[0] == "queryptr")
                            if nadd > 1 and nq:
                                res.counters["histories with >=2 chunks and a query in between:" + mode] += 1
                            if any(op[0] == "queryptr" for op in hist) or incomplete_when_asked(unit, hist):
                                res.counters["histories where a layout is asked while a pointed-to tag is incomplete:"
                                             + mode] += 1
                            for bucket, detail, extra in hfails:
                                extra = dict(extra)
                                extra["history"] = hist
                                fails.append((bucket, detail, extra))
                        trees = plan[mode]
                        nt = any(nested(t) and has_padding(t) for t in trees.values())
                        res.case(nontrivial_key=(cdecl.render_unit(unit), mode) if nt else None,
                                 sample={"decl": cdecl.render_unit(unit), "mode": mode}
                                 if nt and i % 13 == 0 else None)
                        res.counters["units:" + mode] += 1
                        if nt:
                            res.counters["units with nested aggregate and padding:" + mode] += 1
                        for bucket, detail, extra in fails:
                            case = {"unit": unit, "mode": mode}
                            case.update(extra)
                            res.fail(bucket, detail, case)
        finally:
            shutil.rmtree(scratch, ignore_errors=True)
        return res

    def _judge_case(self, case):
        scratch = tempfile.mkdtemp(prefix="c35-", dir="/var/tmp")
        try:
            plan = cdecl.oracle([case["unit"]], scratch)[0]
        finally:
            shutil.rmtree(scratch, ignore_errors=True)
        return judge_unit(case["unit"], plan, case["mode"], paths=case.get("paths") or [],
                          history=case.get("history"))

    def replay(self, case):
        fails = self._judge_case(case)
        if not fails:
            return None
        want = case.get("_bucket")
        for b, d, extra in fails:
            if want is None or b == want:
                return Failure(b, d, case)
        b, d, extra = fails[0]
        return Failure(b, d, case)

    def shrink(self, failure, tier):
        """greedy: drop top-level items, (history cases: drop queries, merge chunks,) drop members, flatten member
        types to int; keep the bucket"""
        import copy
        budget = [40 if tier == "quick" else 150]
        bucket = failure.bucket
        best = [failure]

        def aggs(T, out):
            if T[0] == "agg":
                out.append(T)
                for _, ft in T[3]:
                    aggs(ft, out)
            elif T[0] in ("ptr", "arr"):
                aggs(T[1], out)

        def item_drops(unit):
            items = unit["items"]
            for i in range(len(items) - 1, -1, -1):
                if len(items) > 1:
                    u = copy.deepcopy(unit)
                    del u["items"][i]
                    yield u

        def member_edits(unit):
            items = unit["items"]
            n_aggs = []
            for it in items:
                aggs(it[1] if it[0] == "def" else it[2] if it[0] == "typedef" else ["void"], n_aggs)
            for ai in range(len(n_aggs)):
                for fi in range(len(n_aggs[ai][3]) - 1, -1, -1):
                    for mode in ("drop", "int"):
                        u = copy.deepcopy(unit)
                        lst = []
                        for it in u["items"]:
                            aggs(it[1] if it[0] == "def" else it[2] if it[0] == "typedef" else ["void"], lst)
                        fields = lst[ai][3]
                        if mode == "drop":
                            if len(fields) <= 1:
                                continue
                            del fields[fi]
                        else:
                            if fields[fi][1] == ["base", "int"] or fields[fi][0] is None:
                                continue
                            fields[fi][1] = ["base", "int"]
                        yield u

        def try_case(case):
            if budget[0] <= 0:
                return None
            budget[0] -= 1
            try:
                fails = self._judge_case(case)
            except Exception:
                return None     # candidate is not a valid unit (dangling tag, gcc error): skip
            for b, d, extra in fails:
                if b == bucket:
                    c = dict(case)
                    c.update(extra)
                    return Failure(b, d, c)
            return None

        def with_unit(cur, u):
            c = dict(cur)
            c["unit"] = u
            if cur.get("history") is not None:
                # item indices changed: the canonical history (every cut, every query) of the smaller unit
                c["history"] = cdecl.history_plan(u)
            return c

        def case_candidates(cur):
            hist = cur.get("history")
            for u in item_drops(cur["unit"]):
                yield with_unit(cur, u)
            if hist is not None:
                # drop one query; merge two neighbouring chunks
                for k in range(len(hist) - 1, -1, -1):
                    c = dict(cur)
                    if hist[k][0] != "add":
                        c["history"] = hist[:k] + hist[k + 1:]
                        yield c
                    elif k + 1 < len(hist) and hist[k + 1][0] == "add":
                        c["history"] = hist[:k] + [["add", hist[k][1], hist[k + 1][2]]] + hist[k + 2:]
                        yield c
            for u in member_edits(cur["unit"]):
                yield with_unit(cur, u)

        progress = True
        while progress and budget[0] > 0:
            progress = False
            cur = best[0].case
            for case in case_candidates(cur):
                r = try_case(case)
                if r is not None:
                    best[0] = r
                    progress = True
                    break
                if budget[0] <= 0:
                    break
        return best[0]


CHECK = C35()
