"""C19 -- ARM, Thumb, AArch64, MIPS32 and PowerPC semantics match a reference.

No CPU emulator exists in the sandbox; the reference is built from two independent sources:
 (cc) compiled-C differential: vlib.ccorpus functions compiled by clang for each target (-O0/-O1/-O2/-Os), executed
      by miasm's Python jitter; expected return value and array contents from the same C text compiled by the host
      gcc (and, as a guard against C-level ambiguity, the host clang: both must agree) and run natively.
 (im) instruction models: vlib.isamodels (written from the architecture manuals), instructions assembled by llvm-mc,
      executed one at a time (an IT block at a time for Thumb) by the Python jitter from a generated register / flag
      state; every register and flag is compared with the model's prediction.
"""
import collections
import contextlib
import io
import itertools
import os
import random
import re
import shutil
import tempfile

from vlib.runner import Check, ShardResult, Failure, derive_seed

ARCHS = ["arml", "armtl", "aarch64l", "mips32l", "mips32b", "ppc32b"]
CODE = 0x400000
CODE_SIZE = 0x80000

_st = {}


class quiet_stderr(object):
    """miasm's VM / disassembler print WARNING lines on stderr: keep the run quiet"""

    def __enter__(self):
        self.saved = os.dup(2)
        devnull = os.open(os.devnull, os.O_WRONLY)
        os.dup2(devnull, 2)
        os.close(devnull)

    def __exit__(self, *exc):
        os.dup2(self.saved, 2)
        os.close(self.saved)
        return False


def scratch_root():
    d = os.environ.get("TMPDIR")
    if not d or d.startswith("/tmp"):
        d = "/var/tmp"
    return d


def where_in_miasm(ex):
    import traceback
    for fr in reversed(traceback.extract_tb(ex.__traceback__)):
        if "/miasm/" in fr.filename:
            return "%s:%s" % (fr.filename.split("/miasm/")[-1], fr.name)
    return "?"


EXC_UNK_MNEMO = 1 << 19

# =============================================================================================
# (im) instruction-model stratum

GARB32 = [0x01234567, 0x89abcdef, 0xfedcba98, 0x76543210, 0xdeadbeef, 0xcafef00d, 0x11112222, 0x99998888,
          0xa5a5a5a5, 0x0f0f0f0f, 0xffff0000, 0x0000ffff, 0x80808080, 0x7f7f7f7f, 0xc3c3c33c, 0x13579bdf]


def garbage(name, bits):
    h = 0
    for ch in name:
        h = (h * 131 + ord(ch)) & 0xffffffff
    v = GARB32[h % 16] ^ (h * 0x9E3779B1 & 0xffffffff)
    if bits == 64:
        v = (v << 32 | (v * 0x85EBCA6B & 0xffffffff)) ^ 0x5555000000005555
    return v & ((1 << bits) - 1)


class ImEmu(object):
    """One python jitter per architecture; each distinct instruction is placed once in the code page."""
    SKIP = {"arml": {"PC"}, "armtl": {"PC"}, "aarch64l": {"PC"}, "mips32l": {"PC", "PC_FETCH"},
            "mips32b": {"PC", "PC_FETCH"}, "ppc32b": {"PC"}}

    def __init__(self, arch):
        from miasm.analysis.machine import Machine
        from miasm.core.locationdb import LocationDB
        self.arch = arch
        self.j = Machine(arch).jitter(LocationDB(), "python")
        self.j.vm.add_memory_page(CODE, 3, b"\x00" * CODE_SIZE, "code")
        self.next = CODE
        self.placed = {}
        self.names = sorted(self.j.cpu.get_gpreg().keys())
        self.skip = self.SKIP[arch]
        # registers that take part in the comparison; PowerPC: integer state only (the rest must stay untouched too,
        # but 250 special registers per case would dominate the cost: they are compared on a sample)
        if arch == "ppc32b":
            keep = re.compile(r"R\d+|CR\d_(LT|GT|EQ|SO)|XER_(CA|OV|SO|BC)|LR|CTR")
            self.cmp_names = [n for n in self.names if keep.fullmatch(n)]
        else:
            self.cmp_names = [n for n in self.names if n not in self.skip]
        bits = 64 if arch == "aarch64l" else 32
        self.base = {}
        for n in self.cmp_names:
            if re.fullmatch(r"[nzco]f|ge\d|CR\d_(LT|GT|EQ|SO)|XER_(CA|OV|SO)", n):
                self.base[n] = 0
            elif n == "ZERO":
                self.base[n] = 0
            elif n == "XER_BC":
                self.base[n] = 0x5a & 0x7f
            else:
                self.base[n] = garbage(n, bits)

    def place(self, code, nlines):
        a = self.placed.get(code)
        if a is None:
            a = self.next
            self.next += (len(code) + 8 + 15) & ~15
            if self.next >= CODE + CODE_SIZE:
                raise RuntimeError("code area exhausted")
            self.j.vm.set_mem(a, code)
            self.placed[code] = a
        return a

    def run(self, code, nlines, state):
        """state: dict resource -> value for every compared resource -> (final dict, pc, exc, steps)"""
        j = self.j
        cpu = j.cpu
        addr = self.place(code, nlines)
        if self.arch == "aarch64l":
            # JitCore_aarch64.set_gpreg rejects the 8-bit flag registers ("Unsupported size"): plain attribute writes
            for k, v in state.items():
                setattr(cpu, k, v)
        else:
            cpu.set_gpreg(state)
        cpu.set_exception(0)
        j.vm.set_exception(0)
        j.jit.options["jit_maxline"] = nlines
        j.jit.options["max_exec_per_call"] = 1
        end = addr + len(code)
        pc = addr
        steps = 0
        while True:
            pc = j.jit.run_at(cpu, pc, set())
            steps += 1
            exc = cpu.get_exception() | j.vm.get_exception()
            if exc or pc == end or not (addr <= pc < end) or steps > 8:
                break
        regs = cpu.get_gpreg()
        cpu.set_exception(0)
        j.vm.set_exception(0)
        return regs, pc, exc, end


def get_emu(arch):
    k = ("emu", arch)
    if k not in _st:
        _st[k] = ImEmu(arch)
    return _st[k]


def im_tables(tier):
    k = "im:" + tier
    if k not in _st:
        from vlib import isamodels as I
        lst = I.all_templates(tier == "thorough")
        _st[k] = lst
        _st[k + ":idx"] = {t.key: t for t in lst}
    return _st[k]


def find_tpl(key):
    for tier in ("quick", "thorough"):
        im_tables(tier)
        t = _st["im:%s:idx" % tier].get(key)
        if t is not None:
            return t
    return None


def im_assemble(tpls):
    from vlib import isamodels as I
    by = collections.OrderedDict()
    for t in tpls:
        if t.code is None:
            by.setdefault(t.arch, []).append(t)
    for arch, ts in by.items():
        encs = I.assemble(arch, [t.text for t in ts])
        for t, e in zip(ts, encs):
            t.code = e if e is not None else b""


def im_det_cases(tpl, tier):
    """deterministic stratum: product of the slot boundary values x flag sets, capped by index striding"""
    from vlib import isamodels as I
    depth = 0
    lists = [I.values(vc, depth) for _r, vc in tpl.slots]
    lists.append(list(range(len(I.flagsets(tpl.arch, tpl.flagsets)))))
    total = 1
    for l in lists:
        total *= len(l)
    cap = tpl.cap or (64 if tier == "quick" else 400)
    if tier == "thorough":
        cap = max(cap * 4, 200)
    else:
        cap = max(8, int(cap * 0.6))        # quick-tier budget: ~95 000 cases in all
    if os.environ.get("C19_DEVCAP"):
        cap = min(cap, int(os.environ["C19_DEVCAP"]))
    if total <= cap:
        for combo in itertools.product(*lists):
            yield list(combo[:-1]), combo[-1]
        return
    step = total / float(cap)
    seen = set()
    for k in range(cap):
        idx = (int(k * step) * 2654435761 + k) % total
        if idx in seen:
            continue
        seen.add(idx)
        combo = []
        for l in lists:
            combo.append(l[idx % len(l)])
            idx //= len(l)
        yield combo[:-1], combo[-1]


def im_state(tpl, vals, fidx, emu):
    from vlib import isamodels as I
    st = dict(emu.base)
    if isinstance(fidx, str):               # "all:<k>": k-th member of the full flag-set table (random stratum)
        fl = I.flagsets(tpl.arch, "all")
        st.update(fl[int(fidx.split(":")[1]) % len(fl)])
    else:
        fl = I.flagsets(tpl.arch, tpl.flagsets)
        st.update(fl[fidx % len(fl)])
    for (r, vc), v in zip(tpl.slots, vals):
        st[r] = v & ((1 << I.vbits(vc)) - 1)
        if tpl.arch == "aarch64l" and vc == "w32":
            # a W-register input: the upper half of the X register holds garbage that must be ignored
            st[r] |= 0xfeedface00000000
    return st


def im_bucket(tpl, resource):
    return "%s|im|%s%s|%s" % (tpl.arch, tpl.mn, (":" + tpl.form) if tpl.form else "", resource)


def res_class(name):
    """resource name -> bucket component"""
    if re.fullmatch(r"[nzco]f", name):
        return "flag:" + name
    if re.fullmatch(r"CR\d_(LT|GT|EQ|SO)", name):
        return "cr:" + name.split("_")[1]
    if name.startswith("XER_"):
        return "xer:" + name[4:]
    if name in ("R_HI", "R_LO"):
        return name
    return "reg"


def im_judge(tpl, vals, fidx):
    """-> (fails [(bucket, detail)], nontrivial, drop reason)"""
    emu = get_emu(tpl.arch)
    st = im_state(tpl, vals, fidx, emu)
    up = tpl.model(st)
    if up is None:
        return [], False, "model: architecturally UNPREDICTABLE/undefined result for these operands"
    undef = set(up.pop("_undef", ()))
    exp = dict(st)
    exp.update(up)
    ins = ", ".join("%s=0x%x" % (r, st[r]) for r, _ in tpl.slots)
    fl = " ".join("%s=%d" % (k, st[k]) for k in sorted(st) if res_class(k) != "reg" and k not in ("R_HI", "R_LO")
                  and not re.match(r"CR[1-7]_|ge\d", k))
    head = "`%s` [%s bytes %s] from %s ; %s" % (tpl.text.replace("\n", " ; "), tpl.arch, tpl.code.hex(), ins, fl)
    try:
        regs, pc, exc, end = emu.run(tpl.code, tpl.nlines, st)
    except NotImplementedError as ex:
        _st.pop(("emu", tpl.arch), None)
        return [], False, "unsupported:" + str(ex)[:60]
    except Exception as ex:
        _st.pop(("emu", tpl.arch), None)      # an exception may leave the jitter's bin_stream / engine in a bad state
        if isinstance(ex, ValueError) and str(ex).startswith("unknown mnemo"):
            return [], False, "unsupported:decoded but no semantics (unknown mnemo)"
        return [(im_bucket(tpl, "emul-error:%s@%s" % (type(ex).__name__, where_in_miasm(ex))),
                 "%s: emulation raised %r" % (head, ex))], True, None
    if exc & EXC_UNK_MNEMO:
        return [], False, "undecodable"
    if exc:
        return [(im_bucket(tpl, "emul-exception"), "%s: emulation stops with exception flags 0x%x" % (head, exc))], True, None
    if pc != end:
        return [(im_bucket(tpl, "pc"), "%s: emulation continues at 0x%x, expected 0x%x" % (head, pc, end))], True, None
    fails = []
    bad = collections.OrderedDict()
    for n in emu.cmp_names:
        if n in undef:
            continue
        if regs[n] != exp[n]:
            bad.setdefault(res_class(n), []).append("%s model=0x%x emulated=0x%x (was 0x%x)" % (n, exp[n], regs[n], st[n]))
    for rc, lst in bad.items():
        fails.append((im_bucket(tpl, rc), "%s: %s" % (head, "; ".join(lst[:6]))))
    return fails, any(exp[n] != st[n] for n in exp), None


# =============================================================================================
# (cc) compiled-C differential stratum

OPTS = ["-O0", "-O1", "-O2", "-Os"]
CC_INPUTS = [
    ([5, 0x80000001, 77], [(i * 0x01010101 + 3) & 0xffffffff for i in range(8)]),
    ([0xffffffff, 0x7fffffff, 0x12345678], [0xfffffff0 + i for i in range(8)]),
    ([0, 0, 0], [0] * 8),
    ([0x80000000, 3, 0xfffffff9], [0x80000000, 0x7fffffff, 0xff, 0x8000, 0xdeadbeef, 1, 0xffff0000, 0x00ff00ff]),
]
STEP_LIMIT = {"quick": 12000, "thorough": 100000}      # executed instructions per run (approximate)
_limit = [30000]


def be_view(src):
    """C text whose byte / half-word views of `arr` behave, on the little-endian host, like the same accesses on a
    big-endian target: byte index ^ 3, half-word index ^ 1 (word accesses are unaffected)."""
    pats = [("((uint8_t *)arr)[", 3), ("((int8_t *)arr)[", 3), ("((uint16_t *)arr)[", 1), ("((int16_t *)arr)[", 1)]
    named = []
    if "uint8_t *p = (uint8_t *)arr" in src:
        named.append(("p[", 3))
    if "uint16_t *h = (uint16_t *)arr" in src:
        named.append(("h[", 1))

    def tr(s):
        best = None
        for pat, k in pats:
            i = s.find(pat)
            if i >= 0 and (best is None or i < best[0]):
                best = (i, pat, k)
        for pat, k in named:
            for m in re.finditer(r"(?<![A-Za-z0-9_])" + re.escape(pat), s):
                if best is None or m.start() < best[0]:
                    best = (m.start(), pat, k)
                break
        if best is None:
            return s
        i, pat, k = best
        j = i + len(pat)
        depth = 1
        e = j
        while depth:
            ch = s[e]
            if ch == "[":
                depth += 1
            elif ch == "]":
                depth -= 1
            e += 1
        inner = tr(s[j:e - 1])
        return s[:i] + pat + "((" + inner + ") ^ %d)]" % k + tr(s[e:])
    return tr(src)


class Native2(object):
    """The C text compiled by the host gcc (-O1) and the host clang (-O0); a result counts only if both agree."""

    def __init__(self, funcs, workdir, tag, big_endian):
        import ctypes
        import subprocess
        from vlib import ccorpus
        if big_endian:
            funcs = [(t, be_view(src)) for t, src in funcs]
        self.libs = []
        src = os.path.join(workdir, "%s_native.c" % tag)
        with open(src, "w") as f:
            f.write(ccorpus.render(funcs, 32))
        for k, cmd in enumerate((["gcc", "-O1", "-fwrapv", "-fno-strict-aliasing"], ["clang", "-O0"])):
            so = os.path.join(workdir, "%s_native%d.so" % (tag, k))
            p = subprocess.run(cmd + ["-w", "-shared", "-fPIC", src, "-o", so], stdout=subprocess.PIPE,
                               stderr=subprocess.STDOUT)
            if p.returncode != 0:
                raise RuntimeError("host compiler failed: " + p.stdout.decode("utf8", "replace")[-1500:])
            self.libs.append(ctypes.CDLL(so))
        self.ct = ctypes.c_uint32
        self.ctypes = ctypes

    def call(self, k, args, arr):
        """-> (ret, arr) or None when the two host compilers disagree"""
        ct = self.ct
        outs = []
        for lib in self.libs:
            fn = getattr(lib, "f%d" % k)
            fn.restype = ct
            fn.argtypes = [ct, ct, ct, self.ctypes.POINTER(ct)]
            buf = (ct * 8)(*arr)
            r = fn(args[0], args[1], args[2], buf)
            outs.append((int(r), [int(x) for x in buf]))
        if outs[0] != outs[1]:
            return None
        return outs[0]


_FORM_NUM = re.compile(r"(?<![A-Za-z_])-?(0x[0-9A-Fa-f]+|\d+)\b")
_FORM_REG = re.compile(r"\b(R\d+|X\d+|W\d+|XZR|WZR|SP|LR|PC|ZERO|AT|V[01]|A[0-3]|T\d|S\d|K[01]|GP|FP|RA|WSP)\b")


def form_of(text):
    """instruction text -> (mnemonic, operand-shape form)"""
    parts = text.split(None, 1)
    mn = parts[0]
    ops = parts[1] if len(parts) > 1 else ""
    ops = _FORM_NUM.sub("i", ops)
    seen = {}

    def reg(m):
        # registers are named by order of first appearance, so that `EXTR a,b,b,i` (a rotate) and `EXTR a,b,c,i`
        # or `ADD a,a,b` and `ADD a,b,c` are different forms
        return seen.setdefault(m.group(0), "abcdefgh"[min(len(seen), 7)])
    ops = _FORM_REG.sub(reg, ops)
    ops = re.sub(r"loc_key_\d+|loc_[0-9a-fA-F]+", "L", ops)
    return mn, mn + " " + "".join(ops.split())


class CcRunner(object):
    """One program (code bytes for one arch) on a fresh python jitter; several input vectors."""

    def __init__(self, arch, code, maxline=None):
        from miasm.analysis.machine import Machine
        from miasm.core.locationdb import LocationDB
        from vlib import jitlab, ccorpus
        self.arch = arch
        self.maxline = maxline
        self.lay = jitlab.layout(arch)
        self.t = ccorpus.TARGETS[arch]
        self.j = Machine(arch).jitter(LocationDB(), "python")
        lay = self.lay
        self.arr_addr = lay["data"] + 0x40
        self.j.vm.add_memory_page(lay["code"], 3, bytes(code), "code")
        self.j.vm.add_memory_page(lay["stack"], 3, b"\0" * lay["stack_size"], "stack")
        self.j.vm.add_memory_page(lay["data"], 3, b"\0" * 0x100, "data")
        self.j.jit.log_mn = True
        if maxline:
            self.j.jit.set_options(jit_maxline=maxline)
        self.base_regs = dict(self.j.cpu.get_gpreg())

        def stop(jj):
            jj.running = False
            return False
        self.j.add_breakpoint(lay["sentinel"], stop)
        self.nblocks = 0
        self.buf = None

        def ecb(jj):
            self.nblocks += 1
            if self.buf is not None and self.buf.tell() > 30 * _limit[0]:
                jj.running = False
                return "runaway"
            return True
        self.j.exec_cb = ecb

    def run(self, args, arr):
        """-> dict(kind='ok'|'unsupported'|'error'|'runaway'|'jitexc', ret, arr, trace [(addr, text)], ...)"""
        from vlib import jitlab, ccorpus
        from miasm.jitter.jitload import JitterException
        j, lay, t = self.j, self.lay, self.t
        regs, stack = jitlab.call_setup(self.arch, lay["code"], list(args) + [self.arr_addr], lay["sentinel"],
                                        lay["stack"], lay["stack_size"])
        for k, v in self.base_regs.items():
            setattr(j.cpu, k, 0)
        for k, v in regs.items():
            if self.arch == "aarch64l" and k in ("X0", "X1", "X2"):
                v |= 0xdead5eed00000000          # the ABI leaves the upper halves of 32-bit arguments unspecified
            setattr(j.cpu, k, v)
        j.vm.set_mem(lay["stack"], stack)
        data = bytearray(0x100)
        data[0x40:0x60] = ccorpus.pack_words(arr, 32, t["be"])
        for i in range(0x60, 0x80):
            data[i] = 0xA5
        for i in range(0x20, 0x40):
            data[i] = 0x5A
        j.vm.set_mem(lay["data"], bytes(data))
        j.vm.set_exception(0)
        j.cpu.set_exception(0)
        self.nblocks = 0
        buf = self.buf = io.StringIO()
        out = {"kind": "ok"}
        with contextlib.redirect_stdout(buf):
            try:
                j.init_run(lay["code"])
                r = j.continue_run()
                if r == "runaway":
                    out["kind"] = "runaway"
            except JitterException as e:
                out["kind"] = "unsupported" if e.exception_flag & EXC_UNK_MNEMO else "jitexc"
                out["flags"] = e.exception_flag
            except NotImplementedError as e:
                out["kind"] = "unsupported"
                out["msg"] = "NotImplementedError:" + str(e)[:80]
            except Exception as e:
                msg = str(e)
                if isinstance(e, ValueError) and msg.startswith("unknown mnemo"):
                    out["kind"] = "unsupported"
                    out["msg"] = "no-semantics:" + " ".join(msg.split()[2:3])
                else:
                    out["kind"] = "error"
                    out["exc"] = type(e).__name__
                    out["where"] = where_in_miasm(e)
                    out["msg"] = msg[:200]
        trace = []
        for ln in buf.getvalue().splitlines():
            m = re.match(r"^([0-9A-F]{8,16}) (.*)$", ln)
            if m:
                trace.append((int(m.group(1), 16), " ".join(m.group(2).split())))
        out["trace"] = trace
        out["pc"] = j.pc
        if out["kind"] == "ok":
            out["ret"] = getattr(j.cpu, jitlab.RET_REG[self.arch]) & 0xffffffff
            out["arr"] = ccorpus.unpack_words(j.vm.get_mem(self.arr_addr, 32), 32, t["be"])
            mem = j.vm.get_mem(lay["data"], 0x100)
            out["guard_ok"] = (mem[0x20:0x40] == b"\x5a" * 0x20 and mem[0x60:0x80] == b"\xa5" * 0x20)
        return out


def cc_compile(arch, opt, funcs, workdir, tag):
    """ccorpus.compile_batch with -fno-strict-aliasing added: the corpus reads and writes the W array through
    uint16_t / int16_t lvalues, which type-based alias analysis may reorder against the word accesses (observed:
    clang -O2 for aarch64 swaps a STR and a STRH to the same address); the host oracle does not."""
    import subprocess
    from vlib import ccorpus, jitlab
    t = ccorpus.TARGETS[arch]
    src = os.path.join(workdir, "%s_%s%s.c" % (tag, arch, opt))
    objp = src[:-2] + ".o"
    with open(src, "w") as f:
        f.write(ccorpus.render(funcs, t["wbits"]))
    cmd = (["clang", "--target=" + t["triple"], opt, "-fno-strict-aliasing"] + ccorpus.COMMON_FLAGS + t["flags"]
           + ["-c", src, "-o", objp])
    p = subprocess.run(cmd, stdout=subprocess.PIPE, stderr=subprocess.STDOUT)
    if p.returncode != 0:
        return [dict(tag=tg, code=None, reason="clang-error") for tg, _ in funcs]
    with open(objp, "rb") as f:
        data = f.read()
    os.unlink(objp)
    res = ccorpus.extract(data, len(funcs), jitlab.layout(arch)["code"])
    return [dict(tag=funcs[k][0], code=res[k][0], reason=res[k][1]) for k in range(len(funcs))]


def cc_unsupported_text(arch, code, pc):
    """llvm's reading of the instruction miasm could not decode / lift (evidence only)"""
    from vlib import isamodels as I
    from vlib import jitlab
    off = pc - jitlab.layout(arch)["code"]
    if not (0 <= off < len(code)):
        return "?"
    try:
        return I.llvm_disasm(arch, code[off:off + 4]).split()[0]
    except Exception:
        return "?"


def cc_judge_run(arch, out, exp):
    """-> (status, resource, detail): status 'pass' | 'fail' | 'unsupported' | 'error'"""
    if out["kind"] == "unsupported":
        return "unsupported", None, out.get("msg", "UNK_MNEMO")
    if out["kind"] == "error":
        op = ""
        m = re.search(r"simplification is missing: .*?([A-Za-z_][A-Za-z0-9_<>=]*)\(", out["msg"])
        if m:
            op = ":" + m.group(1)
        return "error", "emul-error:%s@%s%s" % (out["exc"], out["where"], op), out["msg"]
    if out["kind"] == "runaway":
        return "steplimit", "runaway", "no return within the step limit of %d instructions" % _limit[0]
    if out["kind"] == "jitexc":
        return "fail", "jitter-exception", "JitterException flags 0x%x at pc=0x%x" % (out["flags"], out["pc"])
    eret, earr = exp
    if out["ret"] != eret:
        return "fail", "ret", "return value emulated=0x%x native=0x%x" % (out["ret"], eret)
    if out["arr"] != earr:
        d = [i for i in range(8) if out["arr"][i] != earr[i]]
        return "fail", "arr", "arr[%d] emulated=0x%x native=0x%x (%d words differ)" % (d[0], out["arr"][d[0]], earr[d[0]], len(d))
    if not out["guard_ok"]:
        return "fail", "arr-guard", "bytes around the 8-word array were modified"
    return "pass", None, ""


def cc_plan(tier):
    """-> (units [(arch, opt, part)], deterministic function list, number of parts)"""
    from vlib import ccorpus
    thorough = tier == "thorough"
    parts = 6 if thorough else 2
    ngen = 59 if thorough else 11
    funcs = ccorpus.fixed_functions("arml") + ccorpus.gen_functions(0, ngen, "arml")
    units = [(arch, opt, part) for arch in ARCHS for opt in OPTS for part in range(parts)]
    return units, funcs, parts


class CcCtx(object):
    """compilation / native-library caches of one shard (or one replay)"""

    def __init__(self, wd):
        self.wd = wd
        self.n = 0
        self.natives = {}
        self.compiled = {}
        self.partition = {}     # (arch, opt, function) -> failure disappears without block cuts
        self.passed = {}        # (arch, function) -> instruction forms executed by passing runs

    def compile(self, arch, opt, funcs):
        key = (arch, opt, tuple(t for t, _ in funcs))
        if key not in self.compiled:
            self.n += 1
            out = cc_compile(arch, opt, funcs, self.wd, "c%d" % self.n)
            self.compiled[key] = [r["code"] for r in out]
        return self.compiled[key]

    def native(self, funcs, be):
        key = (be, tuple(t for t, _ in funcs))
        if key not in self.natives:
            self.n += 1
            self.natives[key] = Native2(funcs, self.wd, "n%d" % self.n, be)
        return self.natives[key]


def cc_explain(ctx, case, out, status, resource, detail, batch=None, k=0):
    """-> (bucket, detail text) for a failing run; value mismatches are localised by spectrum: instruction forms of
    the failing trace that no passing run of the same function (4 optimisation levels x fixed inputs) executes are
    the suspects."""
    arch, opt = case["arch"], case["opt"]
    head = "%s %s %s(a=0x%x, b=0x%x, c=0x%x, arr=[%s])" % (arch, opt, case["tag"], case["args"][0], case["args"][1],
                                                          case["args"][2], ",".join("0x%x" % x for x in case["arr"]))
    src = case["src"].replace("{f}", "f")
    trace = out["trace"]
    # batch: the compilation unit the function came from (its other optimisation levels are then compiled once for
    # the whole unit instead of once per failing function); replay has the single function only
    funcs = batch if batch is not None else [(case["tag"], case["src"])]
    from vlib import ccorpus
    nat = ctx.native(funcs, ccorpus.TARGETS[arch]["be"])
    # step 1 (once per program): does the failure depend on how the code is cut into translated blocks (and on state
    # left by earlier runs of the same jitter) rather than on instruction semantics?  Fresh jitter, blocks never cut
    # by jit_maxline.
    pkey = (arch, opt, case["tag"])
    if pkey not in ctx.partition:
        ctx.partition[pkey] = False
        code = ctx.compile(arch, opt, funcs)[k]
        exp = nat.call(k, case["args"], case["arr"])
        if code is not None and exp is not None and not (status == "error" and not trace):
            o2 = CcRunner(arch, code, maxline=100000).run(case["args"], case["arr"])
            ctx.partition[pkey] = cc_judge_run(arch, o2, exp)[0] == "pass"
    if ctx.partition[pkey]:
        bucket = "%s|cc|jitter:block-partition|%s" % (arch, resource.split(":")[0])
        return bucket, ("%s: %s; %d instructions executed; the same bytes give the native result on a fresh jitter "
                        "with jit_maxline=100000 (no block cut): the failure depends on block partitioning / state "
                        "kept between runs, not on an instruction's semantics -- C: %s"
                        % (head, detail, len(trace), src))
    if status == "steplimit":
        return None
    if status == "error":
        at = "lift"
        if trace and ("symbexec" in out["where"] or "expression" in out["where"] or "jitcore_python" in out["where"]):
            at = trace[-1][1].split(None, 1)[0]
        bucket = "%s|cc|%s|%s" % (arch, at, resource)
        last = ("; last instruction started: `%s` at 0x%x" % (trace[-1][1], trace[-1][0])) if trace else ""
        return bucket, "%s: emulation raised %s: %s%s -- C: %s" % (head, out["exc"], detail, last, src)
    forms = collections.OrderedDict()
    for _a, txt in trace:
        mn, f = form_of(txt)
        forms.setdefault(f, mn)
    fkey = (arch, case["tag"])
    if fkey not in ctx.passed:
        passed = ctx.passed[fkey] = collections.Counter()      # form -> number of passing runs executing it
        for o in OPTS:
            code = ctx.compile(arch, o, funcs)[k]
            if code is None:
                continue
            runner = CcRunner(arch, code)
            for args, arr in CC_INPUTS:
                exp = nat.call(k, args, arr)
                if exp is None:
                    continue
                o2 = runner.run(args, arr)
                st2, _r, _d = cc_judge_run(arch, o2, exp)
                if st2 == "pass":
                    passed["<runs>"] += 1
                    for f in set(form_of(txt)[1] for _a, txt in o2["trace"]):
                        passed[f] += 1
                elif st2 in ("unsupported", "error"):
                    break
    passed = ctx.passed[fkey]
    suspects = [(f, mn) for f, mn in forms.items() if not passed[f]]
    note = "not executed by any passing run of this function"
    if not suspects and passed["<runs>"]:
        # every form also occurs in some passing run: rank by the number of passing runs that execute the form and
        # keep the rarest ones (at most two mnemonics), marked with '~' in the bucket
        low = min(passed[f] for f in forms)
        rare = [(f, mn) for f, mn in forms.items() if passed[f] == low]
        if low < passed["<runs>"] and len(set(mn for _f, mn in rare)) <= 2:
            suspects = rare
            note = "executed by the fewest passing runs of this function (%d of %d)" % (low, passed["<runs>"])
    mns = sorted(set(mn for _f, mn in suspects))
    if not mns:
        who = "func:%s" % ("generated" if re.match(r"gen\d", case["tag"]) else case["tag"])
    elif len(mns) <= 3:
        who = "+".join(mns)
    else:
        who = "+".join(mns[:3]) + "+.."
    if mns and note.startswith("executed by the fewest"):
        who = "~" + who
    bucket = "%s|cc|%s|%s" % (arch, who, resource)
    allmn = "" if suspects else "; mnemonics executed: %s" % " ".join(sorted(set(forms.values())))
    det = "%s: %s; %d instructions executed; instruction forms %s: %s%s -- C: %s" % (
        head, detail, len(trace), note, ", ".join(f for f, _ in suspects[:12]) or "(none)", allmn, src)
    return bucket, det


# =============================================================================================


class C19(Check):
    pid = "C19"
    level = "exploration"
    needs_build = True
    rule = ("two strata on arml, armtl (Thumb-2), aarch64l, mips32l, mips32b, ppc32b, all on the Python jitter. "
            "(cc) vlib.ccorpus C functions f(a,b,c,arr) (13 fixed + generated; deterministic part identical at every "
            "seed) compiled by clang at -O0/-O1/-O2/-Os (-fno-strict-aliasing), called through the ABI with 4 fixed "
            "input vectors (seeded part: Hypothesis-drawn program seeds and boundary-biased inputs); judged on return "
            "value, the 8-word array and its guard bytes against the same C text run natively (host gcc -O1 and host "
            "clang -O0 must agree; big-endian targets: byte / half-word indices mirrored in the oracle text). A value "
            "mismatch is localised: first re-run on a fresh jitter without block cuts (bucket jitter:block-partition "
            "if that passes; a run that hits the step limit is reported only in that case), then by spectrum "
            "(instruction forms executed by the failing run and by no -- else by the fewest -- passing runs of the same "
            "function over 4 optimisation levels x 4 fixed inputs). Non-trivial: >= 8 executed instructions; "
            "distinct by (arch, opt, function, inputs). "
            "(im) vlib.isamodels templates assembled by llvm-mc (never by miasm), one instruction (a whole IT block for "
            "Thumb) per run from a generated state: deterministic product of boundary operand values x flag sets capped "
            "per template by index striding, plus Hypothesis-drawn (template, values, flags); compared field by field "
            "(every GPR, NZCV / HI-LO / XER CA-OV-SO, CR0-7, LR, CTR, next PC) with the model. Non-trivial: the model "
            "changes the state; distinct by (arch, text, values, flags). Groups: ARM/Thumb data processing with every "
            "operand-2 form and shifter carry-out, modified immediates, conditional execution over all conditions x "
            "NZCV, IT blocks, 16-bit Thumb forms, shifts, multiply family, divide, bit-field, extend, byte reverse; "
            "AArch64 add/sub (shifted, extended, immediate), adc/sbc/ngc, logical incl. bitmask immediates, "
            "UBFM/SBFM/BFM raw and aliases, EXTR, CSEL family and CCMP/CCMN over all conditions x NZCV, variable "
            "shifts, multiply/divide (32/64 and long), CLZ/CLS/RBIT/REV*, MOVZ/MOVN/MOVK; MIPS32r2 ALU, immediates, "
            "shifts/rotates, SLT*, MULT/MULTU/MADD*/MSUB*/DIV/DIVU with HI/LO, MOVN/MOVZ, CLZ/CLO, SEB/SEH/WSBH, EXT/INS; "
            "PowerPC add/subf families (carrying, extended, ze/me, OE and record forms), immediates, mul/div, logical, "
            "shifts with CA, rlwinm/rlwimi/rlwnm, cntlzw/exts*, cmp/cmpl/cmpi/cmpli into CR0/1/7.")
    assumptions = ["no CPU emulator exists in this sandbox: the reference is (cc) native execution of the same C text on "
                   "the host and (im) models written for this check from the ARM ARM (DDI 0406C / DDI 0487), MIPS32 Vol. II "
                   "and Power ISA Book I; an instruction that is in neither stratum (see the per-architecture mnemonic "
                   "lists in coverage) is not claimed: loads/stores, branches and delay slots are covered only through "
                   "(cc); floating point, SIMD, system, exclusive/atomic and coprocessor instructions not at all",
                   "clang, llvm-mc and the host compilers are trusted to implement C and the encodings correctly",
                   "instructions miasm does not decode, or decodes but has no semantics for (NotImplementedError / "
                   "'unknown mnemo'), are not 'supported instructions': programs reaching one and such templates are "
                   "counted as dropped and listed by name",
                   "results the manuals leave UNPREDICTABLE / undefined (MIPS DIV by zero and INT_MIN/-1, HI/LO after MUL, "
                   "PowerPC divw/divwu by zero or overflow) are not compared",
                   "a compiled-C run that exceeds the step limit (12 000 instructions quick / 100 000 thorough) is "
                   "inconclusive and dropped, never a verdict",
                   "PowerPC: only the integer state (R0-31, CR0-7 bits, XER CA/OV/SO/BC, LR, CTR) is compared after an "
                   "instruction; the other ~200 special registers are not",
                   "the jitter is used with default options (blocks of at most 50 instructions); one jitter serves the "
                   "input vectors of a program in (cc) and all templates of an architecture in (im) (it is replaced "
                   "after any Python exception)"]
    level_text = ("differential testing of compiled C programs against native execution plus manual-derived per-"
                  "instruction models over a deterministic template x boundary-value product and random supplements; "
                  "the covered mnemonics are enumerated in the evidence")
    technique = "compiled-C differential against the host + reference models of single instructions (llvm-mc encodings)"

    def nshards(self, tier):
        return 48 if tier == "thorough" else 16

    def run_shard(self, tier, seed, shard, nshards):
        with quiet_stderr():
            return self._run_shard(tier, seed, shard, nshards)

    def _run_shard(self, tier, seed, shard, nshards):
        res = ShardResult()
        res.max_failures_per_bucket = 2
        which = os.environ.get("C19_PART", "cc,im")
        if "cc" in which:
            self.run_cc(res, tier, seed, shard, nshards)
        if "im" in which:
            self.run_im(res, tier, seed, shard, nshards)
        return res

    # -- (cc) ---------------------------------------------------------------------------------
    def run_cc(self, res, tier, seed, shard, nshards):
        from vlib import ccorpus
        units, funcs_all, parts = cc_plan(tier)
        _limit[0] = STEP_LIMIT[tier]
        mine =[u for i, u in enumerate(units) if i % nshards == shard]
        only = os.environ.get("C19_ONLY")
        if only:
            mine = [u for u in mine if re.fullmatch(only.split(":")[0], u[0])]
        wd = tempfile.mkdtemp(prefix="c19-%d-" % shard, dir=scratch_root())
        try:
            ctx = CcCtx(wd)
            for arch, opt, part in mine:
                funcs = [f for k, f in enumerate(funcs_all) if k % parts == part]
                inputs = [CC_INPUTS] * len(funcs)
                self.cc_unit(res, ctx, arch, opt, funcs, inputs, "d%d" % part, "det")
            # seeded supplement: generated programs and generated inputs
            nprog = 24 if tier == "thorough" else 6
            rng = random.Random(seed)
            from vlib import hyp
            from hypothesis import strategies as st
            word = st.one_of(st.sampled_from([0, 1, 2, 0x7f, 0x80, 0xff, 0x7fff, 0x8000, 0xffff, 0x7fffffff,
                                              0x80000000, 0xfffffffe, 0xffffffff]), st.integers(0, 0xffffffff),
                             st.integers(0, 64))
            vec = st.tuples(st.lists(word, min_size=3, max_size=3), st.lists(word, min_size=8, max_size=8))
            strat = st.tuples(st.integers(1, 1 << 30), st.lists(vec, min_size=3, max_size=3))
            drawn = []
            hyp.survey(strat, nprog, seed, drawn.append)
            for r in range(0, len(drawn), 3):
                group = drawn[r:r + 3]
                arch = ARCHS[(shard + r // 3 + rng.randrange(len(ARCHS))) % len(ARCHS)]
                if only and not re.fullmatch(only.split(":")[0], arch):
                    continue
                opt = rng.choice(OPTS)
                funcs = [ccorpus.gen_functions(ps, 1, arch)[0] for ps, _ in group]
                inputs = [[(list(a), list(b)) for a, b in vecs] for _, vecs in group]
                self.cc_unit(res, ctx, arch, opt, funcs, inputs, "r%d" % r, "rand")
        finally:
            shutil.rmtree(wd, ignore_errors=True)

    def cc_unit(self, res, ctx, arch, opt, funcs, inputs, tag, stratum):
        from vlib import ccorpus
        be = ccorpus.TARGETS[arch]["be"]
        progs = ctx.compile(arch, opt, funcs)
        nat = ctx.native(funcs, be)
        mncount = collections.Counter()
        for k, (ftag, src) in enumerate(funcs):
            code = progs[k]
            if code is None:
                res.dropped["cc: function dropped at compilation (relocation / no section)"] += 1
                continue
            runner = CcRunner(arch, code)
            for args, arr in inputs[k]:
                exp = nat.call(k, args, arr)
                if exp is None:
                    res.dropped["cc: host gcc and host clang disagree on the expected value"] += 1
                    continue
                out = runner.run(args, arr)
                status, resource, detail = cc_judge_run(arch, out, exp)
                if status == "steplimit":
                    # inconclusive, unless the same bytes return the native result when blocks are not cut
                    case = {"kind": "cc", "arch": arch, "opt": opt, "tag": ftag, "src": src, "args": list(args),
                            "arr": list(arr)}
                    expl = cc_explain(ctx, case, out, status, resource, detail, batch=funcs, k=k)
                    if expl is None:
                        res.dropped["cc: run stopped at the step limit (inconclusive, not a verdict)"] += 1
                    else:
                        case["_bucket"] = expl[0]
                        res.case(nontrivial_key=(arch, opt, ftag, tuple(args), tuple(arr)))
                        res.fail(expl[0], expl[1], case)
                    continue
                if status == "unsupported":
                    mn = cc_unsupported_text(arch, code, out["pc"]) if detail == "UNK_MNEMO" else detail
                    res.dropped["cc: program reaches an instruction miasm does not decode or lift (unsupported)"] += 1
                    res.counters["cc-unsupported:%s:%s" % (arch, mn)] += 1
                    break
                ntkey = (arch, opt, ftag, tuple(args), tuple(arr)) if len(out["trace"]) >= 8 else None
                sample = None
                if ntkey and len(res.samples) < 3 and opt == "-O2":
                    sample = {"kind": "cc", "arch": arch, "opt": opt, "function": ftag, "args": [hex(a) for a in args],
                              "instructions_executed": len(out["trace"])}
                res.case(nontrivial_key=ntkey, sample=sample)
                res.counters["cc:%s:%s" % (stratum, arch)] += 1
                res.counters["cc-opt:%s" % opt] += 1
                for _a, txt in out["trace"]:
                    mncount[txt.split(None, 1)[0]] += 1
                if status == "pass":
                    continue
                case = {"kind": "cc", "arch": arch, "opt": opt, "tag": ftag, "src": src, "args": list(args),
                        "arr": list(arr)}
                bk, det = cc_explain(ctx, case, out, status, resource, detail, batch=funcs, k=k)
                case["_bucket"] = bk
                res.fail(bk, det, case)
                if status == "error":
                    break           # the same lifting / evaluation error would repeat for every input
        for mn, n in mncount.items():
            res.counters["cc-mn:%s:%s" % (arch, mn)] += n

    # -- (im) ---------------------------------------------------------------------------------
    def run_im(self, res, tier, seed, shard, nshards):
        allt = im_tables(tier)
        mine = [t for i, t in enumerate(allt) if i % nshards == shard]
        only = os.environ.get("C19_ONLY")
        if only:
            mine = [t for t in mine if re.fullmatch(only, t.arch + ":" + t.mn)]
        im_assemble(mine)
        dead = set()
        self.errcount = collections.Counter()
        usable = []
        for t in mine:
            if not t.code:
                res.dropped["im: llvm-mc rejects the template text"] += 1
                res.counters["im-llvm-rejects:%s:%s" % (t.arch, t.mn)] += 1
                continue
            usable.append(t)
            for vals, fidx in im_det_cases(t, tier):
                if t.key in dead:
                    break
                self.im_case(res, t, vals, fidx, "det", dead)
        # Hypothesis supplement: random template, random / boundary operand values, any flag state
        pool = [t for t in usable if t.key not in dead]
        if pool:
            from vlib import hyp, isamodels as I
            from hypothesis import strategies as st
            n = 2500 if tier == "thorough" else 250
            word = st.one_of(st.sampled_from(I.W64), st.sampled_from(I.W32), st.sampled_from(I.AMT),
                             st.integers(0, (1 << 64) - 1), st.integers(0, (1 << 32) - 1),
                             st.integers(0, 64).map(lambda k: (1 << k) - 1), st.integers(0, 63).map(lambda k: 1 << k))
            strat = st.tuples(st.integers(0, len(pool) - 1), st.lists(word, min_size=4, max_size=4), st.integers(0, 15))
            drawn = []
            hyp.survey(strat, n, seed, drawn.append)
            for i, words, k in drawn:
                t = pool[i]
                if t.key in dead:
                    continue
                vals = [w & ((1 << I.vbits(vc)) - 1) for w, (_r, vc) in zip(words, t.slots)]
                self.im_case(res, t, vals, "all:%d" % k, "rand", dead)

    def im_case(self, res, t, vals, fidx, stratum, dead):
        fails, nt, drop = im_judge(t, vals, fidx)
        if drop:
            if drop.startswith("unsupported:"):
                res.dropped["im: instruction not supported by the lifter (NotImplementedError)"] += 1
                res.counters["im-unsupported:%s:%s" % (t.arch, t.mn)] += 1
                dead.add(t.key)
            elif drop == "undecodable":
                res.dropped["im: miasm does not decode the llvm-mc encoding (unsupported instruction)"] += 1
                res.counters["im-undecodable:%s:%s" % (t.arch, t.mn)] += 1
                dead.add(t.key)
            else:
                res.dropped["im: " + drop] += 1
            return
        key = (t.key, tuple(vals), fidx) if nt else None
        sample = None
        if nt and len(res.samples) < 3 and sum(vals) % 5 == 1:
            sample = {"kind": "im", "arch": t.arch, "text": t.text, "vals": [hex(v) for v in vals], "flagset": fidx}
        res.case(nontrivial_key=key, sample=sample)
        res.counters["im:%s:%s" % (stratum, t.arch)] += 1
        res.counters["im-mn:%s:%s" % (t.arch, t.mn)] += 1
        for bk, detail in fails:
            res.fail(bk, detail, {"kind": "im", "arch": t.arch, "text": t.text, "vals": [hex(v) for v in vals],
                                  "flagset": fidx, "_bucket": bk})
            if "|emul-error:" in bk:
                # a Python exception from the lifter / engine repeats for (nearly) every operand value and costs a
                # fresh jitter each time: two witnesses per template are enough
                self.errcount[t.key] += 1
                if self.errcount[t.key] >= 2:
                    dead.add(t.key)

    # -- replay / shrink ----------------------------------------------------------------------
    def _eval(self, case):
        """-> list of (bucket, detail)"""
        if case["kind"] == "im":
            tpl = find_tpl("%s|%s" % (case["arch"], case["text"]))
            if tpl is None:
                raise RuntimeError("unknown template %r" % case["text"])
            im_assemble([tpl])
            if not tpl.code:
                return []
            vals = [int(v, 16) if isinstance(v, str) else v for v in case["vals"]]
            with quiet_stderr():
                fails, _nt, _drop = im_judge(tpl, vals, case["flagset"])
            return fails
        arch, opt = case["arch"], case["opt"]
        from vlib import ccorpus
        wd = tempfile.mkdtemp(prefix="c19-replay-", dir=scratch_root())
        try:
            with quiet_stderr():
                ctx = CcCtx(wd)
                funcs = [(case["tag"], case["src"])]
                _limit[0] = STEP_LIMIT["quick"]
                code = ctx.compile(arch, opt, funcs)[0]
                if code is None:
                    return []
                exp = ctx.native(funcs, ccorpus.TARGETS[arch]["be"]).call(0, case["args"], case["arr"])
                if exp is None:
                    return []
                out = CcRunner(arch, code).run(case["args"], case["arr"])
                status, resource, detail = cc_judge_run(arch, out, exp)
                if status in ("pass", "unsupported"):
                    return []
                expl = cc_explain(ctx, case, out, status, resource, detail)
                return [expl] if expl is not None else []
        finally:
            shutil.rmtree(wd, ignore_errors=True)

    def replay(self, case):
        fails = self._eval(case)
        if not fails:
            return None
        want = case.get("_bucket")
        for bk, d in fails:
            if bk == want:
                return Failure(bk, d, case)
        bk, d = fails[0]
        return Failure(bk, d, dict(case, _bucket=bk))

    def shrink(self, failure, tier):
        case = dict(failure.case)
        best = failure

        def still(c):
            try:
                for bk, d in self._eval(c):
                    if bk == failure.bucket:
                        return Failure(bk, d, c)
            except Exception:
                pass
            return None
        if case["kind"] == "im":
            vals = [int(v, 16) if isinstance(v, str) else v for v in case["vals"]]
            for i in range(len(vals)):
                for cand in (0, 1, vals[i] & 0xff, vals[i] & 0xffffffff):
                    if cand >= vals[i]:
                        continue
                    nv = list(vals)
                    nv[i] = cand
                    r = still(dict(case, vals=[hex(v) for v in nv]))
                    if r:
                        vals, case, best = nv, r.case, r
                        break
            return best
        for field, val in (("arr", [0] * 8), ("args", [0, 0, 0])):
            if case.get(field) == val:
                continue
            r = still(dict(case, **{field: val}))
            if r:
                case, best = r.case, r
        return best

    def extra_evidence(self, m):
        hist = {"cc": {}, "im": {}}
        for k, v in m.counters.items():
            for kind, pre in (("cc", "cc-mn:"), ("im", "im-mn:")):
                if k.startswith(pre):
                    arch, mn = k[len(pre):].split(":", 1)
                    hist[kind].setdefault(arch, {})[mn] = v

        def names(pre):
            return sorted(k[len(pre):] for k in m.counters if k.startswith(pre))
        return {"mnemonics_executed_by_compiled_C": {a: dict(sorted(d.items())) for a, d in sorted(hist["cc"].items())},
                "mnemonics_checked_against_models": {a: dict(sorted(d.items())) for a, d in sorted(hist["im"].items())},
                "distinct_mnemonics": {"cc": {a: len(d) for a, d in sorted(hist["cc"].items())},
                                       "im": {a: len(d) for a, d in sorted(hist["im"].items())}},
                "compiled_C_unsupported_instructions(llvm names)": names("cc-unsupported:"),
                "model_templates_not_decoded_by_miasm": names("im-undecodable:"),
                "model_templates_not_lifted_by_miasm": names("im-unsupported:"),
                "model_templates_rejected_by_llvm_mc": names("im-llvm-rejects:")}


CHECK = C19()
