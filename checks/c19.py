"""C19 -- ARM, Thumb, AArch64, MIPS32 and PowerPC semantics match a reference.

No CPU emulator exists in the sandbox; the reference is built from two independent sources:
 (cc) compiled-C differential: vlib.ccorpus functions compiled by clang for each target (-O0/-O1/-O2/-Os), executed
      by miasm's Python jitter; expected return value and array contents from the same C text compiled by the host
      gcc (and, as a guard against C-level ambiguity, the host clang: both must agree) and run natively.
 (im) instruction models: vlib.isamodels (written from the architecture manuals), instructions assembled by llvm-mc,
      executed one at a time (an IT block at a time for Thumb) by the Python jitter from a generated register / flag
      state; every register and flag is compared with the model's prediction.
"""
import collections
import contextlib
import io
import itertools
import os
import random
import re
import shutil
import tempfile

from vlib.runner import Check, ShardResult, Failure, derive_seed

ARCHS = ["arml", "armtl", "aarch64l", "mips32l", "mips32b", "ppc32b"]
CODE = 0x400000
CODE_SIZE = 0x80000

_st = {}


class quiet_stderr(object):
    """miasm's VM / disassembler print WARNING lines on stderr: keep the run quiet"""

    def __enter__(self):
        self.saved = os.dup(2)
        devnull = os.open(os.devnull, os.O_WRONLY)
        os.dup2(devnull, 2)
        os.close(devnull)

    def __exit__(self, *exc):
        os.dup2(self.saved, 2)
        os.close(self.saved)
        return False


def scratch_root():
    d = os.environ.get("TMPDIR")
    if not d or d.startswith("/tmp"):
        d = "/var/tmp"
    return d


def where_in_miasm(ex):
    import traceback
    for fr in reversed(traceback.extract_tb(ex.__traceback__)):
        if "/miasm/" in fr.filename:
            return "%s:%s" % (fr.filename.split("/miasm/")[-1], fr.name)
    return "?"


EXC_UNK_MNEMO = 1 << 19

# =============================================================================================
# (im) instruction-model stratum

GARB32 = [0x01234567, 0x89abcdef, 0xfedcba98, 0x76543210, 0xdeadbeef, 0xcafef00d, 0x11112222, 0x99998888,
          0xa5a5a5a5, 0x0f0f0f0f, 0xffff0000, 0x0000ffff, 0x80808080, 0x7f7f7f7f, 0xc3c3c33c, 0x13579bdf]


def garbage(name, bits):
    h = 0
    for ch in name:
        h = (h * 131 + ord(ch)) & 0xffffffff
    v = GARB32[h % 16] ^ (h * 0x9E3779B1 & 0xffffffff)
    if bits == 64:
        v = (v << 32 | (v * 0x85EBCA6B & 0xffffffff)) ^ 0x5555000000005555
    return v & ((1 << bits) - 1)


class ImEmu(object):
    """One python jitter per architecture; each distinct instruction is placed once in the code page."""
    SKIP = {"arml": {"PC"}, "armtl": {"PC"}, "aarch64l": {"PC"}, "mips32l": {"PC", "PC_FETCH"},
            "mips32b": {"PC", "PC_FETCH"}, "ppc32b": {"PC"}}

    def __init__(self, arch):
        from miasm.analysis.machine import Machine
        from miasm.core.locationdb import LocationDB
        self.arch = arch
        self.j = Machine(arch).jitter(LocationDB(), "python")
        self.j.vm.add_memory_page(CODE, 3, b"\x00" * CODE_SIZE, "code")
        self.next = CODE
        self.placed = {}
        self.names = sorted(self.j.cpu.get_gpreg().keys())
        self.skip = self.SKIP[arch]
        # registers that take part in the comparison; PowerPC: integer state only (the rest must stay untouched too,
        # but 250 special registers per case would dominate the cost: they are compared on a sample)
        if arch == "ppc32b":
            keep = re.compile(r"R\d+|CR\d_(LT|GT|EQ|SO)|XER_(CA|OV|SO|BC)|LR|CTR")
            self.cmp_names = [n for n in self.names if keep.fullmatch(n)]
        else:
            self.cmp_names = [n for n in self.names if n not in self.skip]
        bits = 64 if arch == "aarch64l" else 32
        self.base = {}
        for n in self.cmp_names:
            if re.fullmatch(r"[nzco]f|ge\d|CR\d_(LT|GT|EQ|SO)|XER_(CA|OV|SO)", n):
                self.base[n] = 0
            elif n == "ZERO":
                self.base[n] = 0
            elif n == "XER_BC":
                self.base[n] = 0x5a & 0x7f
            else:
                self.base[n] = garbage(n, bits)

    def place(self, code, nlines):
        a = self.placed.get(code)
        if a is None:
            a = self.next
            self.next += (len(code) + 8 + 15) & ~15
            if self.next >= CODE + CODE_SIZE:
                raise RuntimeError("code area exhausted")
            self.j.vm.set_mem(a, code)
            self.placed[code] = a
        return a

    def run(self, code, nlines, state):
        """state: dict resource -> value for every compared resource -> (final dict, pc, exc, steps)"""
        j = self.j
        cpu = j.cpu
        addr = self.place(code, nlines)
        cpu.set_gpreg(state)
        cpu.set_exception(0)
        j.vm.set_exception(0)
        j.jit.options["jit_maxline"] = nlines
        j.jit.options["max_exec_per_call"] = 1
        end = addr + len(code)
        pc = addr
        steps = 0
        while True:
            pc = j.jit.run_at(cpu, pc, set())
            steps += 1
            exc = cpu.get_exception() | j.vm.get_exception()
            if exc or pc == end or not (addr <= pc < end) or steps > 8:
                break
        regs = cpu.get_gpreg()
        cpu.set_exception(0)
        j.vm.set_exception(0)
        return regs, pc, exc, end


def get_emu(arch):
    k = ("emu", arch)
    if k not in _st:
        _st[k] = ImEmu(arch)
    return _st[k]


def im_tables(tier):
    k = "im:" + tier
    if k not in _st:
        from vlib import isamodels as I
        lst = I.all_templates(tier == "thorough")
        _st[k] = lst
        _st[k + ":idx"] = {t.key: t for t in lst}
    return _st[k]


def find_tpl(key):
    for tier in ("quick", "thorough"):
        im_tables(tier)
        t = _st["im:%s:idx" % tier].get(key)
        if t is not None:
            return t
    return None


def im_assemble(tpls):
    from vlib import isamodels as I
    by = collections.OrderedDict()
    for t in tpls:
        if t.code is None:
            by.setdefault(t.arch, []).append(t)
    for arch, ts in by.items():
        encs = I.assemble(arch, [t.text for t in ts])
        for t, e in zip(ts, encs):
            t.code = e if e is not None else b""


def im_det_cases(tpl, tier):
    """deterministic stratum: product of the slot boundary values x flag sets, capped by index striding"""
    from vlib import isamodels as I
    depth = 0
    lists = [I.values(vc, depth) for _r, vc in tpl.slots]
    lists.append(list(range(len(I.flagsets(tpl.arch, tpl.flagsets)))))
    total = 1
    for l in lists:
        total *= len(l)
    cap = tpl.cap or (64 if tier == "quick" else 400)
    if tier == "thorough":
        cap = max(cap * 4, 200)
    if os.environ.get("C19_DEVCAP"):
        cap = min(cap, int(os.environ["C19_DEVCAP"]))
    if total <= cap:
        for combo in itertools.product(*lists):
            yield list(combo[:-1]), combo[-1]
        return
    step = total / float(cap)
    seen = set()
    for k in range(cap):
        idx = (int(k * step) * 2654435761 + k) % total
        if idx in seen:
            continue
        seen.add(idx)
        combo = []
        for l in lists:
            combo.append(l[idx % len(l)])
            idx //= len(l)
        yield combo[:-1], combo[-1]


def im_state(tpl, vals, fidx, emu):
    from vlib import isamodels as I
    st = dict(emu.base)
    fl = I.flagsets(tpl.arch, tpl.flagsets)
    st.update(fl[fidx % len(fl)])
    for (r, vc), v in zip(tpl.slots, vals):
        st[r] = v & ((1 << I.vbits(vc)) - 1)
        if tpl.arch == "aarch64l" and vc == "w32":
            # a W-register input: the upper half of the X register holds garbage that must be ignored
            st[r] |= 0xfeedface00000000
    return st


def im_bucket(tpl, resource):
    return "%s|im|%s|%s" % (tpl.arch, tpl.mn, resource)


def res_class(name):
    """resource name -> bucket component"""
    if re.fullmatch(r"[nzco]f", name):
        return "flag:" + name
    if re.fullmatch(r"CR\d_(LT|GT|EQ|SO)", name):
        return "cr:" + name.split("_")[1]
    if name.startswith("XER_"):
        return "xer:" + name[4:]
    if name in ("R_HI", "R_LO"):
        return name
    return "reg"


def im_judge(tpl, vals, fidx):
    """-> (fails [(bucket, detail)], nontrivial, drop reason)"""
    emu = get_emu(tpl.arch)
    st = im_state(tpl, vals, fidx, emu)
    up = tpl.model(st)
    if up is None:
        return [], False, "model: architecturally UNPREDICTABLE/undefined result for these operands"
    undef = set(up.pop("_undef", ()))
    exp = dict(st)
    exp.update(up)
    ins = ", ".join("%s=0x%x" % (r, st[r]) for r, _ in tpl.slots)
    fl = " ".join("%s=%d" % (k, st[k]) for k in sorted(st) if res_class(k) != "reg" and k not in ("R_HI", "R_LO")
                  and not re.match(r"CR[1-7]_|ge\d", k))
    head = "`%s` [%s bytes %s] from %s ; %s" % (tpl.text.replace("\n", " ; "), tpl.arch, tpl.code.hex(), ins, fl)
    try:
        regs, pc, exc, end = emu.run(tpl.code, tpl.nlines, st)
    except NotImplementedError as ex:
        _st.pop(("emu", tpl.arch), None)
        return [], False, "unsupported:" + str(ex)[:60]
    except Exception as ex:
        _st.pop(("emu", tpl.arch), None)      # an exception may leave the jitter's bin_stream / engine in a bad state
        if isinstance(ex, ValueError) and str(ex).startswith("unknown mnemo"):
            return [], False, "unsupported:decoded but no semantics (unknown mnemo)"
        return [(im_bucket(tpl, "emul-error:%s@%s" % (type(ex).__name__, where_in_miasm(ex))),
                 "%s: emulation raised %r" % (head, ex))], True, None
    if exc & EXC_UNK_MNEMO:
        return [], False, "undecodable"
    if exc:
        return [(im_bucket(tpl, "emul-exception"), "%s: emulation stops with exception flags 0x%x" % (head, exc))], True, None
    if pc != end:
        return [(im_bucket(tpl, "pc"), "%s: emulation continues at 0x%x, expected 0x%x" % (head, pc, end))], True, None
    fails = []
    bad = collections.OrderedDict()
    for n in emu.cmp_names:
        if n in undef:
            continue
        if regs[n] != exp[n]:
            bad.setdefault(res_class(n), []).append("%s model=0x%x emulated=0x%x (was 0x%x)" % (n, exp[n], regs[n], st[n]))
    for rc, lst in bad.items():
        fails.append((im_bucket(tpl, rc), "%s: %s" % (head, "; ".join(lst[:6]))))
    return fails, any(exp[n] != st[n] for n in exp), None


# =============================================================================================


class C19(Check):
    pid = "C19"
    level = "exploration"
    needs_build = True
    rule = ""
    assumptions = []
    level_text = ""
    technique = ""

    def nshards(self, tier):
        return 48 if tier == "thorough" else 16

    def run_shard(self, tier, seed, shard, nshards):
        with quiet_stderr():
            return self._run_shard(tier, seed, shard, nshards)

    def _run_shard(self, tier, seed, shard, nshards):
        res = ShardResult()
        res.max_failures_per_bucket = 2
        self.run_im(res, tier, seed, shard, nshards)
        return res

    # -- (im) ---------------------------------------------------------------------------------
    def run_im(self, res, tier, seed, shard, nshards):
        allt = im_tables(tier)
        mine = [t for i, t in enumerate(allt) if i % nshards == shard]
        only = os.environ.get("C19_ONLY")
        if only:
            mine = [t for t in mine if re.fullmatch(only, t.arch + ":" + t.mn)]
        im_assemble(mine)
        dead = set()
        usable = []
        for t in mine:
            if not t.code:
                res.dropped["im: llvm-mc rejects the template text"] += 1
                res.counters["im-llvm-rejects:%s:%s" % (t.arch, t.mn)] += 1
                continue
            usable.append(t)
            for vals, fidx in im_det_cases(t, tier):
                if t.key in dead:
                    break
                self.im_case(res, t, vals, fidx, "det", dead)

    def im_case(self, res, t, vals, fidx, stratum, dead):
        fails, nt, drop = im_judge(t, vals, fidx)
        if drop:
            if drop.startswith("unsupported:"):
                res.dropped["im: instruction not supported by the lifter (NotImplementedError)"] += 1
                res.counters["im-unsupported:%s:%s" % (t.arch, t.mn)] += 1
                dead.add(t.key)
            elif drop == "undecodable":
                res.dropped["im: miasm does not decode the llvm-mc encoding (unsupported instruction)"] += 1
                res.counters["im-undecodable:%s:%s" % (t.arch, t.mn)] += 1
                dead.add(t.key)
            else:
                res.dropped["im: " + drop] += 1
            return
        key = (t.key, tuple(vals), fidx) if nt else None
        sample = None
        if nt and len(res.samples) < 3 and (sum(vals) + fidx) % 5 == 1:
            sample = {"kind": "im", "arch": t.arch, "text": t.text, "vals": [hex(v) for v in vals], "flagset": fidx}
        res.case(nontrivial_key=key, sample=sample)
        res.counters["im:%s:%s" % (stratum, t.arch)] += 1
        res.counters["im-mn:%s:%s" % (t.arch, t.mn)] += 1
        for bk, detail in fails:
            res.fail(bk, detail, {"kind": "im", "arch": t.arch, "text": t.text, "vals": [hex(v) for v in vals],
                                  "flagset": fidx, "_bucket": bk})

    def replay(self, case):
        return None


CHECK = C19()
