"""C15 — every encoding proposed by the assembler decodes to the same instruction.

Inputs: vlib.archlab (curated vectors of miasm's arch scripts + opcode-space enumeration, both identical at every
seed, + a small Hypothesis stratum).  Usage mirrors test/arch/*/arch.py: ``instr = mn.dis(bytes, mode)`` at offset 0
with the raw (unresolved) operands, ``mn.asm(instr)``, ``mn.dis(candidate, mode)``.
Oracle (from the statement only): asm proposes >= 1 candidate; each candidate decodes in the same mode to an
instruction with the same name, mode and operand list, whose length is the candidate's length.
"""
import os
import re

from vlib.runner import Check, ShardResult, Failure, derive_seed
from vlib import archlab

# parts per architecture (cost balance), quick / thorough
PARTS_Q = {"x86_32": 4, "x86_64": 6, "x86_16": 2, "arml": 2, "armb": 1, "armtl": 3, "armtb": 1, "aarch64l": 2,
           "aarch64b": 1, "mips32l": 1, "mips32b": 1, "ppc32b": 1, "msp430": 2, "mepb": 2, "mepl": 1, "sh4": 1}
PARTS_T = {"x86_32": 40, "x86_64": 56, "x86_16": 36, "arml": 10, "armb": 10, "armtl": 8, "armtb": 8, "aarch64l": 12,
           "aarch64b": 12, "mips32l": 6, "mips32b": 6, "ppc32b": 6, "msp430": 6, "mepb": 4, "mepl": 4, "sh4": 2}
# quick tier: the second endianness of a table set takes every STRIDE-th enumerated sample
STRIDE_Q = {"x86_16": 2, "armb": 4, "armtb": 6, "aarch64b": 4, "mips32l": 4, "mepl": 4}
NRAND_Q = 160       # random samples per architecture/mode (whole run), quick
NRAND_T = 40000


def diff_desc(x, y, depth=0):
    """Short, value-free description of how expression y differs from x (root-cause oriented sub-kind)."""
    if x == y:
        return "same"
    if x.is_int() and y.is_int():
        if int(x) == int(y):
            return "imm-size(%d->%d)" % (x.size, y.size)
        return "imm-value" if x.size == y.size else "imm-value-size(%d->%d)" % (x.size, y.size)
    if type(x) is not type(y):
        return "%s->%s" % (type(x).__name__[4:].lower(), type(y).__name__[4:].lower())
    if x.size != y.size:
        return "%s-size(%d->%d)" % (type(x).__name__[4:].lower(), x.size, y.size)
    if x.is_id() or x.is_loc():
        return "reg"
    if depth >= 3:
        return "expr"
    if x.is_mem():
        return "mem/" + diff_desc(x.ptr, y.ptr, depth + 1)
    if x.is_op():
        if x.op != y.op:
            return "op(%s->%s)" % (x.op, y.op)
        if len(x.args) != len(y.args):
            return "op(%s)/arity" % x.op
        for u, v in zip(x.args, y.args):
            if u != v:
                return "op(%s)/%s" % (x.op, diff_desc(u, v, depth + 1))
    if x.is_slice():
        if (x.start, x.stop) != (y.start, y.stop):
            return "slice-bounds"
        return "slice/" + diff_desc(x.arg, y.arg, depth + 1)
    if x.is_compose():
        if len(x.args) != len(y.args):
            return "compose/arity"
        for u, v in zip(x.args, y.args):
            if u != v:
                return "compose/" + diff_desc(u, v, depth + 1)
    if x.is_cond():
        for u, v in ((x.cond, y.cond), (x.src1, y.src1), (x.src2, y.src2)):
            if u != v:
                return "cond/" + diff_desc(u, v, depth + 1)
    return "expr"


def same_instruction(a, b):
    """None if b is the same instruction as a (name, mode, operands), else a short reason."""
    if a.name != b.name:
        return "name"
    if a.mode != b.mode:
        return "mode"
    if len(a.args) != len(b.args):
        return "operand-count"
    for x, y in zip(a.args, b.args):
        if x != y:
            return "operands:" + re.sub(r"[\s:]+", "", diff_desc(x, y))
    return None


def _where(ex):
    import traceback
    tb = traceback.extract_tb(ex.__traceback__)
    for fr in reversed(tb):
        if "/miasm/" in fr.filename:
            return "%s:%s" % (fr.filename.split("/miasm/")[-1], fr.name)
    return "?"


def fmt_instr(instr):
    try:
        return "%s [%s]" % (str(instr).strip(), ", ".join(
            ("%s/%d" % (a, a.size)) + ("/ptr%d" % a.ptr.size if a.is_mem() else "") for a in instr.args))
    except Exception as ex:
        return "<%s unprintable: %r>" % (instr.name, ex)


def roundtrip(arch, instr):
    """Assemble `instr` and re-decode each candidate.
    -> (candidates or None, [(kind, detail, candidate bytes or None)])"""
    return roundtrip_against(arch, instr, instr)


def roundtrip_against(arch, instr, ref, loc_db=None):
    """Assemble `instr`; every candidate must decode to `ref`."""
    mn = archlab.mn_of(arch)
    try:
        cands = mn.asm(instr) if loc_db is None else mn.asm(instr, loc_db)
    except ValueError as ex:
        if str(ex).startswith("cannot asm") or "cannot asm" in repr(ex):
            return None, [("no-candidate", "asm(%s) raised %r" % (fmt_instr(instr), ex), None)]
        return None, [("asm-exception:ValueError@%s" % _where(ex), "asm(%s) raised %r" % (fmt_instr(instr), ex), None)]
    except Exception as ex:
        return None, [("asm-exception:%s@%s" % (type(ex).__name__, _where(ex)),
                       "asm(%s) raised %r" % (fmt_instr(instr), ex), None)]
    cands = list(cands)
    if not cands:
        return cands, [("no-candidate", "asm(%s) returned no encoding" % fmt_instr(instr), None)]
    fails = []
    seen = set()
    for c in cands:
        if not isinstance(c, (bytes, bytearray)):
            fails.append(("candidate-not-bytes", "asm(%s) proposed %r" % (fmt_instr(instr), c), None))
            continue
        c = bytes(c)
        if c in seen:
            continue
        seen.add(c)
        st, i2 = archlab.decode(arch, c)
        if st == "undecodable":
            fails.append(("candidate-undecodable", "asm(%s) proposed %s which does not decode"
                          % (fmt_instr(instr), c.hex()), c))
            continue
        if st != "ok":
            fails.append(("candidate-undecodable", "asm(%s) proposed %s; decoding it raised %r"
                          % (fmt_instr(instr), c.hex(), i2), c))
            continue
        why = same_instruction(ref, i2)
        if why is not None:
            fails.append(("different-instruction:%s" % why, "asm(%s) proposed %s which decodes to %s"
                          % (fmt_instr(instr), c.hex(), fmt_instr(i2)), c))
            continue
        if i2.l != len(c):
            fails.append(("length", "asm(%s) proposed %s (%d bytes) which decodes to the same instruction with "
                          "length %d" % (fmt_instr(instr), c.hex(), len(c), i2.l), c))
    return cands, fails


def judge(arch, data):
    """-> (status, instr, ncands, [(bucket, detail)])  status in ok / undecodable / decoder-exception"""
    st, instr = archlab.decode(arch, data)
    if st != "ok":
        return st, instr, 0, []
    cands, fails = roundtrip(arch, instr)
    out = []
    seen = set()
    for kind, detail, _c in fails:
        if kind in seen:
            continue
        seen.add(kind)
        out.append((archlab.bucket(arch, instr.name, kind),
                    "%s %s: %s" % (arch.name, bytes(data[:instr.l]).hex(), detail)))
    return "ok", instr, len(cands or ()), out


class RoundTripCheck(Check):
    """Shared shard driver of the instruction-level checks: iterates archlab strata, calls self.one()."""
    parts_q = PARTS_Q
    parts_t = PARTS_T
    stride_q = STRIDE_Q
    nrand_q = NRAND_Q
    nrand_t = NRAND_T
    arch_names = archlab.ARCH_NAMES
    block = 1

    def jobs(self, tier):
        return archlab.plan(self.parts_t if tier == "thorough" else self.parts_q, self.arch_names)

    def nshards(self, tier):
        return len(self.jobs(tier))

    def begin(self, res, arch, tier):
        pass

    def end(self, res, arch, tier):
        pass

    def one(self, res, arch, stratum, data, state):
        raise NotImplementedError

    def run_shard(self, tier, seed, shard, nshards):
        from vlib import hyp
        res = ShardResult()
        name, part, nparts = self.jobs(tier)[shard]
        res.max_samples = 1 if part == 0 else 0        # one evidence sample per architecture/mode
        arch = archlab.ARCHS[name]
        archlab.mn_of(arch)
        archlab.quiet_miasm_logs()
        state = {"seen": set(), "tier": tier}
        self.begin(res, arch, tier)
        stride = 1 if tier == "thorough" else self.stride_q.get(name, 1)
        for stratum, _idx, data in archlab.deterministic(arch, tier, part, nparts, stride, self.block):
            self.one(res, arch, stratum, data, state)
        if tier == "thorough":
            n = self.nrand_t // nparts + (1 if part < self.nrand_t % nparts else 0)
        else:
            n = self.nrand_q if part == 0 else 0      # one Hypothesis start-up per architecture
        if n > 0:
            # the random stratum depends on (VERIF_SEED, property, architecture, part) only, not on the shard layout
            try:
                base = int(os.environ.get("VERIF_SEED", "1"))
            except ValueError:
                base = 1
            rseed = derive_seed(base, self.pid, name, part)
            hyp.survey(archlab.random_strategy(arch), n, rseed, lambda d: self.one(res, arch, "random", d, state))
        self.end(res, arch, tier)
        res.exhaustive["deterministic strata (curated + opcode enumeration) completed"] = True
        return res


class C15(RoundTripCheck):
    pid = "C15"
    rule = ("per architecture/mode (x86 16/32/64, arm l/b, thumb l/b, aarch64 l/b, mips32 l/b, ppc32, msp430, mep "
            "l/b, sh4): curated vectors of test/arch/*, opcode-space enumeration (x86: every 1-byte/0F/0F38/0F3A "
            "opcode x ModRM classes x prefix sets; 16-bit ISAs: every first halfword; 32-bit ISAs: major opcode "
            "fields x fixed bit patterns), both seed-independent, plus Hypothesis random bytes. Each decodable "
            "sample: mn.asm(instr) must propose >=1 encoding and each must decode to the same name/mode/operands "
            "with l == len(encoding). Non-trivial: instruction with >=1 operand for which >=1 candidate was "
            "re-decoded; distinct by (architecture, mode, instruction bytes).")
    assumptions = ["operands are compared unresolved (raw ExprInt offsets), offset 0, as test/arch/*/arch.py do",
                   "bytes on which the decoder raises something else than Disasm_Exception yield no instruction "
                   "and are outside the quantifier (counted)",
                   "the original bytes need not be among the candidates (not part of the statement)"]
    level_text = ("deterministic opcode-space enumeration plus curated and random bytes, each decoded, reassembled "
                  "and every proposed encoding re-decoded and compared")
    technique = "round-trip (decode / assemble / decode) over enumerated and random machine code"

    def one(self, res, arch, stratum, data, state):
        st, instr, ncands, fails = judge(arch, data)
        if st == "undecodable":
            res.dropped["bytes miasm does not decode (outside the quantifier)"] += 1
            return
        if st != "ok":
            res.dropped["decoder raised %s (no instruction obtained)" % type(instr).__name__] += 1
            res.counters["decoder-exception:%s:%s" % (arch.name, type(instr).__name__)] += 1
            return
        key = bytes(data[:instr.l])
        if key in state["seen"]:
            return
        state["seen"].add(key)
        res.counters["decoded:%s:%s" % (arch.name, stratum)] += 1
        nt = (arch.name, key.hex()) if (len(instr.args) >= 1 and ncands >= 1) else None
        sample = None
        if nt and stratum == "enum" and not res.samples and len(state["seen"]) > 50:
            try:
                text = str(instr)
            except Exception as ex:      # printing is C16's business (e.g. sh4 PC-relative MOV asserts)
                text = "<str() raised %s>" % type(ex).__name__
            sample = {"arch": arch.name, "hex": key.hex(), "text": text, "candidates": ncands}
        res.case(nontrivial_key=nt, sample=sample)
        if ncands >= 2:
            res.counters["multi-candidate:%s" % arch.name] += 1
        for b, d in fails:
            res.fail(b, d, {"arch": arch.name, "hex": data.hex()})

    def replay(self, case):
        arch = archlab.ARCHS[case["arch"]]
        archlab.mn_of(arch)
        archlab.quiet_miasm_logs()
        st, instr, ncands, fails = judge(arch, bytes.fromhex(case["hex"]))
        if not fails:
            return None
        want = case.get("_bucket")
        for b, d in fails:
            if want is None or b == want:
                return Failure(b, d, case)
        return Failure(fails[0][0], fails[0][1], case)

    def shrink(self, failure, tier):
        arch = archlab.ARCHS[failure.case["arch"]]
        st, instr = archlab.decode(arch, bytes.fromhex(failure.case["hex"]))
        if st != "ok":
            return failure
        small = dict(failure.case, hex=bytes.fromhex(failure.case["hex"])[:instr.l].hex(), _bucket=failure.bucket)
        r = self.replay(small)
        if r is not None and r.bucket == failure.bucket:
            return r
        return failure


CHECK = C15()
