"""C25 — binary streams return exactly the underlying bits.

Sources: bin_stream_str, bin_stream_file (io.BytesIO and a real file), bin_stream_vm (pages of a
VmMngr), bin_stream_elf (generated 32-bit ELF, 1-2 PT_LOAD segments, both byte orders),
bin_stream_pe (PE built with pe_init.PE() + add_section, re-parsed from its bytes).

Oracle: the source as a list of (address, bytes) segments; a read of [a, a+l) is defined iff every
byte lies in a segment, a bit field is the big integer of the enclosing bytes shifted/masked
(most significant bit first); undefined reads must raise IOError (OSError).

A case is (source description, list of operations).  Operations: getbytes, getbits, get_uN with
explicit/default byte order, readbs (sequential cursor reads), entering/leaving atomic mode and,
for the VM source, a memory write between two atomic sections.
"""
import contextlib
import io
import os
import shutil
import struct

from vlib.runner import Check, ShardResult, Failure

KINDS_CORE = ("str", "bytesio", "file", "vm")
KINDS_ALL = ("str", "bytesio", "file", "vm", "vm", "elf", "pe", "str")

_scratch = {}


def scratch_dir():
    d = _scratch.get("dir")
    if d is None or _scratch.get("pid") != os.getpid():
        d = "/var/tmp/verif-c25.%d" % os.getpid()
        os.makedirs(d, exist_ok=True)
        _scratch["dir"] = d
        _scratch["pid"] = os.getpid()
    return d


def scratch_cleanup():
    d = _scratch.pop("dir", None)
    if d and _scratch.get("pid") == os.getpid():
        shutil.rmtree(d, ignore_errors=True)


@contextlib.contextmanager
def quiet_stderr():
    """VmMngr prints a warning line on fd 2 for every unmapped access."""
    import sys
    sys.stderr.flush()
    saved = os.dup(2)
    null = os.open(os.devnull, os.O_WRONLY)
    try:
        os.dup2(null, 2)
        yield
    finally:
        os.dup2(saved, 2)
        os.close(saved)
        os.close(null)


# ---------------------------------------------------------------------------------------------
# oracle


class Model(object):
    def __init__(self, segs):
        """segs: list of (addr, bytes); adjacent segments form one readable range."""
        self.mem = {}
        for a, b in segs:
            for i, c in enumerate(b):
                self.mem[a + i] = c

    def read(self, a, l):
        out = bytearray()
        for x in range(a, a + l):
            c = self.mem.get(x)
            if c is None:
                return None
            out.append(c)
        return bytes(out)

    def bits(self, s, n):
        a = s // 8
        e = (s + n + 7) // 8
        b = self.read(a, e - a)
        if b is None:
            return None
        big = int.from_bytes(b, "big")
        drop = 8 * (e - a) - (s - 8 * a) - n
        return (big >> drop) & ((1 << n) - 1)

    def poke(self, a, b):
        for i, c in enumerate(b):
            self.mem[a + i] = c


# ---------------------------------------------------------------------------------------------
# sources


def mk_elf(segs, be):
    """Minimal ELF32 executable: header, len(segs) PT_LOAD program headers, segment data."""
    e = ">" if be else "<"
    ident = b"\x7fELF" + bytes([1, 2 if be else 1, 1, 0]) + b"\0" * 8
    n = len(segs)
    off = 52 + 32 * n
    hdr = ident + struct.pack(e + "HHIIIIIHHHHHH", 2, 3, 1, segs[0][0], 52, 0, 0, 52, 32, n, 40, 0, 0)
    phs = b""
    body = b""
    for va, data in segs:
        phs += struct.pack(e + "IIIIIIII", 1, off + len(body), va, va, len(data), len(data), 5, 1)
        body += data
    return hdr + phs + body


class Source(object):
    """Builds the real stream and the model from the JSON description."""

    def __init__(self, desc):
        from miasm.core import bin_stream as B
        kind = desc["kind"]
        self.kind = kind
        self.vm = None
        self.fd = None
        self.cursor = None      # model of the sequential-read position (stream address)
        self.skip_below = None  # PE: addresses below the first section (headers) are not modelled
        segs = [(a, bytes.fromhex(h)) for a, h in desc["segs"]]
        self.end = max([a + len(b) for a, b in segs] + [0])
        if kind in ("str", "bytesio", "file"):
            base, content = segs[0]
            if kind == "str":
                off = base if desc.get("cursor_at_base") else 0
                self.bs = B.bin_stream_str(content, offset=off, base_address=base)
                self.cursor = off
            else:
                if kind == "bytesio":
                    self.fd = io.BytesIO(content)
                else:
                    path = os.path.join(scratch_dir(), "src.bin")
                    with open(path, "wb") as f:
                        f.write(content)
                    self.fd = open(path, "rb")
                # the cursor of a file stream is the file position: it cannot be below base
                self.bs = B.bin_stream_file(self.fd, offset=base, base_address=base)
                self.cursor = base
            self.default_le = True
        elif kind == "vm":
            from miasm.jitter import VmMngr
            from miasm.jitter.csts import PAGE_READ, PAGE_WRITE
            boff = desc["base_offset"]
            self.vm = VmMngr.Vm()
            if desc.get("big_endian"):
                self.vm.set_big_endian()
            else:
                self.vm.set_little_endian()
            for i, (a, b) in enumerate(segs):
                self.vm.add_memory_page(a + boff, PAGE_READ | PAGE_WRITE, b, "p%d" % i)
            self.boff = boff
            self.bs = B.bin_stream_vm(self.vm, offset=segs[0][0], base_offset=boff)
            self.cursor = segs[0][0]
            self.default_le = not desc.get("big_endian")
        elif kind == "elf":
            from miasm.loader import elf_init
            raw = mk_elf(segs, bool(desc.get("big_endian")))
            self.bs = B.bin_stream_elf(elf_init.ELF(raw), offset=segs[0][0])
            self.cursor = segs[0][0]
            self.default_le = not desc.get("big_endian")
        elif kind == "pe":
            from miasm.loader import pe_init
            pe = pe_init.PE()
            for i, (rva, b) in enumerate(segs):
                pe.SHList.add_section(name=".s%d" % i, addr=rva, data=b)
            pe2 = pe_init.PE(bytes(pe))
            ib = pe2.NThdr.ImageBase
            # extent of each section = its virtual size from the section header (zero filled)
            vsegs = []
            for (rva, b), sh in zip(segs, pe2.SHList):
                assert sh.addr == rva
                vsegs.append((ib + rva, b + b"\0" * (sh.size - len(b))))
            segs = vsegs
            self.skip_below = segs[0][0]
            self.end = max(a + len(b) for a, b in segs)
            self.bs = B.bin_stream_pe(pe2, offset=segs[0][0])
            self.cursor = segs[0][0]
            self.default_le = True
            self.image_base = ib
        else:
            raise ValueError(kind)
        self.model = Model(segs)
        self.first = segs[0][0]

    def close(self):
        if self.fd is not None:
            self.fd.close()


# ---------------------------------------------------------------------------------------------
# judge


def _exc_bucket(ex):
    return "exception:%s" % type(ex).__name__


def judge_case(case, stats=None):
    """-> list of (bucket, detail); never raises for a breach."""
    with quiet_stderr():
        return _judge_case(case, stats)


def _judge_case(case, stats):
    from miasm.core.utils import LITTLE_ENDIAN, BIG_ENDIAN
    out = []
    seen = set()
    src = Source(case["src"])
    kind = src.kind
    bs = src.bs
    M = src.model
    atomic = False
    cursor_moved = False
    decoys = []

    def fail(op, what, detail):
        b = "%s:%s:%s" % (kind, op, what)
        if b not in seen:
            seen.add(b)
            out.append((b, "%s ; source %s" % (detail, case["src"])))

    def count(k):
        if stats is None:
            return
        if k.startswith("dropped:"):
            stats.dropped[k[8:]] += 1
        else:
            stats.counters[k] += 1

    def unmodelled(a, l):
        return src.skip_below is not None and a < src.skip_below and a + l > src.image_base

    try:
        for op in case["ops"]:
            name = op[0]
            if name == "atomic":
                if op[1] and not atomic:
                    bs.enter_atomic_mode()
                    atomic = True
                elif not op[1] and atomic:
                    bs.leave_atomic_mode()
                    atomic = False
                    for d in decoys:
                        d.leave_atomic_mode()
                    del decoys[:]
                continue
            if name == "poke":
                # memory of the emulator changes between two instructions, never inside one
                if src.vm is None:
                    continue
                if atomic:
                    bs.leave_atomic_mode()
                    atomic = False
                a, data = op[1], bytes.fromhex(op[2])
                if M.read(a, len(data)) is None:
                    continue
                src.vm.set_mem(a + src.boff, data)
                M.poke(a, data)
                count("op:poke")
                continue
            tag = ("cached:" if atomic else "")
            if name == "getbytes":
                a, l = op[1], op[2]
                if unmodelled(a, l):
                    count("dropped:pe-header-read")
                    continue
                exp = M.read(a, l)
                count("op:getbytes:" + ("in" if exp is not None else "out"))
                if atomic and l > 0:
                    # another stream object decoding at the same time (its own atomic section, same address and
                    # length, different content): caches must be per stream
                    try:
                        from miasm.core.bin_stream import bin_stream_str as _bss
                        decoy = _bss(bytes((0xA5 ^ (i & 0xff)) for i in range(min(l, 64) + 8)), base_address=a)
                        decoy.enter_atomic_mode()
                        decoy.getbytes(a, min(l, 64))
                        if l <= 64:
                            decoys.append(decoy)
                        count("op:decoy-stream-read")
                    except Exception:
                        pass
                try:
                    got = bs.getbytes(a, l)
                except IOError:
                    if exp is not None and l > 0:
                        fail(name, "in-range:spurious-ioerror", "%sgetbytes(0x%x, %d) raised IOError, expected %r"
                             % (tag, a, l, exp))
                    continue
                except Exception as ex:
                    fail(name, ("in-range:" if exp is not None else "out-of-range:") + _exc_bucket(ex),
                         "%sgetbytes(0x%x, %d) raised %r" % (tag, a, l, ex))
                    continue
                if l == 0:
                    if bytes(got) != b"":
                        fail(name, "zero-length", "getbytes(0x%x, 0) = %r" % (a, got))
                    continue
                if exp is None:
                    what = "short-read" if len(got) < l else "no-ioerror"
                    fail(name, "out-of-range:" + what, "%sgetbytes(0x%x, %d) = %r, expected IOError (source ends at 0x%x)"
                         % (tag, a, l, bytes(got), src.end))
                elif bytes(got) != exp:
                    fail(name, "in-range:value", "%sgetbytes(0x%x, %d) = %r, expected %r" % (tag, a, l, bytes(got), exp))
            elif name == "getbits":
                s, n = op[1], op[2]
                if cursor_moved:
                    count("dropped:getbits-after-readbs")
                    continue
                if unmodelled(s // 8, (n + 14) // 8):
                    count("dropped:pe-header-read")
                    continue
                exp = M.bits(s, n) if n else 0
                count("op:getbits:" + ("in" if exp is not None else "out"))
                try:
                    got = bs.getbits(s, n)
                except IOError:
                    if exp is not None:
                        fail(name, "in-range:spurious-ioerror", "%sgetbits(0x%x, %d) raised IOError, expected 0x%x"
                             % (tag, s, n, exp))
                    continue
                except Exception as ex:
                    fail(name, ("in-range:" if exp is not None else "out-of-range:") + _exc_bucket(ex),
                         "%sgetbits(0x%x, %d) raised %r" % (tag, s, n, ex))
                    continue
                if exp is None:
                    fail(name, "out-of-range:no-ioerror", "%sgetbits(0x%x, %d) = 0x%x, expected IOError "
                         "(source ends at byte 0x%x)" % (tag, s, n, got, src.end))
                elif got != exp:
                    fail(name, "in-range:value", "%sgetbits(0x%x (byte 0x%x bit %d), %d) = 0x%x, expected 0x%x"
                         % (tag, s, s // 8, s % 8, n, got, exp))
            elif name == "get_u":
                size, a, en = op[1], op[2], op[3]
                l = size // 8
                if unmodelled(a, l):
                    count("dropped:pe-header-read")
                    continue
                b = M.read(a, l)
                le = src.default_le if en is None else (en == "le")
                exp = None if b is None else int.from_bytes(b, "little" if le else "big")
                count("op:get_u:" + ("in" if exp is not None else "out"))
                kw = {}
                if en is not None:
                    kw["endianness"] = LITTLE_ENDIAN if en == "le" else BIG_ENDIAN
                try:
                    got = getattr(bs, "get_u%d" % size)(a, **kw)
                except IOError:
                    if exp is not None:
                        fail("get_u", "in-range:spurious-ioerror", "%sget_u%d(0x%x) raised IOError, expected 0x%x"
                             % (tag, size, a, exp))
                    continue
                except Exception as ex:
                    fail("get_u", ("in-range:" if exp is not None else "out-of-range:") + _exc_bucket(ex),
                         "%sget_u%d(0x%x, %s) raised %r" % (tag, size, a, en, ex))
                    continue
                if exp is None:
                    fail("get_u", "out-of-range:no-ioerror", "%sget_u%d(0x%x) = 0x%x, expected IOError" % (tag, size, a, got))
                elif got != exp:
                    fail("get_u", "in-range:value", "%sget_u%d(0x%x, endianness=%s) = 0x%x, expected 0x%x (bytes %r)"
                         % (tag, size, a, en, got, exp, b))
            elif name == "readbs":
                l = op[1]
                a = src.cursor
                if unmodelled(a, l):
                    continue
                exp = M.read(a, l)
                count("op:readbs:" + ("in" if exp is not None else "out"))
                cursor_moved = True
                try:
                    got = bs.readbs(l)
                except IOError:
                    if exp is not None and l > 0:
                        fail(name, "in-range:spurious-ioerror", "readbs(%d) at 0x%x raised IOError, expected %r" % (l, a, exp))
                    continue
                except Exception as ex:
                    fail(name, ("in-range:" if exp is not None else "out-of-range:") + _exc_bucket(ex),
                         "readbs(%d) at 0x%x raised %r" % (l, a, ex))
                    break
                if l == 0:
                    continue
                if exp is None:
                    what = "short-read" if len(got) < l else "no-ioerror"
                    fail(name, "out-of-range:" + what, "readbs(%d) at 0x%x = %r, expected IOError" % (l, a, bytes(got)))
                    break   # cursor position after a wrong read is unspecified
                elif bytes(got) != exp:
                    fail(name, "in-range:value", "readbs(%d) at 0x%x = %r, expected %r" % (l, a, bytes(got), exp))
                    break
                src.cursor += l
            else:
                raise ValueError("unknown op %r" % (op,))
    finally:
        src.close()
    return out


# ---------------------------------------------------------------------------------------------
# generator


def case_strategy(kinds):
    from hypothesis import strategies as st

    bases = st.sampled_from([0, 0, 0, 1, 7, 0x1000, 0x400000, 0xfffffff0, 0xffffffff, 1 << 32, (1 << 62) + 5])

    @st.composite
    def gen(draw):
        kind = draw(st.sampled_from(kinds))
        src = {"kind": kind}
        if kind in ("str", "bytesio", "file"):
            content = draw(st.binary(min_size=0, max_size=20))
            base = draw(bases)
            segs = [(base, content)]
            if kind == "str":
                src["cursor_at_base"] = draw(st.booleans())
        elif kind == "vm":
            boff = draw(st.sampled_from([0, 0, 0x1000, 0x10000000, 1 << 40]))
            a0 = draw(st.sampled_from([0, 3, 0x1000, 0xffe, 0x7ffffff8, 0xfffffff0, 1 << 33]))
            nseg = draw(st.integers(1, 3))
            segs = []
            a = a0
            for _ in range(nseg):
                b = draw(st.binary(min_size=1, max_size=12))
                segs.append((a, b))
                a += len(b) + draw(st.sampled_from([0, 0, 1, 5, 0x1000]))
            src["base_offset"] = boff
            src["big_endian"] = draw(st.booleans())
        elif kind == "elf":
            a0 = draw(st.sampled_from([0x8000, 0x10, 0x400000, 0xfffff000]))
            nseg = draw(st.integers(1, 2))
            segs = []
            a = a0
            for _ in range(nseg):
                b = draw(st.binary(min_size=1, max_size=16))
                segs.append((a, b))
                a += len(b) + draw(st.sampled_from([0, 0, 3, 0x100]))
            src["big_endian"] = draw(st.booleans())
        else:  # pe
            nseg = draw(st.integers(1, 2))
            segs = []
            rva = 0x1000
            for _ in range(nseg):
                b = draw(st.binary(min_size=1, max_size=24))
                segs.append((rva, b))
                rva += 0x1000
        src["segs"] = [[a, b.hex()] for a, b in segs]
        # addresses seen by the reads: for PE the sections live at ImageBase + rva and extend to
        # their virtual size
        if kind == "pe":
            ib = 0x400000
            spans = [(ib + a, len(b)) for a, b in segs] + [(ib + segs[-1][0] + 0x1000 - 8, 8)]
        else:
            spans = [(a, len(b)) for a, b in segs]

        def addr():
            a, ln = draw(st.sampled_from(spans))
            inside = st.integers(0, max(ln - 1, 0))
            rel = draw(st.one_of(st.integers(-3, ln + 3), inside, inside, st.integers(0, max(ln // 2, 0)),
                                 st.sampled_from([-0x1000, 0x1000, 1 << 31, 1 << 32, 0, 0])))
            return a + rel, ln

        ops = []
        nops = draw(st.integers(1, 10))
        moved = False
        for _ in range(nops):
            k = draw(st.sampled_from(["getbytes", "getbytes", "getbits", "getbits", "getbits", "get_u", "get_u",
                                      "atomic", "readbs", "poke", "repeat"]))
            if k == "readbs":
                if len(ops) < nops - 3:
                    k = "getbits"      # sequential reads come last (getbits depends on the cursor)
                else:
                    moved = True
            if k == "getbits" and moved:
                k = "getbytes"
            if k == "getbytes":
                a, ln = addr()
                l = draw(st.one_of(st.integers(0, 4), st.integers(1, 3), st.integers(1, ln + 4)))
                ops.append(["getbytes", a, l])
            elif k == "getbits":
                a, ln = addr()
                bit = draw(st.integers(0, 7))
                n = draw(st.one_of(st.integers(0, 9), st.integers(1, 8 * ln + 17), st.sampled_from([8, 16, 32, 64, 1 << 20])))
                ops.append(["getbits", a * 8 + bit, n])
            elif k == "get_u":
                a, ln = addr()
                ops.append(["get_u", draw(st.sampled_from([8, 16, 32, 64])), a,
                            draw(st.sampled_from([None, "le", "be"]))])
            elif k == "atomic":
                ops.append(["atomic", draw(st.sampled_from([1, 1, 0]))])
            elif k == "readbs":
                ops.append(["readbs", draw(st.integers(0, 6))])
            elif k == "poke":
                if kind == "vm":
                    a, ln = draw(st.sampled_from(spans))
                    o = draw(st.integers(0, ln - 1))
                    d = draw(st.binary(min_size=1, max_size=ln - o))
                    if draw(st.booleans()):
                        # read in one atomic section, memory write, same read in the next atomic section
                        rd = draw(st.sampled_from([["getbytes", a + o, len(d)], ["getbits", (a + o) * 8, 8 * len(d)],
                                                   ["get_u", 8, a + o, None]]))
                        if moved and rd[0] == "getbits":
                            rd = ["getbytes", a + o, len(d)]
                        ops.extend([["atomic", 1], rd, ["poke", a + o, d.hex()], ["atomic", 1], list(rd)])
                    else:
                        ops.append(["poke", a + o, d.hex()])
            elif k == "repeat" and ops:
                # the same read again: hits the cache when in atomic mode
                ops.append(list(draw(st.sampled_from(ops))))
        return {"src": src, "ops": ops}
    return gen()


def nontrivial(case):
    """a bit field that is not byte-aligned and longer than 8 bits, or a read outside the source"""
    segs = [(a, bytes.fromhex(h)) for a, h in case["src"]["segs"]]
    if case["src"]["kind"] == "pe":
        segs = [(a + 0x400000, b + b"\0" * (0x1000 - len(b))) for a, b in segs]
    M = Model(segs)
    for op in case["ops"]:
        if op[0] == "getbits":
            if op[2] > 8 and op[1] % 8:
                return True
            if op[2] and M.bits(op[1], op[2]) is None:
                return True
        elif op[0] == "getbytes" and op[2] and M.read(op[1], op[2]) is None:
            return True
        elif op[0] == "get_u" and M.read(op[2], op[1] // 8) is None:
            return True
    return False


class C25(Check):
    pid = "C25"
    needs_build = True
    rule = ("Hypothesis cases: a source (bin_stream_str with base address; bin_stream_file over BytesIO and a real "
            "file; bin_stream_vm over 1-3 pages, adjacent or apart, with base offset, both byte orders; "
            "bin_stream_elf over a generated ELF32 with 1-2 PT_LOAD segments, both byte orders; bin_stream_pe over a "
            "generated 1-2 section PE) and 1-10 operations among getbytes, getbits (any bit offset, lengths 0.."
            "8*len+17 and 2^20), get_u8/16/32/64 with explicit or default byte order, sequential readbs, "
            "enter/leave atomic mode with repeated reads, VM memory writes between atomic sections; positions drawn "
            "around both ends of every segment and far outside. Oracle: byte map of the source, bit fields as "
            "big-endian integers; undefined reads must raise IOError. Non-trivial: the case holds a bit field with "
            "unaligned start and length > 8, or a read outside the source; distinct by (source, operations).")
    assumptions = ["getbits is judged with the sequential-read cursor at its initial position (as the decoders "
                   "use it): bin_stream.getbits compares the length with getlen(), which depends on the cursor",
                   "bin_stream_file is constructed with offset=base_address (its cursor is the file position)",
                   "reads of length 0 may return b'' or raise",
                   "PE: bytes of the header area (below the first section) are not modelled; a section extends to "
                   "the virtual size of its header and is zero filled",
                   "the emulator memory changes only outside atomic mode (between two decoded instructions)",
                   "VM addresses stay below 2^63 (no 64-bit wrap-around)"]
    level_text = ("randomized differential testing of every stream class against a byte-map oracle, inside, at and "
                  "across the bounds of the source")
    technique = "property-based testing (Hypothesis cases of source + read operations, byte-map oracle)"

    def nshards(self, tier):
        return 32 if tier == "thorough" else 16

    def run_shard(self, tier, seed, shard, nshards):
        from vlib import hyp
        res = ShardResult()
        n = 4000 if tier == "thorough" else 500
        cnt = [0]

        def one(case):
            cnt[0] += 1
            fails = judge_case(case, res)
            res.counters["kind:" + case["src"]["kind"]] += 1
            nt = nontrivial(case)
            res.case(nontrivial_key=repr(case) if nt else None,
                     sample=case if nt and cnt[0] % 101 == 0 else None)
            for b, d in fails:
                res.fail(b, d, dict(case, _bucket=b))
        try:
            hyp.survey(case_strategy(KINDS_ALL), n, seed, one)
        finally:
            scratch_cleanup()
        return res

    def replay(self, case):
        try:
            fails = judge_case(case)
        finally:
            scratch_cleanup()
        if not fails:
            return None
        want = case.get("_bucket")
        for b, d in fails:
            if b == want:
                return Failure(b, d, case)
        b, d = fails[0]
        return Failure(b, d, case)

    def shrink(self, failure, tier):
        from vlib import hyp
        case = failure.case
        bucket = failure.bucket

        def still(ops):
            c = dict(case, ops=ops)
            return any(b == bucket for b, _ in judge_case(c))
        try:
            ops = hyp.ddmin_list(case["ops"], still, budget=200)
            small = dict(case, ops=ops)
            for b, d in judge_case(small):
                if b == bucket:
                    return Failure(b, d, small)
        finally:
            scratch_cleanup()
        return failure


CHECK = C25()
